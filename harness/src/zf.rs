//! Shared observation functions for the zone-file reader (C07) and the
//! presentation round trip (C06).  Included by the executors with
//! `#[path = "../zf.rs"] mod zf;`.
#![allow(dead_code)]
use bytes::Bytes;
use domain::base::iana::Class;
use domain::base::name::{Name, ToName};
use domain::base::rdata::ComposeRecordData;
use domain::zonefile::inplace::{Entry, ScannedRecord, Zonefile};
use serde_json::{json, Value};
use std::sync::atomic::{AtomicU64, Ordering};
use std::sync::Mutex;
use verif_harness::common::*;

/// Uncompressed wire octets of a (possibly chained) name.
pub fn name_octets<N: ToName>(n: &N) -> Vec<u8> {
    let mut v = Vec::new();
    for l in n.iter_labels() {
        v.push(l.len() as u8);
        v.extend_from_slice(l.as_slice());
    }
    v
}

pub fn rdata_octets(r: &ScannedRecord) -> Vec<u8> {
    let mut v: Vec<u8> = Vec::new();
    let _ = r.data().compose_rdata(&mut v);
    v
}

pub fn record_json(r: &ScannedRecord) -> Value {
    json!({
        "owner": json_bytes(&name_octets(r.owner())),
        "class": r.class().to_int(),
        "ttl": r.ttl().as_secs(),
        "rtype": r.rtype().to_int(),
        "rdata": json_bytes(&rdata_octets(r)),
    })
}

pub struct ReadOpts<'a> {
    pub origin: Option<&'a [u8]>, // wire octets of an absolute name
    pub default_class: Option<u16>,
    pub allow_invalid: bool,
}

/// Run the reader to exhaustion.  Observation:
/// `{"entries":[...], "err":bool}`; entries read before the first error are
/// kept.  `next_entry` is never called again after an error (the API says the
/// scanner is invalid then).
pub fn read_all(data: &[u8], o: &ReadOpts) -> Value {
    let (entries, err) = read_all_raw(data, o);
    json!({"entries": entries, "err": err.is_some()})
}

pub fn read_all_raw(data: &[u8], o: &ReadOpts) -> (Vec<Value>, Option<String>) {
    let mut zone = Zonefile::from(data);
    if o.allow_invalid {
        zone = zone.allow_invalid();
    }
    if let Some(w) = o.origin {
        let n = Name::<Bytes>::from_octets(Bytes::copy_from_slice(w)).expect("origin");
        zone.set_origin(n);
    }
    if let Some(c) = o.default_class {
        zone.set_default_class(Class::from_int(c));
    }
    let mut entries = vec![];
    // every successful call consumes at least one octet, so len+2 calls suffice
    let cap = data.len() + 2;
    for _ in 0..=cap {
        match zone.next_entry() {
            Ok(Some(Entry::Record(r))) => entries.push(record_json(&r)),
            Ok(Some(Entry::Include { path, origin })) => entries.push(json!({
                "include": json_bytes(path.as_str().as_bytes()),
                "origin": json_bytes(&origin.map(|n| name_octets(&n)).unwrap_or_default()),
            })),
            Ok(None) => return (entries, None),
            Err(e) => return (entries, Some(format!("{}", e))),
        }
    }
    (entries, Some("NO-PROGRESS".into()))
}

// ---------------------------------------------------------------- watchdog
static TICK: AtomicU64 = AtomicU64::new(0);
static CURRENT: Mutex<String> = Mutex::new(String::new());

/// Called at the start of every case with a printable description.
pub fn tick(desc: &str) {
    if let Ok(mut g) = CURRENT.lock() {
        g.clear();
        g.push_str(desc);
    }
    TICK.fetch_add(1, Ordering::SeqCst);
}

/// A case that runs longer than `secs` is a hang: report it as a failing
/// observation and end the executor (the summary says fail = 1).
pub fn start_watchdog(secs: u64) {
    std::thread::spawn(move || {
        let mut last = TICK.load(Ordering::SeqCst);
        let mut since = std::time::Instant::now();
        loop {
            std::thread::sleep(std::time::Duration::from_millis(500));
            let now = TICK.load(Ordering::SeqCst);
            if now != last {
                last = now;
                since = std::time::Instant::now();
            } else if now > 0 && since.elapsed().as_secs() >= secs {
                let d = CURRENT.lock().map(|g| g.clone()).unwrap_or_default();
                println!("FAIL {}", json!({"in": d, "exp": "terminates", "obs": {"hang": true}}));
                println!("SUMMARY {}", json!({"n": now, "pass": now - 1, "fail": 1, "panics": 0,
                                              "known": {}, "samples": []}));
                std::process::exit(0);
            }
        }
    });
}

pub fn show(data: &[u8]) -> String {
    data.iter()
        .map(|b| match *b {
            b'\n' => "\\n".to_string(),
            b'\r' => "\\r".to_string(),
            b'\t' => "\\t".to_string(),
            0x20..=0x7e => (*b as char).to_string(),
            _ => format!("\\x{:02x}", b),
        })
        .collect()
}

// ------------------------------------------------------ presentation (C06)
use domain::base::iana::Rtype;
use domain::base::name::{FlattenInto, ParsedName};
use domain::base::rdata::ParseRecordData;
use domain::base::zonefile_fmt::{DisplayKind, ZonefileFmt};
use domain::base::{Record, Ttl};
use domain::rdata::ZoneRecordData;
use octseq::Parser;

pub type FlatData = ZoneRecordData<Bytes, Name<Bytes>>;
pub type FlatRecord = Record<Name<Bytes>, FlatData>;

/// Build a record from uncompressed wire octets (owner name, RDATA).
pub fn record_from_wire(owner: &[u8], class: u16, ttl: u32, rtype: u16, rdata: &[u8])
    -> Result<FlatRecord, String>
{
    let owner = Name::<Bytes>::from_octets(Bytes::copy_from_slice(owner))
        .map_err(|e| format!("owner: {}", e))?;
    let b = Bytes::copy_from_slice(rdata);
    let mut p = Parser::from_ref(&b);
    let data = ZoneRecordData::<Bytes, ParsedName<Bytes>>::parse_rdata(Rtype::from_int(rtype), &mut p)
        .map_err(|e| format!("rdata: {}", e))?
        .ok_or_else(|| "rdata: type not parsed".to_string())?;
    if p.remaining() != 0 {
        return Err("rdata: trailing octets".into());
    }
    let data: FlatData = data.flatten_into();
    Ok(Record::new(owner, Class::from_int(class), Ttl::from_secs(ttl), data))
}

/// The four ways the library writes a record as text.  None of them ends
/// the line; a zone file needs the line feed, so it is added here.
pub fn write_record(r: &FlatRecord, kind: &str) -> String {
    let mut s = match kind {
        "simple" => format!("{}", r.display_zonefile(DisplayKind::Simple)),
        "tabbed" => format!("{}", r.display_zonefile(DisplayKind::Tabbed)),
        "multiline" => format!("{}", r.display_zonefile(DisplayKind::Multiline)),
        _ => format!("{}", r),
    };
    s.push('\n');
    s
}

pub fn flat_record_json(r: &FlatRecord) -> Value {
    let mut v: Vec<u8> = Vec::new();
    let _ = r.data().compose_rdata(&mut v);
    json!({
        "owner": json_bytes(&name_octets(r.owner())),
        "class": r.class().to_int(),
        "ttl": r.ttl().as_secs(),
        "rtype": r.rtype().to_int(),
        "rdata": json_bytes(&v),
    })
}

/// Read `text` and compare with `r`: "eq" when exactly one record comes back
/// that the library itself considers equal (name equality is
/// case-insensitive; class, TTL, type and data must match), otherwise the raw
/// outcome so that a deviation's predicted misreading can be matched.
pub fn read_back(r: &FlatRecord, text: &[u8], origin: Option<&[u8]>) -> Value {
    let mut zone = Zonefile::from(text);
    if let Some(w) = origin {
        zone.set_origin(Name::<Bytes>::from_octets(Bytes::copy_from_slice(w)).expect("origin"));
    }
    let mut recs: Vec<ScannedRecord> = vec![];
    let mut other = 0;
    let mut err = false;
    for _ in 0..text.len() + 3 {
        match zone.next_entry() {
            Ok(Some(Entry::Record(x))) => recs.push(x),
            Ok(Some(_)) => other += 1,
            Ok(None) => break,
            Err(_) => { err = true; break; }
        }
    }
    if !err && other == 0 && recs.len() == 1 {
        let x = &recs[0];
        // Record == compares owner (case-insensitively), class and data; TTL separately
        let same = x.owner().name_eq(r.owner())
            && x.class() == r.class()
            && x.ttl() == r.ttl()
            && x.rtype() == r.rtype()
            && rdata_equal(x, r);
        if same {
            return json!("eq");
        }
    }
    let _ = (recs, other, err);
    read_all(text, &ReadOpts { origin, default_class: None, allow_invalid: false })
}

/// Data equality: the library's own PartialEq across name types where it is
/// available is what "equal record" means; the composed RDATA octets are
/// compared in addition as the canonical-independent ground truth for types
/// without embedded names.
fn rdata_equal(x: &ScannedRecord, r: &FlatRecord) -> bool {
    let y: FlatData = x.data().clone().flatten_into();
    y == *r.data()
}

// ------------------------------------------- routes and zones (C06, round 5)
// Further ways to build the record that is written, to write it, and to set
// up the reader.  All of them are aliases as far as Presentation.tla is
// concerned: the expectation of a case does not depend on the route.
use bytes::{BufMut, BytesMut};
use domain::base::charstr::{CharStr, CharStrBuilder};
use domain::base::rdata::UnknownRecordData;
use domain::base::record::RecordHeader;
use domain::base::zonefile_fmt::{self, FormatWriter, Formatter};
use domain::rdata::{AllRecordData, Cname, Dname, Hinfo, Mx, Ns, Ptr, Txt};
use domain::rdata::rfc1035::TxtBuilder;
use octseq::octets::OctetsFrom;
use octseq::builder::OctetsBuilder;

pub const MK_ROUTES: &[&str] = &["new", "tuple_u32", "tuple_ttl", "in_default", "header", "parse"];
pub const MKD_ROUTES: &[&str] = &["wire", "typed", "builder"];
pub const WR_ROUTES: &[&str] = &["zone", "all", "ref", "parsed", "own"];
pub const CTOR_ROUTES: &[&str] = &["from_slice", "from_str", "load", "bufmut", "extend", "default_reserve"];

fn charstrs_of(mut rdata: &[u8]) -> Option<Vec<Vec<u8>>> {
    let mut v = vec![];
    while let Some(&n) = rdata.first() {
        let n = n as usize;
        if rdata.len() <= n { return None; }
        v.push(rdata[1..=n].to_vec());
        rdata = &rdata[n + 1..];
    }
    Some(v)
}

fn ttl_via_units(secs: u32) -> Ttl {
    // Ttl::from_days / from_hours / from_mins / from_duration_lossy: the same value
    if secs % 86400 == 0 && secs / 86400 <= 49710 { Ttl::from_days((secs / 86400) as u16) }
    else if secs % 3600 == 0 { Ttl::from_hours(secs / 3600) }
    else if secs % 60 == 0 { Ttl::from_mins(secs / 60) }
    else { Ttl::from_duration_lossy(std::time::Duration::new(secs as u64, 999_999)) }
}

/// Record data built another way than by parsing its wire form.  Returns
/// None where the route has nothing to offer for the type (the caller falls
/// back to the wire form).
fn data_via(mkd: &str, rtype: u16, rdata: &[u8]) -> Option<Result<FlatData, String>> {
    let name_at = |at: usize| Name::<Bytes>::from_octets(Bytes::copy_from_slice(&rdata[at..])).map_err(|e| format!("name: {}", e));
    let e = |s: String| Some(Err(s));
    match (mkd, rtype) {
        ("typed", 16) => {
            let t = match Txt::<Bytes>::from_octets(Bytes::copy_from_slice(rdata)) { Ok(t) => t, Err(x) => return e(x.to_string()) };
            // the same data as a slice, through iteration, and through ParseRecordData
            match Txt::from_slice(rdata) {
                Ok(s) if s.iter().collect::<Vec<_>>() == (&t).into_iter().collect::<Vec<_>>() => {}
                _ => return e("Txt::from_slice differs".into()),
            }
            let b = Bytes::copy_from_slice(rdata);
            let mut p = Parser::from_ref(&b);
            match Txt::<Bytes>::parse_rdata(Rtype::TXT, &mut p) {
                Ok(Some(x)) if x == t => {}
                _ => return e("Txt::parse_rdata differs".into()),
            }
            Some(Ok(FlatData::from(t)))
        }
        ("builder", 16) => {
            let strs = charstrs_of(rdata)?;
            if strs.len() == 1 && !strs[0].is_empty() {
                // one string: octet by octet, then through Txt<Vec<u8>> and OctetsFrom
                let mut b = TxtBuilder::<Vec<u8>>::default();
                for ch in &strs[0] { if let Err(x) = b.append_u8(*ch) { return e(x.to_string()); } }
                let t = match b.finish() { Ok(t) => t, Err(x) => return e(x.to_string()) };
                if t.as_flat_slice() != Some(&strs[0][..]) { return e("as_flat_slice differs".into()); }
                Some(Txt::<Bytes>::try_octets_from(t).map(FlatData::from).map_err(|_| "octets_from".to_string()))
            } else {
                let mut b = TxtBuilder::new_bytes();
                for s in &strs {
                    let cs = match CharStr::from_slice(s) { Ok(c) => c, Err(x) => return e(x.to_string()) };
                    if let Err(x) = b.append_charstr(cs) { return e(x.to_string()); }
                }
                Some(b.finish().map(FlatData::from).map_err(|x| x.to_string()))
            }
        }
        ("typed", 13) | ("builder", 13) => {
            let strs = charstrs_of(rdata)?;
            if strs.len() != 2 { return None; }
            let (cpu, os) = if mkd == "typed" {
                (CharStr::from_octets(Bytes::copy_from_slice(&strs[0])).ok()?, CharStr::from_octets(Bytes::copy_from_slice(&strs[1])).ok()?)
            } else {
                let mut a = if strs[0].is_empty() { CharStr::<Bytes>::empty().into_builder() } else { CharStrBuilder::new_bytes() };
                for chunk in strs[0].chunks(3) { if a.append_slice(chunk).is_err() { return e("charstr builder".into()); } }
                if a.len() != strs[0].len() || a.is_empty() != strs[0].is_empty() { return e("charstr builder len".into()); }
                let b = match CharStrBuilder::from_builder(BytesMut::from(&strs[1][..])) { Ok(b) => b, Err(x) => return e(x.to_string()) };
                (a.finish(), b.finish())
            };
            if cpu.len() != strs[0].len() || os.iter().collect::<Vec<u8>>() != strs[1] { return e("charstr content".into()); }
            Some(Ok(FlatData::from(Hinfo::new(cpu, os))))
        }
        ("typed", 2) => Some(name_at(0).map(|n| FlatData::from(Ns::from(n)))),
        ("typed", 5) => Some(name_at(0).map(|n| FlatData::from(Cname::from(n)))),
        ("typed", 12) => Some(name_at(0).map(|n| FlatData::from(Ptr::from(n)))),
        ("typed", 39) => Some(name_at(0).map(|n| FlatData::from(Dname::from(n)))),
        ("builder", 2) | ("builder", 5) | ("builder", 12) | ("builder", 39) => {
            // a name over Vec<u8>, converted with OctetsFrom
            let n = match Name::<Vec<u8>>::from_octets(rdata.to_vec()) { Ok(n) => n, Err(x) => return e(x.to_string()) };
            let r: Result<FlatData, ()> = match rtype {
                2 => Ns::<Name<Bytes>>::try_octets_from(Ns::new(n)).map(FlatData::from).map_err(|_| ()),
                5 => Cname::<Name<Bytes>>::try_octets_from(Cname::new(n)).map(FlatData::from).map_err(|_| ()),
                12 => Ptr::<Name<Bytes>>::try_octets_from(Ptr::new(n)).map(FlatData::from).map_err(|_| ()),
                _ => Dname::<Name<Bytes>>::try_octets_from(Dname::new(n)).map(FlatData::from).map_err(|_| ()),
            };
            Some(r.map_err(|_| "octets_from".to_string()))
        }
        ("typed", 15) | ("builder", 15) if rdata.len() >= 3 =>
            Some(name_at(2).map(|n| FlatData::from(Mx::new(u16::from_be_bytes([rdata[0], rdata[1]]), n)))),
        ("typed", t) | ("builder", t) if t == 65280 || t == 1234 =>
            Some(UnknownRecordData::from_octets(Rtype::from_int(t), Bytes::copy_from_slice(rdata)).map(FlatData::from).map_err(|x| x.to_string())),
        ("builder", 64) | ("builder", 65) | ("typed", 64) | ("typed", 65) => Some(svcb_via(mkd, rtype, rdata)),
        _ => None,
    }
}

/// SVCB / HTTPS record data assembled with SvcParamsBuilder: the typed
/// methods (alpn, port, ipv4hint, ...) for the known keys ("builder") or
/// value objects pushed one by one ("typed"); the typed getters of SvcParams
/// must hand the values back.
fn svcb_via(mkd: &str, rtype: u16, rdata: &[u8]) -> Result<FlatData, String> {
    use domain::base::iana::SvcParamKey;
    use domain::rdata::svcb::value::{Alpn, DohPath, Ech, Ipv4Hint, Ipv6Hint, Mandatory, NoDefaultAlpn, Ohttp, Port, TlsSupportedGroups};
    use domain::rdata::svcb::{Https, Svcb, SvcParams, SvcParamsBuilder, UnknownSvcParam};
    use std::net::{Ipv4Addr, Ipv6Addr};
    if rdata.len() < 3 { return Err("short".into()); }
    let prio = u16::from_be_bytes([rdata[0], rdata[1]]);
    let mut end = 2;
    while rdata[end] != 0 { end += 1 + rdata[end] as usize; }
    end += 1;
    let target = Name::<Bytes>::from_octets(Bytes::copy_from_slice(&rdata[2..end])).map_err(|e| e.to_string())?;
    let wire = &rdata[end..];
    let mut b = SvcParamsBuilder::<BytesMut>::empty();
    let mut p = wire;
    let es = |x: &dyn std::fmt::Display| x.to_string();
    while p.len() >= 4 {
        let key = u16::from_be_bytes([p[0], p[1]]);
        let n = u16::from_be_bytes([p[2], p[3]]) as usize;
        let v = &p[4..4 + n];
        p = &p[4 + n..];
        let keys16 = || -> Vec<SvcParamKey> { v.chunks(2).map(|c| SvcParamKey::from_int(u16::from_be_bytes([c[0], c[1]]))).collect() };
        let typed = mkd == "typed";
        match key {
            0 if typed => b.push(&Mandatory::<Vec<u8>>::from_keys(keys16().into_iter()).map_err(|e| es(&e))?).map_err(|e| es(&e))?,
            0 => b.mandatory(keys16()).map_err(|e| es(&e))?,
            1 if typed => b.push(Alpn::from_slice(v).map_err(|e| es(&e))?).map_err(|e| es(&e))?,
            1 => { let mut ids: Vec<&[u8]> = vec![]; let mut q = v; while !q.is_empty() { let k = q[0] as usize; ids.push(&q[1..=k]); q = &q[k + 1..]; }
                   b.alpn(&ids).map_err(|e| es(&e))? }
            2 if typed => b.push(&NoDefaultAlpn).map_err(|e| es(&e))?,
            2 => b.no_default_alpn().map_err(|e| es(&e))?,
            3 if typed => b.push(&Port::new(u16::from_be_bytes([v[0], v[1]]))).map_err(|e| es(&e))?,
            3 => b.port(u16::from_be_bytes([v[0], v[1]])).map_err(|e| es(&e))?,
            4 if typed => b.push(&Ipv4Hint::<Vec<u8>>::from_addrs(v.chunks(4).map(|c| Ipv4Addr::new(c[0], c[1], c[2], c[3]))).map_err(|e| es(&e))?).map_err(|e| es(&e))?,
            4 => b.ipv4hint(v.chunks(4).map(|c| Ipv4Addr::new(c[0], c[1], c[2], c[3])).collect::<Vec<_>>()).map_err(|e| es(&e))?,
            5 if typed => b.push(Ech::from_slice(v).map_err(|e| es(&e))?).map_err(|e| es(&e))?,
            5 => b.ech(v).map_err(|e| es(&e))?,
            6 if typed => b.push(&Ipv6Hint::<Vec<u8>>::from_addrs(v.chunks(16).map(|c| { let mut a = [0u8; 16]; a.copy_from_slice(c); Ipv6Addr::from(a) })).map_err(|e| es(&e))?).map_err(|e| es(&e))?,
            6 => b.ipv6hint(v.chunks(16).map(|c| { let mut a = [0u8; 16]; a.copy_from_slice(c); Ipv6Addr::from(a) }).collect::<Vec<_>>()).map_err(|e| es(&e))?,
            7 if typed => b.push(DohPath::from_slice(v).map_err(|e| es(&e))?).map_err(|e| es(&e))?,
            7 => b.dohpath(std::str::from_utf8(v).map_err(|e| es(&e))?).map_err(|e| es(&e))?,
            8 if typed => b.push(&Ohttp).map_err(|e| es(&e))?,
            8 => b.ohttp().map_err(|e| es(&e))?,
            9 if typed => b.push(&TlsSupportedGroups::<Vec<u8>>::from_keys(keys16().into_iter().map(|k| k.to_int())).map_err(|e| es(&e))?).map_err(|e| es(&e))?,
            9 => b.tls_supported_groups(keys16()).map_err(|e| es(&e))?,
            k => b.push(&UnknownSvcParam::new(SvcParamKey::from_int(k), v).map_err(|e| es(&e))?).map_err(|e| es(&e))?,
        }
    }
    let params: SvcParams<Bytes> = b.freeze::<Bytes>().map_err(|_| "freeze".to_string())?;
    if params.as_slice() != wire { return Err("SvcParamsBuilder assembled different parameters".into()); }
    match SvcParams::from_slice(wire) { Ok(sl) if sl.as_slice() == wire && sl.len() == params.len() => {}, _ => return Err("SvcParams::from_slice".into()) }
    // the typed getters find what was put in
    let get = |k: u16| -> Option<&[u8]> { let mut p = wire; while p.len() >= 4 { let n = u16::from_be_bytes([p[2], p[3]]) as usize;
        if u16::from_be_bytes([p[0], p[1]]) == k { return Some(&p[4..4 + n]); } p = &p[4 + n..]; } None };
    let same = params.mandatory().map(|x| x.as_slice().to_vec()) == get(0).map(|x| x.to_vec())
        && params.alpn().map(|x| x.as_slice().to_vec()) == get(1).map(|x| x.to_vec())
        && params.no_default_alpn() == get(2).is_some()
        && params.port().map(|x| x.port().to_be_bytes().to_vec()) == get(3).map(|x| x.to_vec())
        && params.ipv4hint().map(|x| x.as_slice().to_vec()) == get(4).map(|x| x.to_vec())
        && params.ech().map(|x| x.as_slice().to_vec()) == get(5).map(|x| x.to_vec())
        && params.ipv6hint().map(|x| x.as_slice().to_vec()) == get(6).map(|x| x.to_vec())
        && params.dohpath().map(|x| x.as_slice().to_vec()) == get(7).map(|x| x.to_vec())
        && params.ohttp() == get(8).is_some()
        && params.tls_supported_groups().map(|x| x.as_slice().to_vec()) == get(9).map(|x| x.to_vec());
    if !same { return Err("SvcParams getters differ from what was built".into()); }
    // and SvcParamsBuilder::from_params copies them
    let again: SvcParams<Bytes> = SvcParamsBuilder::<BytesMut>::from_params(&params).map_err(|_| "from_params".to_string())?
        .freeze::<Bytes>().map_err(|_| "freeze".to_string())?;
    if again.as_slice() != wire { return Err("SvcParamsBuilder::from_params differs".into()); }
    if rtype == 64 { Svcb::new(prio, target, params).map(FlatData::from).map_err(|e| e.to_string()) }
    else { Https::new(prio, target, params).map(FlatData::from).map_err(|e| e.to_string()) }
}

/// The record, built by route `mk` (record) x `mkd` (data).
pub fn record_via(mk: &str, mkd: &str, owner: &[u8], class: u16, ttl: u32, rtype: u16, rdata: &[u8])
    -> Result<FlatRecord, String>
{
    let base = record_from_wire(owner, class, ttl, rtype, rdata)?;
    let data = match data_via(mkd, rtype, rdata) {
        Some(d) => {
            let d = d?;
            if d != *base.data() { return Err(format!("data route {} builds different data", mkd)); }
            d
        }
        None => base.data().clone(),
    };
    let o = base.owner().clone();
    let c = Class::from_int(class);
    let rec: FlatRecord = match mk {
        "tuple_u32" => Record::from((o, c, ttl, data)),
        "tuple_ttl" => Record::from((o, c, ttl_via_units(ttl), data)),
        "in_default" => { let mut r = Record::from((o, ttl, data)); if class != 1 { r.set_class(c); } r }
        "header" => RecordHeader::new(o, Rtype::from_int(rtype), c, Ttl::from_secs(ttl), rdata.len() as u16).into_record(data),
        "parse" => {
            // the whole record from its wire form
            let mut w: Vec<u8> = Vec::new();
            RecordHeader::new(o.clone(), Rtype::from_int(rtype), c, Ttl::from_secs(ttl), rdata.len() as u16)
                .compose(&mut w).map_err(|_| "RecordHeader::compose".to_string())?;
            let mut manual = owner.to_vec();
            manual.extend_from_slice(&rtype.to_be_bytes());
            manual.extend_from_slice(&class.to_be_bytes());
            manual.extend_from_slice(&ttl.to_be_bytes());
            manual.extend_from_slice(&(rdata.len() as u16).to_be_bytes());
            if w != manual { return Err("RecordHeader::compose differs from the wire form".into()); }
            w.extend_from_slice(rdata);
            let b = Bytes::from(w);
            let mut p = Parser::from_ref(&b);
            let h = RecordHeader::<ParsedName<Bytes>>::parse(&mut p).map_err(|e| format!("RecordHeader::parse: {}", e))?;
            if p.remaining() != rdata.len() || h.rdlen() as usize != rdata.len() { return Err("RecordHeader::parse: position".into()); }
            let mut p = Parser::from_ref(&b);
            let r = Record::<ParsedName<Bytes>, ZoneRecordData<Bytes, ParsedName<Bytes>>>::parse(&mut p)
                .map_err(|e| format!("Record::parse: {}", e))?.ok_or("Record::parse: none")?;
            let (po, pd) = r.clone().into_owner_and_data();
            let fo: Name<Bytes> = po.flatten_into();
            let fd: FlatData = pd.flatten_into();
            Record::new(fo, r.class(), r.ttl(), fd)
        }
        _ => Record::new(o, c, Ttl::from_secs(ttl), data),
    };
    // the routes are aliases: the same record whichever way it was built
    if !rec.owner().name_eq(base.owner()) || rec.class() != base.class() || rec.ttl() != base.ttl()
        || rec.rtype() != base.rtype() || rec.data() != base.data()
    {
        return Err(format!("record route {} builds a different record", mk));
    }
    Ok(rec)
}

fn fmt_kind<T: ZonefileFmt + std::fmt::Display>(r: &T, kind: &str) -> String {
    match kind {
        "simple" => format!("{}", r.display_zonefile(DisplayKind::Simple)),
        "tabbed" => format!("{}", r.display_zonefile(DisplayKind::Tabbed)),
        "multiline" => format!("{}", r.display_zonefile(DisplayKind::Multiline)),
        _ => format!("{}", r),
    }
}

/// The record written by route `wr`: as it is, with AllRecordData as data
/// type, through a reference, with parsed (not flattened) names.
pub fn write_record_via(wr: &str, r: &FlatRecord, kind: &str) -> String {
    let mut s = match wr {
        "all" => {
            // the data as AllRecordData: From<the concrete type> where the type is one
            // of the modelled ones, else parsed from the wire form and flattened
            let mut w: Vec<u8> = Vec::new();
            let _ = r.data().compose_rdata(&mut w);
            let b = Bytes::from(w);
            let mut p = Parser::from_ref(&b);
            let d: AllRecordData<Bytes, Name<Bytes>> = match r.data().clone() {
                ZoneRecordData::Txt(x) => x.into(),
                ZoneRecordData::Hinfo(x) => x.into(),
                ZoneRecordData::Ns(x) => x.into(),
                ZoneRecordData::Cname(x) => x.into(),
                ZoneRecordData::Ptr(x) => x.into(),
                ZoneRecordData::Dname(x) => x.into(),
                ZoneRecordData::Mx(x) => x.into(),
                ZoneRecordData::Unknown(x) => x.into(),
                _ => match AllRecordData::<Bytes, ParsedName<Bytes>>::parse_rdata(r.rtype(), &mut p) {
                    Ok(Some(x)) => x.flatten_into(),
                    _ => return "<AllRecordData::parse_rdata failed>\n".to_string(),
                },
            };
            // and back: From<AllRecordData> for Result<ZoneRecordData, AllRecordData>
            let back: Result<FlatData, AllRecordData<Bytes, Name<Bytes>>> = d.clone().into();
            if back.ok().as_ref() != Some(r.data()) { return "<AllRecordData -> ZoneRecordData differs>\n".to_string(); }
            fmt_kind(&Record::new(r.owner().clone(), r.class(), r.ttl(), d), kind)
        }
        "ref" => fmt_kind(&r, kind),
        "parsed" => {
            let mut w: Vec<u8> = Vec::new();
            let _ = r.compose(&mut w);
            let b = Bytes::from(w);
            let mut p = Parser::from_ref(&b);
            match Record::<ParsedName<Bytes>, ZoneRecordData<Bytes, ParsedName<Bytes>>>::parse(&mut p) {
                Ok(Some(pr)) => fmt_kind(&pr, kind),
                _ => "<Record::parse failed>".to_string(),
            }
        }
        "own" => {
            // a FormatWriter of the user's own: the tokens, one space between them
            let mut c = TokenCollector::default();
            match r.fmt(&mut c) { Ok(()) => c.toks.join(" "), Err(_) => "<ZonefileFmt::fmt failed>".to_string() }
        }
        _ => fmt_kind(r, kind),
    };
    s.push('\n');
    s
}

/// The library's record-data tokens (TokenCollector), cut into words at
/// unescaped spaces outside quotes, quotes taken off.
pub fn rdata_words(r: &FlatRecord) -> Vec<String> {
    let mut c = TokenCollector::default();
    let _ = r.data().fmt(&mut c);
    let mut out = vec![];
    for t in c.toks {
        let (mut cur, mut quoted, mut any, mut esc) = (String::new(), false, false, false);
        for ch in t.chars() {
            if esc { cur.push(ch); esc = false; continue; }
            match ch {
                '\\' => { cur.push(ch); esc = true; any = true; }
                '"' => { quoted = !quoted; any = true; }
                ' ' if !quoted => { if any { out.push(std::mem::take(&mut cur)); any = false; } }
                _ => { cur.push(ch); any = true; }
            }
        }
        if any { out.push(cur); }
    }
    out
}

/// A zone: all records through ONE FormatWriter, FormatWriter::newline
/// after each record.
pub struct ZoneOf<'a>(pub &'a [FlatRecord]);
impl ZonefileFmt for ZoneOf<'_> {
    fn fmt(&self, p: &mut impl Formatter) -> zonefile_fmt::Result {
        for r in self.0 {
            r.fmt(p)?;
            p.newline()?;
        }
        Ok(())
    }
}
pub fn write_zone_fmt(rs: &[FlatRecord], kind: &str) -> String {
    let z = ZoneOf(rs);
    match kind {
        "tabbed" => format!("{}", z.display_zonefile(DisplayKind::Tabbed)),
        "multiline" => format!("{}", z.display_zonefile(DisplayKind::Multiline)),
        _ => format!("{}", z.display_zonefile(DisplayKind::Simple)),
    }
}

/// A FormatWriter of the user's own (the trait is public): collects tokens.
#[derive(Default)]
pub struct TokenCollector { pub toks: Vec<String> }
impl FormatWriter for TokenCollector {
    fn fmt_token(&mut self, args: std::fmt::Arguments<'_>) -> zonefile_fmt::Result { self.toks.push(format!("{}", args)); Ok(()) }
    fn begin_block(&mut self) -> zonefile_fmt::Result { Ok(()) }
    fn end_block(&mut self) -> zonefile_fmt::Result { Ok(()) }
    fn fmt_comment(&mut self, _args: std::fmt::Arguments<'_>) -> zonefile_fmt::Result { Ok(()) }
    fn newline(&mut self) -> zonefile_fmt::Result { Ok(()) }
}

/// The reader over `text`, set up by route `ctor`, then configured.
pub fn zonefile_via(ctor: &str, text: &[u8], o: &ReadOpts) -> Result<Zonefile, String> {
    let mut zone = match ctor {
        "from_str" => Zonefile::from(std::str::from_utf8(text).map_err(|_| "text is not UTF-8".to_string())?),
        "load" => { let mut src: &[u8] = text; Zonefile::load(&mut src).map_err(|e| e.to_string())? }
        "bufmut" => {
            let mut z = Zonefile::new();
            for chunk in text.chunks(7) {
                if z.remaining_mut() < chunk.len() { return Err("remaining_mut too small".into()); }
                z.put_slice(chunk);
            }
            z
        }
        "extend" => { let mut z = Zonefile::with_capacity(0); for chunk in text.chunks(5) { z.extend_from_slice(chunk); } z }
        "default_reserve" => { let mut z = Zonefile::default(); z.reserve(text.len() + 1); z.extend_from_slice(text); z }
        _ => Zonefile::from(text),
    };
    if o.allow_invalid {
        zone = zone.allow_invalid();
    }
    if let Some(w) = o.origin {
        zone.set_origin(Name::<Bytes>::from_octets(Bytes::copy_from_slice(w)).map_err(|e| e.to_string())?);
    }
    if let Some(c) = o.default_class {
        zone.set_default_class(Class::from_int(c));
    }
    Ok(zone)
}

/// Read to exhaustion like `read_all`, reader set up by `ctor`.
pub fn read_all_via(ctor: &str, text: &[u8], o: &ReadOpts) -> Value {
    let mut zone = match zonefile_via(ctor, text, o) { Ok(z) => z, Err(e) => return json!({"ctor_failed": e}) };
    let mut entries = vec![];
    for _ in 0..text.len() + 3 {
        match zone.next_entry() {
            Ok(Some(Entry::Record(r))) => entries.push(record_json(&r)),
            Ok(Some(Entry::Include { path, .. })) => entries.push(json!({"include": json_bytes(path.as_str().as_bytes())})),
            Ok(None) => return json!({"entries": entries, "err": false}),
            Err(_) => return json!({"entries": entries, "err": true}),
        }
    }
    json!({"entries": entries, "err": true, "no_progress": true})
}
