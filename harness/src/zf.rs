//! Shared observation functions for the zone-file reader (C07) and the
//! presentation round trip (C06).  Included by the executors with
//! `#[path = "../zf.rs"] mod zf;`.
#![allow(dead_code)]
use bytes::Bytes;
use domain::base::iana::Class;
use domain::base::name::{Name, ToName};
use domain::base::rdata::ComposeRecordData;
use domain::zonefile::inplace::{Entry, ScannedRecord, Zonefile};
use serde_json::{json, Value};
use std::sync::atomic::{AtomicU64, Ordering};
use std::sync::Mutex;
use verif_harness::common::*;

/// Uncompressed wire octets of a (possibly chained) name.
pub fn name_octets<N: ToName>(n: &N) -> Vec<u8> {
    let mut v = Vec::new();
    for l in n.iter_labels() {
        v.push(l.len() as u8);
        v.extend_from_slice(l.as_slice());
    }
    v
}

pub fn rdata_octets(r: &ScannedRecord) -> Vec<u8> {
    let mut v: Vec<u8> = Vec::new();
    let _ = r.data().compose_rdata(&mut v);
    v
}

pub fn record_json(r: &ScannedRecord) -> Value {
    json!({
        "owner": json_bytes(&name_octets(r.owner())),
        "class": r.class().to_int(),
        "ttl": r.ttl().as_secs(),
        "rtype": r.rtype().to_int(),
        "rdata": json_bytes(&rdata_octets(r)),
    })
}

pub struct ReadOpts<'a> {
    pub origin: Option<&'a [u8]>, // wire octets of an absolute name
    pub default_class: Option<u16>,
    pub allow_invalid: bool,
}

/// Run the reader to exhaustion.  Observation:
/// `{"entries":[...], "err":bool}`; entries read before the first error are
/// kept.  `next_entry` is never called again after an error (the API says the
/// scanner is invalid then).
pub fn read_all(data: &[u8], o: &ReadOpts) -> Value {
    let (entries, err) = read_all_raw(data, o);
    json!({"entries": entries, "err": err.is_some()})
}

pub fn read_all_raw(data: &[u8], o: &ReadOpts) -> (Vec<Value>, Option<String>) {
    let mut zone = Zonefile::from(data);
    if o.allow_invalid {
        zone = zone.allow_invalid();
    }
    if let Some(w) = o.origin {
        let n = Name::<Bytes>::from_octets(Bytes::copy_from_slice(w)).expect("origin");
        zone.set_origin(n);
    }
    if let Some(c) = o.default_class {
        zone.set_default_class(Class::from_int(c));
    }
    let mut entries = vec![];
    // every successful call consumes at least one octet, so len+2 calls suffice
    let cap = data.len() + 2;
    for _ in 0..=cap {
        match zone.next_entry() {
            Ok(Some(Entry::Record(r))) => entries.push(record_json(&r)),
            Ok(Some(Entry::Include { path, origin })) => entries.push(json!({
                "include": json_bytes(path.as_str().as_bytes()),
                "origin": origin.map(|n| json_bytes(&name_octets(&n))),
            })),
            Ok(None) => return (entries, None),
            Err(e) => return (entries, Some(format!("{}", e))),
        }
    }
    (entries, Some("NO-PROGRESS".into()))
}

// ---------------------------------------------------------------- watchdog
static TICK: AtomicU64 = AtomicU64::new(0);
static CURRENT: Mutex<String> = Mutex::new(String::new());

/// Called at the start of every case with a printable description.
pub fn tick(desc: &str) {
    if let Ok(mut g) = CURRENT.lock() {
        g.clear();
        g.push_str(desc);
    }
    TICK.fetch_add(1, Ordering::SeqCst);
}

/// A case that runs longer than `secs` is a hang: report it as a failing
/// observation and end the executor (the summary says fail = 1).
pub fn start_watchdog(secs: u64) {
    std::thread::spawn(move || {
        let mut last = TICK.load(Ordering::SeqCst);
        let mut since = std::time::Instant::now();
        loop {
            std::thread::sleep(std::time::Duration::from_millis(500));
            let now = TICK.load(Ordering::SeqCst);
            if now != last {
                last = now;
                since = std::time::Instant::now();
            } else if now > 0 && since.elapsed().as_secs() >= secs {
                let d = CURRENT.lock().map(|g| g.clone()).unwrap_or_default();
                println!("FAIL {}", json!({"in": d, "exp": "terminates", "obs": {"hang": true}}));
                println!("SUMMARY {}", json!({"n": now, "pass": now - 1, "fail": 1, "panics": 0,
                                              "known": {}, "samples": []}));
                std::process::exit(0);
            }
        }
    });
}

pub fn show(data: &[u8]) -> String {
    data.iter()
        .map(|b| match *b {
            b'\n' => "\\n".to_string(),
            b'\r' => "\\r".to_string(),
            b'\t' => "\\t".to_string(),
            0x20..=0x7e => (*b as char).to_string(),
            _ => format!("\\x{:02x}", b),
        })
        .collect()
}
