//! Shared observation functions for the zone-file reader (C07) and the
//! presentation round trip (C06).  Included by the executors with
//! `#[path = "../zf.rs"] mod zf;`.
#![allow(dead_code)]
use bytes::Bytes;
use domain::base::iana::Class;
use domain::base::name::{Name, ToName};
use domain::base::rdata::ComposeRecordData;
use domain::zonefile::inplace::{Entry, ScannedRecord, Zonefile};
use serde_json::{json, Value};
use std::sync::atomic::{AtomicU64, Ordering};
use std::sync::Mutex;
use verif_harness::common::*;

/// Uncompressed wire octets of a (possibly chained) name.
pub fn name_octets<N: ToName>(n: &N) -> Vec<u8> {
    let mut v = Vec::new();
    for l in n.iter_labels() {
        v.push(l.len() as u8);
        v.extend_from_slice(l.as_slice());
    }
    v
}

pub fn rdata_octets(r: &ScannedRecord) -> Vec<u8> {
    let mut v: Vec<u8> = Vec::new();
    let _ = r.data().compose_rdata(&mut v);
    v
}

pub fn record_json(r: &ScannedRecord) -> Value {
    json!({
        "owner": json_bytes(&name_octets(r.owner())),
        "class": r.class().to_int(),
        "ttl": r.ttl().as_secs(),
        "rtype": r.rtype().to_int(),
        "rdata": json_bytes(&rdata_octets(r)),
    })
}

pub struct ReadOpts<'a> {
    pub origin: Option<&'a [u8]>, // wire octets of an absolute name
    pub default_class: Option<u16>,
    pub allow_invalid: bool,
}

/// Run the reader to exhaustion.  Observation:
/// `{"entries":[...], "err":bool}`; entries read before the first error are
/// kept.  `next_entry` is never called again after an error (the API says the
/// scanner is invalid then).
pub fn read_all(data: &[u8], o: &ReadOpts) -> Value {
    let (entries, err) = read_all_raw(data, o);
    json!({"entries": entries, "err": err.is_some()})
}

pub fn read_all_raw(data: &[u8], o: &ReadOpts) -> (Vec<Value>, Option<String>) {
    let mut zone = Zonefile::from(data);
    if o.allow_invalid {
        zone = zone.allow_invalid();
    }
    if let Some(w) = o.origin {
        let n = Name::<Bytes>::from_octets(Bytes::copy_from_slice(w)).expect("origin");
        zone.set_origin(n);
    }
    if let Some(c) = o.default_class {
        zone.set_default_class(Class::from_int(c));
    }
    let mut entries = vec![];
    // every successful call consumes at least one octet, so len+2 calls suffice
    let cap = data.len() + 2;
    for _ in 0..=cap {
        match zone.next_entry() {
            Ok(Some(Entry::Record(r))) => entries.push(record_json(&r)),
            Ok(Some(Entry::Include { path, origin })) => entries.push(json!({
                "include": json_bytes(path.as_str().as_bytes()),
                "origin": json_bytes(&origin.map(|n| name_octets(&n)).unwrap_or_default()),
            })),
            Ok(None) => return (entries, None),
            Err(e) => return (entries, Some(format!("{}", e))),
        }
    }
    (entries, Some("NO-PROGRESS".into()))
}

// ---------------------------------------------------------------- watchdog
static TICK: AtomicU64 = AtomicU64::new(0);
static CURRENT: Mutex<String> = Mutex::new(String::new());

/// Called at the start of every case with a printable description.
pub fn tick(desc: &str) {
    if let Ok(mut g) = CURRENT.lock() {
        g.clear();
        g.push_str(desc);
    }
    TICK.fetch_add(1, Ordering::SeqCst);
}

/// A case that runs longer than `secs` is a hang: report it as a failing
/// observation and end the executor (the summary says fail = 1).
pub fn start_watchdog(secs: u64) {
    std::thread::spawn(move || {
        let mut last = TICK.load(Ordering::SeqCst);
        let mut since = std::time::Instant::now();
        loop {
            std::thread::sleep(std::time::Duration::from_millis(500));
            let now = TICK.load(Ordering::SeqCst);
            if now != last {
                last = now;
                since = std::time::Instant::now();
            } else if now > 0 && since.elapsed().as_secs() >= secs {
                let d = CURRENT.lock().map(|g| g.clone()).unwrap_or_default();
                println!("FAIL {}", json!({"in": d, "exp": "terminates", "obs": {"hang": true}}));
                println!("SUMMARY {}", json!({"n": now, "pass": now - 1, "fail": 1, "panics": 0,
                                              "known": {}, "samples": []}));
                std::process::exit(0);
            }
        }
    });
}

pub fn show(data: &[u8]) -> String {
    data.iter()
        .map(|b| match *b {
            b'\n' => "\\n".to_string(),
            b'\r' => "\\r".to_string(),
            b'\t' => "\\t".to_string(),
            0x20..=0x7e => (*b as char).to_string(),
            _ => format!("\\x{:02x}", b),
        })
        .collect()
}

// ------------------------------------------------------ presentation (C06)
use domain::base::iana::Rtype;
use domain::base::name::{FlattenInto, ParsedName};
use domain::base::rdata::ParseRecordData;
use domain::base::zonefile_fmt::{DisplayKind, ZonefileFmt};
use domain::base::{Record, Ttl};
use domain::rdata::ZoneRecordData;
use octseq::Parser;

pub type FlatData = ZoneRecordData<Bytes, Name<Bytes>>;
pub type FlatRecord = Record<Name<Bytes>, FlatData>;

/// Build a record from uncompressed wire octets (owner name, RDATA).
pub fn record_from_wire(owner: &[u8], class: u16, ttl: u32, rtype: u16, rdata: &[u8])
    -> Result<FlatRecord, String>
{
    let owner = Name::<Bytes>::from_octets(Bytes::copy_from_slice(owner))
        .map_err(|e| format!("owner: {}", e))?;
    let b = Bytes::copy_from_slice(rdata);
    let mut p = Parser::from_ref(&b);
    let data = ZoneRecordData::<Bytes, ParsedName<Bytes>>::parse_rdata(Rtype::from_int(rtype), &mut p)
        .map_err(|e| format!("rdata: {}", e))?
        .ok_or_else(|| "rdata: type not parsed".to_string())?;
    if p.remaining() != 0 {
        return Err("rdata: trailing octets".into());
    }
    let data: FlatData = data.flatten_into();
    Ok(Record::new(owner, Class::from_int(class), Ttl::from_secs(ttl), data))
}

/// The four ways the library writes a record as text.  None of them ends
/// the line; a zone file needs the line feed, so it is added here.
pub fn write_record(r: &FlatRecord, kind: &str) -> String {
    let mut s = match kind {
        "simple" => format!("{}", r.display_zonefile(DisplayKind::Simple)),
        "tabbed" => format!("{}", r.display_zonefile(DisplayKind::Tabbed)),
        "multiline" => format!("{}", r.display_zonefile(DisplayKind::Multiline)),
        _ => format!("{}", r),
    };
    s.push('\n');
    s
}

pub fn flat_record_json(r: &FlatRecord) -> Value {
    let mut v: Vec<u8> = Vec::new();
    let _ = r.data().compose_rdata(&mut v);
    json!({
        "owner": json_bytes(&name_octets(r.owner())),
        "class": r.class().to_int(),
        "ttl": r.ttl().as_secs(),
        "rtype": r.rtype().to_int(),
        "rdata": json_bytes(&v),
    })
}

/// Read `text` and compare with `r`: "eq" when exactly one record comes back
/// that the library itself considers equal (name equality is
/// case-insensitive; class, TTL, type and data must match), otherwise the raw
/// outcome so that a deviation's predicted misreading can be matched.
pub fn read_back(r: &FlatRecord, text: &[u8], origin: Option<&[u8]>) -> Value {
    let mut zone = Zonefile::from(text);
    if let Some(w) = origin {
        zone.set_origin(Name::<Bytes>::from_octets(Bytes::copy_from_slice(w)).expect("origin"));
    }
    let mut recs: Vec<ScannedRecord> = vec![];
    let mut other = 0;
    let mut err = false;
    for _ in 0..text.len() + 3 {
        match zone.next_entry() {
            Ok(Some(Entry::Record(x))) => recs.push(x),
            Ok(Some(_)) => other += 1,
            Ok(None) => break,
            Err(_) => { err = true; break; }
        }
    }
    if !err && other == 0 && recs.len() == 1 {
        let x = &recs[0];
        // Record == compares owner (case-insensitively), class and data; TTL separately
        let same = x.owner().name_eq(r.owner())
            && x.class() == r.class()
            && x.ttl() == r.ttl()
            && x.rtype() == r.rtype()
            && rdata_equal(x, r);
        if same {
            return json!("eq");
        }
    }
    let _ = (recs, other, err);
    read_all(text, &ReadOpts { origin, default_class: None, allow_invalid: false })
}

/// Data equality: the library's own PartialEq across name types where it is
/// available is what "equal record" means; the composed RDATA octets are
/// compared in addition as the canonical-independent ground truth for types
/// without embedded names.
fn rdata_equal(x: &ScannedRecord, r: &FlatRecord) -> bool {
    let y: FlatData = x.data().clone().flatten_into();
    y == *r.data()
}
