//! C03: shared pieces of the name executors -- an independent wire-format
//! validator, the projection of a real `NameBuilder<Vec<u8>>` onto the
//! abstract state of spec/NameBuilder.tla, and the builder calls.
#![allow(dead_code)]

use bytes::BytesMut;
use domain::base::name::{Name, NameBuilder, RelativeName};
use domain::base::scan::Symbol;
use domain::base::name::ParsedName;
use octseq::builder::{FreezeBuilder, OctetsBuilder};
use octseq::OctetsFrom;
use serde_json::{json, Value};
use std::panic::{catch_unwind, AssertUnwindSafe};

pub type B = NameBuilder<Vec<u8>>;

/// The ways of making an empty builder over one kind of octets (every
/// constructor is a route to the model's initial state).
pub trait Ctor: Sized {
    const KIND: &'static str;
    fn ctor(i: usize) -> NameBuilder<Self>;
    /// a builder that continues an existing relative name
    fn from_rel(rel: RelativeName<Vec<u8>>, i: usize) -> NameBuilder<Self>;
}
impl Ctor for Vec<u8> {
    const KIND: &'static str = "vec";
    fn ctor(i: usize) -> NameBuilder<Self> {
        match i % 7 {
            0 => NameBuilder::new_vec(),
            1 => NameBuilder::vec_with_capacity(i % 300),
            2 => NameBuilder::new(),
            3 => NameBuilder::with_capacity((i * 7) % 300),
            4 => Default::default(),
            5 => NameBuilder::from_builder(Vec::new()).expect("from_builder on an empty buffer"),
            _ => RelativeName::empty_vec().into_builder(),
        }
    }
    fn from_rel(rel: RelativeName<Vec<u8>>, i: usize) -> NameBuilder<Self> {
        match i % 2 {
            0 => rel.into_builder(),
            _ => NameBuilder::from_builder(rel.as_slice().to_vec()).expect("from_builder on a valid relative name"),
        }
    }
}
impl Ctor for BytesMut {
    const KIND: &'static str = "bytes";
    fn ctor(i: usize) -> NameBuilder<Self> {
        match i % 7 {
            0 => NameBuilder::new_bytes(),
            1 => NameBuilder::bytes_with_capacity(i % 300),
            2 => NameBuilder::new(),
            3 => NameBuilder::with_capacity((i * 7) % 300),
            4 => Default::default(),
            5 => NameBuilder::from_builder(BytesMut::new()).expect("from_builder on an empty buffer"),
            _ => RelativeName::empty_bytes().into_builder(),
        }
    }
    fn from_rel(rel: RelativeName<Vec<u8>>, i: usize) -> NameBuilder<Self> {
        match i % 2 {
            0 => RelativeName::<bytes::Bytes>::octets_from(rel).into_builder(),
            _ => NameBuilder::from_builder(BytesMut::from(rel.as_slice())).expect("from_builder on a valid relative name"),
        }
    }
}

/// Independent walk over uncompressed relative-name wire format: content
/// lengths of the labels, or None if the octets are not a sequence of
/// labels of 1..=63 octets that ends exactly at the end of the slice.
/// (No total-length limit here; that is compared separately.)
pub fn walk_rel(o: &[u8]) -> Option<Vec<usize>> {
    let mut p = 0usize;
    let mut out = vec![];
    while p < o.len() {
        let l = o[p] as usize;
        if l == 0 || l > 63 || p + 1 + l > o.len() {
            return None;
        }
        out.push(l);
        p += 1 + l;
    }
    Some(out)
}

/// RFC 1035: labels 1..63, relative name at most 254 octets.
pub fn valid_rel(o: &[u8]) -> bool {
    o.len() <= 254 && walk_rel(o).is_some()
}

/// RFC 1035: labels 1..63, exactly one root label at the end, at most 255.
pub fn valid_abs(o: &[u8]) -> bool {
    !o.is_empty()
        && o.len() <= 255
        && o[o.len() - 1] == 0
        && walk_rel(&o[..o.len() - 1]).is_some()
}

/// Content octets for the builder calls.  A builder works on octets and
/// none of them may matter to it.  All values are 0 or >= 64, i.e. none is a
/// possible length octet of a label: if a deviation leaves a stale length
/// octet behind, the independent walk then cannot stumble into a well-formed
/// reading of the buffer by accident, so "malformed" is a function of the
/// abstract state.  (Escape-relevant content is the subject of the
/// representation cases.)
pub struct Fill(pub usize);
impl Fill {
    pub fn next(&mut self) -> u8 {
        const T: [u8; 10] = [b'a', 0, b'\\', 0xff, b'Z', 0x40, 0xc0, b'z', 0x7f, 0x80];
        self.0 += 1;
        T[self.0 % T.len()]
    }
    pub fn bytes(&mut self, n: usize) -> Vec<u8> {
        (0..n).map(|_| self.next()).collect()
    }
}

/// [len, in_label, cur, closed labels, well-formed] -- `Proj` of the spec.
/// The open label's start is not observable through the API, so a clone is
/// finished (end_label writes the length octet) and the result is walked;
/// the unfinished buffer must differ from it in that one octet at most.
pub fn proj<T>(b: &NameBuilder<T>) -> Value
where
    T: OctetsBuilder + AsRef<[u8]> + AsMut<[u8]> + FreezeBuilder + Clone,
    T::Octets: AsRef<[u8]>,
{
    let len = b.len();
    // (AsRef<[u8]> of the builder is as_slice)
    if AsRef::<[u8]>::as_ref(b) != b.as_slice() || b.is_empty() != (len == 0) {
        return json!([len, b.in_label() as u8, -2, -2, 0]);
    }
    let open = b.in_label();
    let fin = b.clone().finish();
    let f = fin.as_slice();
    let bad = json!([len, open as u8, -1, -1, 0]);
    if f.len() != len {
        return bad;
    }
    match walk_rel(f) {
        None => bad,
        Some(ls) => {
            let (cur, nlab) = if open {
                match ls.last() {
                    Some(c) => (*c, ls.len() - 1),
                    None => return bad,
                }
            } else {
                (0, ls.len())
            };
            let raw = b.as_slice();
            for i in 0..len {
                if raw[i] != f[i] && !(open && i == len - 1 - cur) {
                    return bad;
                }
            }
            json!([len, open as u8, cur, nlab, 1])
        }
    }
}

pub fn limits_hold(p: &Value) -> bool {
    let g = |i: usize| p[i].as_i64().unwrap_or(-1);
    g(4) == 1 && g(0) <= 254 && g(2) <= 63 && (g(1) == 0 || g(2) >= 1)
}

pub fn rel_of(lens: &Value, fill: &mut Fill) -> RelativeName<Vec<u8>> {
    let mut o = vec![];
    for l in lens.as_array().map(|a| a.as_slice()).unwrap_or(&[]) {
        let l = l.as_u64().unwrap_or(0) as usize;
        o.push(l as u8);
        o.extend(fill.bytes(l));
    }
    RelativeName::from_octets(o).expect("generated relative name argument")
}

pub fn abs_of(lens: &Value, fill: &mut Fill) -> Name<Vec<u8>> {
    let mut o = rel_of(lens, fill).as_slice().to_vec();
    o.push(0);
    Name::from_octets(o).expect("generated absolute name argument")
}

fn out_rel(o: &[u8]) -> Value {
    let v = valid_rel(o);
    if v != RelativeName::from_octets(o).is_ok() {
        return json!(["validators_disagree", o.len(), v as u8]);
    }
    json!(["rel", o.len(), v as u8])
}

fn out_abs(o: &[u8]) -> Value {
    let v = valid_abs(o);
    if v != Name::from_octets(o).is_ok() || v != Name::from_slice(o).is_ok() {
        return json!(["validators_disagree", o.len(), v as u8]);
    }
    json!(["abs", o.len(), v as u8])
}

pub const ATOMIC: [&str; 5] = ["push", "append_slice", "append_label", "append_name", "push_symbol"];

/// Perform one call of the model on the real builder.  Returns the
/// result class and, for the consuming calls (done on a clone), the
/// description of the produced name.
pub fn apply<T>(b: &mut NameBuilder<T>, op: &str, arg: &Value, fill: &mut Fill) -> (String, Value)
where
    T: OctetsBuilder + AsRef<[u8]> + AsMut<[u8]> + FreezeBuilder + Clone,
    T::Octets: AsRef<[u8]>,
{
    let none = json!(["none", 0, 1]);
    let n0 = arg.get(0).and_then(|x| x.as_u64()).unwrap_or(0) as usize;
    let r = catch_unwind(AssertUnwindSafe(|| -> (bool, Value) {
        match op {
            "push" => (b.push(fill.next()).is_ok(), none.clone()),
            "append_slice" => (b.append_slice(&fill.bytes(n0)).is_ok(), none.clone()),
            "end_label" => {
                b.end_label();
                (true, none.clone())
            }
            "append_label" => (b.append_label(&fill.bytes(n0)).is_ok(), none.clone()),
            "append_name" => {
                // (any representation of the relative name)
                let rel = rel_of(arg, fill);
                let r = match fill.0 % 3 {
                    0 => b.append_name(&rel).is_ok(),
                    1 => b.append_name(&rel.for_ref()).is_ok(),
                    _ => {
                        let cut = rel.first().map(|l| l.len() + 1).unwrap_or(0);
                        let (l, r) = rel.split(cut);
                        match l.chain(r) {
                            Ok(ch) => b.append_name(&ch).is_ok(),
                            Err(_) => b.append_name(&rel).is_ok(),
                        }
                    }
                };
                (r, none.clone())
            }
            "append_digits" => match n0 {
                1 => {
                    // one digit: both entry points must agree
                    let mut c = b.clone();
                    let rc = c.append_hex_digit_label((fill.0 % 16) as u8).is_ok();
                    let rb = b.append_dec_u8_label((fill.0 % 10) as u8).is_ok();
                    if rc != rb || proj(&c) != proj(b) {
                        (rb, json!(["digit_calls_disagree", 0, 0]))
                    } else {
                        (rb, none.clone())
                    }
                }
                2 => (b.append_dec_u8_label(10 + (fill.0 % 90) as u8).is_ok(), none.clone()),
                _ => (b.append_dec_u8_label(100 + (fill.0 % 156) as u8).is_ok(), none.clone()),
            },
            "push_symbol" => {
                let s = match arg.as_str().unwrap_or("") {
                    "dot" => Symbol::Char('.'),
                    "escdot" => Symbol::SimpleEscape(b'.'),
                    "bracket" => Symbol::SimpleEscape(b'['),
                    // (any member of the class: the model does not look at contents)
                    "ord" => match fill.0 % 6 {
                        0 => Symbol::Char('x'),
                        1 => Symbol::Char('~'),
                        2 => Symbol::Char(' '),
                        3 => Symbol::Char('!'),
                        4 => Symbol::SimpleEscape(b'~'),
                        _ => Symbol::SimpleEscape(b' '),
                    },
                    "dec" => Symbol::DecimalEscape(fill.next()),
                    _ => match fill.0 % 4 {
                        0 => Symbol::Char('\u{e9}'),
                        1 => Symbol::Char('\u{7f}'),
                        2 => Symbol::Char('\u{1f}'),
                        _ => Symbol::Char('\u{80}'),
                    },
                };
                (b.push_symbol(s).is_ok(), none.clone())
            }
            "finish" => {
                let r = b.clone().finish();
                (true, out_rel(r.as_slice()))
            }
            "into_name" => match b.clone().into_name() {
                Ok(n) => (true, out_abs(n.as_slice())),
                Err(_) => (false, none.clone()),
            },
            "append_origin" => {
                // (any representation of the absolute name)
                let org = abs_of(arg, fill);
                let r = match fill.0 % 3 {
                    0 => b.clone().append_origin(&org),
                    1 => b.clone().append_origin(&ParsedName::from(org.clone())),
                    _ => b.clone().append_origin(&org.clone().into_relative().chain_root()),
                };
                match r {
                    Ok(n) => (true, out_abs(n.as_slice())),
                    Err(_) => (false, none.clone()),
                }
            }
            _ => (false, json!(["unknown_op", 0, 0])),
        }
    }));
    match r {
        Ok((true, o)) => ("ok".to_string(), o),
        Ok((false, o)) => ("err".to_string(), o),
        Err(_) => ("panic".to_string(), none),
    }
}

pub fn is_consuming(op: &str) -> bool {
    matches!(op, "finish" | "into_name" | "append_origin")
}

/// `Obs` of MC_NameBuilder.tla
pub fn obs<T>(b: &NameBuilder<T>, op: &str, res: &str, out: Value) -> Value
where
    T: OctetsBuilder + AsRef<[u8]> + AsMut<[u8]> + FreezeBuilder + Clone,
    T::Octets: AsRef<[u8]>,
{
    if is_consuming(op) {
        json!({"r": res, "o": out})
    } else if out[0] != "none" {
        json!({"r": res, "o": out})
    } else if res != "ok" && !ATOMIC.contains(&op) {
        json!({"r": res, "usable": limits_hold(&proj(b))})
    } else {
        json!({"r": res, "s": proj(b)})
    }
}

/// Build a real builder whose projection is `s` = [len, open, cur, nlab, 1]
/// using only label-at-a-time calls well inside the limits.
pub fn construct<T>(s: &Value, fresh: bool, fill: &mut Fill) -> Option<NameBuilder<T>>
where
    T: OctetsBuilder + AsRef<[u8]> + AsMut<[u8]> + FreezeBuilder + Clone + Ctor,
    T::Octets: AsRef<[u8]>,
{
    let g = |i: usize| s[i].as_i64().unwrap_or(-1);
    let (len, open, cur, nlab) = (g(0), g(1) == 1, g(2), g(3));
    if g(4) != 1 || len < 0 || cur < 0 || nlab < 0 {
        return None;
    }
    let closed = len - if open { 1 + cur } else { 0 };
    let mut content = closed - nlab;
    if content < nlab || content > 63 * nlab {
        return None;
    }
    let mut b = T::ctor(fill.0 + nlab as usize);
    for i in 0..nlab {
        let left = nlab - i - 1;
        let sz = std::cmp::min(63, content - left);
        if sz < 1 {
            return None;
        }
        b.append_label(&fill.bytes(sz as usize)).ok()?;
        content -= sz;
    }
    if open {
        b.append_slice(&fill.bytes(cur as usize)).ok()?;
    }
    if fresh {
        // a failed append_label writes the open label's length octet
        // before it puts the label back
        if !open || b.append_label(&[b'x'; 64]).is_ok() {
            return None;
        }
    }
    if &proj(&b) == s {
        Some(b)
    } else {
        None
    }
}

// ---------------------------------------------------------------------------
/// A minimal serde format that is not human readable: a value is a newtype
/// around its octets.  (serde_json is the human-readable counterpart; the
/// name types serialize as text there and as wire format here.)
pub mod compact {
    use serde::de::{self, Visitor};
    use serde::ser::{self, Impossible, Serialize};
    use std::fmt;

    #[derive(Debug)]
    pub struct E(pub String);
    impl fmt::Display for E {
        fn fmt(&self, f: &mut fmt::Formatter<'_>) -> fmt::Result {
            f.write_str(&self.0)
        }
    }
    impl std::error::Error for E {}
    impl ser::Error for E {
        fn custom<T: fmt::Display>(m: T) -> Self {
            E(m.to_string())
        }
    }
    impl de::Error for E {
        fn custom<T: fmt::Display>(m: T) -> Self {
            E(m.to_string())
        }
    }

    pub struct Ser;
    macro_rules! no {
        ($($f:ident($($t:ty),*);)*) => { $(fn $f(self $(, _: $t)*) -> Result<Vec<u8>, E> { Err(E("unsupported".into())) })* };
    }
    type Imp = Impossible<Vec<u8>, E>;
    impl ser::Serializer for Ser {
        type Ok = Vec<u8>;
        type Error = E;
        type SerializeSeq = Imp;
        type SerializeTuple = Imp;
        type SerializeTupleStruct = Imp;
        type SerializeTupleVariant = Imp;
        type SerializeMap = Imp;
        type SerializeStruct = Imp;
        type SerializeStructVariant = Imp;
        fn is_human_readable(&self) -> bool {
            false
        }
        fn serialize_bytes(self, v: &[u8]) -> Result<Vec<u8>, E> {
            Ok(v.to_vec())
        }
        fn serialize_newtype_struct<T: ?Sized + Serialize>(self, _: &'static str, v: &T) -> Result<Vec<u8>, E> {
            v.serialize(self)
        }
        no! {
            serialize_bool(bool); serialize_i8(i8); serialize_i16(i16); serialize_i32(i32); serialize_i64(i64);
            serialize_u8(u8); serialize_u16(u16); serialize_u32(u32); serialize_u64(u64);
            serialize_f32(f32); serialize_f64(f64); serialize_char(char); serialize_str(&str);
            serialize_none(); serialize_unit(); serialize_unit_struct(&'static str);
            serialize_unit_variant(&'static str, u32, &'static str);
        }
        fn serialize_some<T: ?Sized + Serialize>(self, _: &T) -> Result<Vec<u8>, E> {
            Err(E("unsupported".into()))
        }
        fn serialize_newtype_variant<T: ?Sized + Serialize>(
            self, _: &'static str, _: u32, _: &'static str, _: &T,
        ) -> Result<Vec<u8>, E> {
            Err(E("unsupported".into()))
        }
        fn serialize_seq(self, _: Option<usize>) -> Result<Imp, E> {
            Err(E("unsupported".into()))
        }
        fn serialize_tuple(self, _: usize) -> Result<Imp, E> {
            Err(E("unsupported".into()))
        }
        fn serialize_tuple_struct(self, _: &'static str, _: usize) -> Result<Imp, E> {
            Err(E("unsupported".into()))
        }
        fn serialize_tuple_variant(self, _: &'static str, _: u32, _: &'static str, _: usize) -> Result<Imp, E> {
            Err(E("unsupported".into()))
        }
        fn serialize_map(self, _: Option<usize>) -> Result<Imp, E> {
            Err(E("unsupported".into()))
        }
        fn serialize_struct(self, _: &'static str, _: usize) -> Result<Imp, E> {
            Err(E("unsupported".into()))
        }
        fn serialize_struct_variant(self, _: &'static str, _: u32, _: &'static str, _: usize) -> Result<Imp, E> {
            Err(E("unsupported".into()))
        }
    }

    pub struct De<'de>(pub &'de [u8]);
    impl<'de> de::Deserializer<'de> for De<'de> {
        type Error = E;
        fn is_human_readable(&self) -> bool {
            false
        }
        fn deserialize_any<V: Visitor<'de>>(self, v: V) -> Result<V::Value, E> {
            v.visit_borrowed_bytes(self.0)
        }
        fn deserialize_bytes<V: Visitor<'de>>(self, v: V) -> Result<V::Value, E> {
            v.visit_borrowed_bytes(self.0)
        }
        fn deserialize_byte_buf<V: Visitor<'de>>(self, v: V) -> Result<V::Value, E> {
            v.visit_byte_buf(self.0.to_vec())
        }
        fn deserialize_newtype_struct<V: Visitor<'de>>(self, _: &'static str, v: V) -> Result<V::Value, E> {
            v.visit_newtype_struct(self)
        }
        serde::forward_to_deserialize_any! {
            bool i8 i16 i32 i64 i128 u8 u16 u32 u64 u128 f32 f64 char str string
            option unit unit_struct seq tuple tuple_struct map struct enum identifier ignored_any
        }
    }

    pub fn to_octets<T: Serialize>(t: &T) -> Option<Vec<u8>> {
        t.serialize(Ser).ok()
    }
    pub fn from_octets<'de, T: de::Deserialize<'de>>(o: &'de [u8]) -> Result<T, E> {
        T::deserialize(De(o))
    }
}
