//! C03: shared pieces of the name executors -- an independent wire-format
//! validator, the projection of a real `NameBuilder<Vec<u8>>` onto the
//! abstract state of spec/NameBuilder.tla, and the builder calls.
#![allow(dead_code)]

use domain::base::name::{Name, NameBuilder, RelativeName};
use domain::base::scan::Symbol;
use serde_json::{json, Value};
use std::panic::{catch_unwind, AssertUnwindSafe};

pub type B = NameBuilder<Vec<u8>>;

/// Independent walk over uncompressed relative-name wire format: content
/// lengths of the labels, or None if the octets are not a sequence of
/// labels of 1..=63 octets that ends exactly at the end of the slice.
/// (No total-length limit here; that is compared separately.)
pub fn walk_rel(o: &[u8]) -> Option<Vec<usize>> {
    let mut p = 0usize;
    let mut out = vec![];
    while p < o.len() {
        let l = o[p] as usize;
        if l == 0 || l > 63 || p + 1 + l > o.len() {
            return None;
        }
        out.push(l);
        p += 1 + l;
    }
    Some(out)
}

/// RFC 1035: labels 1..63, relative name at most 254 octets.
pub fn valid_rel(o: &[u8]) -> bool {
    o.len() <= 254 && walk_rel(o).is_some()
}

/// RFC 1035: labels 1..63, exactly one root label at the end, at most 255.
pub fn valid_abs(o: &[u8]) -> bool {
    !o.is_empty()
        && o.len() <= 255
        && o[o.len() - 1] == 0
        && walk_rel(&o[..o.len() - 1]).is_some()
}

/// Content octets for the builder calls.  A builder works on octets and
/// none of them may matter to it.  All values are 0 or >= 64, i.e. none is a
/// possible length octet of a label: if a deviation leaves a stale length
/// octet behind, the independent walk then cannot stumble into a well-formed
/// reading of the buffer by accident, so "malformed" is a function of the
/// abstract state.  (Escape-relevant content is the subject of the
/// representation cases.)
pub struct Fill(pub usize);
impl Fill {
    pub fn next(&mut self) -> u8 {
        const T: [u8; 10] = [b'a', 0, b'\\', 0xff, b'Z', 0x40, 0xc0, b'z', 0x7f, 0x80];
        self.0 += 1;
        T[self.0 % T.len()]
    }
    pub fn bytes(&mut self, n: usize) -> Vec<u8> {
        (0..n).map(|_| self.next()).collect()
    }
}

/// [len, in_label, cur, closed labels, well-formed] -- `Proj` of the spec.
/// The open label's start is not observable through the API, so a clone is
/// finished (end_label writes the length octet) and the result is walked;
/// the unfinished buffer must differ from it in that one octet at most.
pub fn proj(b: &B) -> Value {
    let len = b.len();
    let open = b.in_label();
    let fin = b.clone().finish();
    let f = fin.as_slice();
    let bad = json!([len, open as u8, -1, -1, 0]);
    if f.len() != len {
        return bad;
    }
    match walk_rel(f) {
        None => bad,
        Some(ls) => {
            let (cur, nlab) = if open {
                match ls.last() {
                    Some(c) => (*c, ls.len() - 1),
                    None => return bad,
                }
            } else {
                (0, ls.len())
            };
            let raw = b.as_slice();
            for i in 0..len {
                if raw[i] != f[i] && !(open && i == len - 1 - cur) {
                    return bad;
                }
            }
            json!([len, open as u8, cur, nlab, 1])
        }
    }
}

pub fn limits_hold(p: &Value) -> bool {
    let g = |i: usize| p[i].as_i64().unwrap_or(-1);
    g(4) == 1 && g(0) <= 254 && g(2) <= 63 && (g(1) == 0 || g(2) >= 1)
}

pub fn rel_of(lens: &Value, fill: &mut Fill) -> RelativeName<Vec<u8>> {
    let mut o = vec![];
    for l in lens.as_array().map(|a| a.as_slice()).unwrap_or(&[]) {
        let l = l.as_u64().unwrap_or(0) as usize;
        o.push(l as u8);
        o.extend(fill.bytes(l));
    }
    RelativeName::from_octets(o).expect("generated relative name argument")
}

pub fn abs_of(lens: &Value, fill: &mut Fill) -> Name<Vec<u8>> {
    let mut o = rel_of(lens, fill).as_slice().to_vec();
    o.push(0);
    Name::from_octets(o).expect("generated absolute name argument")
}

fn out_rel(o: &[u8]) -> Value {
    let v = valid_rel(o);
    if v != RelativeName::from_octets(o).is_ok() {
        return json!(["validators_disagree", o.len(), v as u8]);
    }
    json!(["rel", o.len(), v as u8])
}

fn out_abs(o: &[u8]) -> Value {
    let v = valid_abs(o);
    if v != Name::from_octets(o).is_ok() || v != Name::from_slice(o).is_ok() {
        return json!(["validators_disagree", o.len(), v as u8]);
    }
    json!(["abs", o.len(), v as u8])
}

pub const ATOMIC: [&str; 5] = ["push", "append_slice", "append_label", "append_name", "push_symbol"];

/// Perform one call of the model on the real builder.  Returns the
/// result class and, for the consuming calls (done on a clone), the
/// description of the produced name.
pub fn apply(b: &mut B, op: &str, arg: &Value, fill: &mut Fill) -> (String, Value) {
    let none = json!(["none", 0, 1]);
    let n0 = arg.get(0).and_then(|x| x.as_u64()).unwrap_or(0) as usize;
    let r = catch_unwind(AssertUnwindSafe(|| -> (bool, Value) {
        match op {
            "push" => (b.push(fill.next()).is_ok(), none.clone()),
            "append_slice" => (b.append_slice(&fill.bytes(n0)).is_ok(), none.clone()),
            "end_label" => {
                b.end_label();
                (true, none.clone())
            }
            "append_label" => (b.append_label(&fill.bytes(n0)).is_ok(), none.clone()),
            "append_name" => {
                let rel = rel_of(arg, fill);
                (b.append_name(&rel).is_ok(), none.clone())
            }
            "append_digits" => match n0 {
                1 => {
                    // one digit: both entry points must agree
                    let mut c = b.clone();
                    let rc = c.append_hex_digit_label(0xAB).is_ok();
                    let rb = b.append_dec_u8_label(7).is_ok();
                    if rc != rb || proj(&c) != proj(b) {
                        (rb, json!(["digit_calls_disagree", 0, 0]))
                    } else {
                        (rb, none.clone())
                    }
                }
                2 => (b.append_dec_u8_label(42).is_ok(), none.clone()),
                _ => (b.append_dec_u8_label(205).is_ok(), none.clone()),
            },
            "push_symbol" => {
                let s = match arg.as_str().unwrap_or("") {
                    "dot" => Symbol::Char('.'),
                    "escdot" => Symbol::SimpleEscape(b'.'),
                    "bracket" => Symbol::SimpleEscape(b'['),
                    "ord" => Symbol::Char('x'),
                    "dec" => Symbol::DecimalEscape(0),
                    _ => Symbol::Char('\u{e9}'),
                };
                (b.push_symbol(s).is_ok(), none.clone())
            }
            "finish" => {
                let r = b.clone().finish();
                (true, out_rel(r.as_slice()))
            }
            "into_name" => match b.clone().into_name() {
                Ok(n) => (true, out_abs(n.as_slice())),
                Err(_) => (false, none.clone()),
            },
            "append_origin" => {
                let org = abs_of(arg, fill);
                match b.clone().append_origin(&org) {
                    Ok(n) => (true, out_abs(n.as_slice())),
                    Err(_) => (false, none.clone()),
                }
            }
            _ => (false, json!(["unknown_op", 0, 0])),
        }
    }));
    match r {
        Ok((true, o)) => ("ok".to_string(), o),
        Ok((false, o)) => ("err".to_string(), o),
        Err(_) => ("panic".to_string(), none),
    }
}

pub fn is_consuming(op: &str) -> bool {
    matches!(op, "finish" | "into_name" | "append_origin")
}

/// `Obs` of MC_NameBuilder.tla
pub fn obs(b: &B, op: &str, res: &str, out: Value) -> Value {
    if is_consuming(op) {
        json!({"r": res, "o": out})
    } else if out[0] != "none" {
        json!({"r": res, "o": out})
    } else if res != "ok" && !ATOMIC.contains(&op) {
        json!({"r": res, "usable": limits_hold(&proj(b))})
    } else {
        json!({"r": res, "s": proj(b)})
    }
}

/// Build a real builder whose projection is `s` = [len, open, cur, nlab, 1]
/// using only label-at-a-time calls well inside the limits.
pub fn construct(s: &Value, fresh: bool, fill: &mut Fill) -> Option<B> {
    let g = |i: usize| s[i].as_i64().unwrap_or(-1);
    let (len, open, cur, nlab) = (g(0), g(1) == 1, g(2), g(3));
    if g(4) != 1 || len < 0 || cur < 0 || nlab < 0 {
        return None;
    }
    let closed = len - if open { 1 + cur } else { 0 };
    let mut content = closed - nlab;
    if content < nlab || content > 63 * nlab {
        return None;
    }
    let mut b = B::new_vec();
    for i in 0..nlab {
        let left = nlab - i - 1;
        let sz = std::cmp::min(63, content - left);
        if sz < 1 {
            return None;
        }
        b.append_label(&fill.bytes(sz as usize)).ok()?;
        content -= sz;
    }
    if open {
        b.append_slice(&fill.bytes(cur as usize)).ok()?;
    }
    if fresh {
        // a failed append_label writes the open label's length octet
        // before it puts the label back
        if !open || b.append_label(&[b'x'; 64]).is_ok() {
            return None;
        }
    }
    if &proj(&b) == s {
        Some(b)
    } else {
        None
    }
}
