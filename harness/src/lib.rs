//! Shared helpers for the verification harness.
pub mod common;
