//! The stream-client side of a transfer (Xfr.tla: CheckStream / ClientRun).
//! Kept apart from `xfr.rs` because it needs `client.rs`, which interposes the
//! process-wide `clock_gettime`: only the C10 executables that receive streams
//! through a real `stream::Connection` include this file (and `client.rs`).
#![allow(dead_code)]
use crate::xfr::*;
use domain::base::iana::Class;
use domain::base::{MessageBuilder, Rtype, Ttl};
use serde_json::{json, Value};
use std::sync::{Arc, Mutex};

//------------ the stream client (Xfr.tla: CheckStream / ClientRun) -----------

/// A response stream received through a real `net::client::stream::Connection`
/// (multi-response request, `RequestMessageMulti`) over the in-memory stream
/// of `client.rs`, on a paused clock: the request of type `qtype` is
/// submitted, the request the transport wrote is read back for its ID, every
/// message of `msgs` (with that ID patched in where `own_id[i]`) is framed
/// and pushed one at a time, and after each the transport is run until
/// nothing is runnable (budgeted: `settle`).  Whatever `get_response()`
/// hands out while message i is the last one pushed is logged as
/// `["ok", i]` (that very message), `["other", i]` (some other octets),
/// `["wrong", i]` (WrongReplyForQuery), `["eof", i]` (end of the stream) or
/// `["error", i]`; finally the peer closes the connection: `["closed", n]` if
/// the request then ends in an error.  A transport that is still spinning
/// when the budget is used up adds `["hang", i]`; a request that is neither
/// ended nor failed after the close adds `["pending", n]`.
pub fn client_run(qtype: u16, msgs: &[Vec<u8>], own_id: &[bool]) -> Value {
    use crate::client::{counted, mock_stream, runtime, settle, Activity, StreamConn};
    use domain::net::client::request::{Error, RequestMessageMulti, SendRequestMulti};
    let rt = runtime();
    rt.block_on(async move {
        let act = Activity::default();
        let (ms, peer) = mock_stream(&act, 65536);
        let (conn, transport) = StreamConn::new(ms);
        tokio::spawn(counted(transport.run(), &act));
        // the request: (example., qtype), for IXFR with the client's SOA
        let reqmsg = {
            let mut b = MessageBuilder::new_vec();
            let mut q = b.question();
            q.push((apex(), Rtype::from_int(qtype))).unwrap();
            if qtype == Rtype::IXFR.to_int() {
                let mut a = q.authority();
                a.push((apex(), Class::IN, Ttl::from_secs(TTL), soa_of(1))).unwrap();
                a.into_message()
            } else {
                q.into_message()
            }
        };
        let log: Arc<Mutex<Vec<(String, Option<Vec<u8>>)>>> = Arc::new(Mutex::new(vec![]));
        let log2 = log.clone();
        let mut handle = SendRequestMulti::send_request(&conn, RequestMessageMulti::new(reqmsg).unwrap());
        let waiter = async move {
            loop {
                let res = handle.get_response().await;
                let (what, octets, stop) = match &res {
                    Ok(Some(m)) => ("ok", Some(m.as_slice().to_vec()), false),
                    Ok(None) => ("eof", None, true),
                    Err(Error::WrongReplyForQuery) => ("wrong", None, false),
                    Err(_) => ("error", None, true),
                };
                log2.lock().unwrap().push((what.to_string(), octets));
                if stop {
                    break;
                }
            }
        };
        tokio::spawn(counted(waiter, &act));
        let mut outs: Vec<Value> = vec![];
        let mut hang = !settle(&act).await;
        let id = match peer.frames().0.first() {
            Some(f) if f.len() >= 2 => [f[0], f[1]],
            _ => return json!({"outs": [["norequest", 0]]}),
        };
        let mut taken = 0;
        for (i, m) in msgs.iter().enumerate() {
            let mut octets = m.clone();
            if own_id.get(i).cloned().unwrap_or(true) {
                octets[0] = id[0];
                octets[1] = id[1];
            } else {
                octets[0] = id[0] ^ 0x55;
                octets[1] = id[1];
            }
            peer.push_frame(&octets);
            if !hang && !settle(&act).await {
                hang = true;
                outs.push(json!(["hang", i + 1]));
            }
            let g = log.lock().unwrap();
            for (what, got) in g[taken..].iter() {
                let what = match got {
                    Some(o) if o != &octets => "other",
                    _ => what.as_str(),
                };
                outs.push(json!([what, i + 1]));
            }
            taken = g.len();
        }
        peer.close();
        if !hang && !settle(&act).await {
            outs.push(json!(["hang", msgs.len()]));
        }
        let g = log.lock().unwrap();
        let ended = g.iter().any(|(w, _)| w == "eof" || w == "error");
        for (what, _) in g[taken..].iter() {
            outs.push(json!([if what == "error" { "closed" } else { what.as_str() }, msgs.len()]));
        }
        if !ended {
            outs.push(json!(["pending", msgs.len()]));
        }
        drop(conn);
        json!({"outs": outs})
    })
}
