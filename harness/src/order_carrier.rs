//! C04, representation independence: the carriers of Order.tla (every way
//! the library holds one name) built as the concrete types, and what is
//! observable through them.  Used by replay_order (S->I) and record_order
//! (I->S); needs `mod rdata` in the including binary.
//!
//! A carrier arrives as the tagged tuple of Order.tla:
//!   ["rflat", o, labels]  ["rchain", rel, rel]
//!   ["flat", o, name]  ["parsed", cuts, hops, name]  ["chain", rel, abs]
//!   ["uchain", o, isabs, labels, abs]  ["chainroot", rel]  ["ref", abs]
#![allow(dead_code)]

use crate::rdata::order::{h, sgn, Agree};
use crate::rdata::{parse_all, AllData};
use bytes::Bytes;
use domain::base::cmp::CanonicalOrd;
use domain::base::iana::Class;
use domain::base::message::Message;
use domain::base::name::{
    Chain, FlattenInto, Label, Name, ParsedName, RelativeName, ToName,
    ToRelativeName, UncertainName,
};
use domain::base::rdata::ComposeRecordData;
use domain::base::record::{Record, RecordHeader};
use domain::base::Ttl;
use domain::rdata::ipseckey::{Ipseckey, IpseckeyGateway};
use domain::rdata::svcb::SvcbRdata;
use domain::rdata::*;
use octseq::array::Array;
use octseq::parse::Parser;
use serde_json::{json, Value};
use std::cmp::Ordering;
use verif_harness::common::Rng;

//----------------------------------------------------------------------------
// building blocks

/// Buffers and referenced values live for the rest of the process: the
/// borrowed carriers (`ParsedName<&[u8]>`, `&Name<[u8]>`, `&T`) need an owner
/// that outlives the visitor call; the amounts are small.
fn leak<T>(x: T) -> &'static T {
    Box::leak(Box::new(x))
}
fn leak_bytes(v: Vec<u8>) -> &'static [u8] {
    Box::leak(v.into_boxed_slice())
}

fn labels_of(v: &Value) -> Vec<Vec<u8>> {
    v.as_array()
        .expect("labels")
        .iter()
        .map(|l| l.as_array().expect("label").iter().map(|b| b.as_u64().unwrap() as u8).collect())
        .collect()
}
fn rel_wire(labels: &[Vec<u8>]) -> Vec<u8> {
    let mut w = vec![];
    for l in labels {
        w.push(l.len() as u8);
        w.extend_from_slice(l);
    }
    w
}
fn abs_wire(labels: &[Vec<u8>]) -> Vec<u8> {
    let mut w = rel_wire(labels);
    w.push(0);
    w
}
pub fn labels_json(labels: &[Vec<u8>]) -> Value {
    json!(labels)
}

/// A message-like buffer holding the name with a compression pointer after
/// the first k labels for every k with cuts[k-1], and `hops` pointer-only
/// hops in front: (buffer, start).
pub fn render(labels: &[Vec<u8>], cuts: &[bool], hops: usize) -> (Vec<u8>, usize) {
    let n = labels.len();
    let ptr = |b: &mut Vec<u8>, target: usize| {
        b.push(0xC0 | (target >> 8) as u8);
        b.push(target as u8);
    };
    // segments [s, e) of labels, a pointer after each but the last; the last
    // one carries the root label (and may be the root label alone)
    let mut bounds = vec![0usize];
    for k in 1..=n {
        if cuts.get(k - 1).copied().unwrap_or(false) {
            bounds.push(k);
        }
    }
    bounds.push(n);
    let nseg = bounds.len() - 1;
    let mut b = vec![0u8; 12];
    let mut next = 0usize; // where the following segment starts
    for s in (0..nseg).rev() {
        let start = b.len();
        b.extend_from_slice(&rel_wire(&labels[bounds[s]..bounds[s + 1]]));
        if s == nseg - 1 {
            b.push(0);
        } else {
            ptr(&mut b, next);
        }
        next = start;
    }
    for _ in 0..hops {
        let start = b.len();
        ptr(&mut b, next);
        next = start;
    }
    (b, next)
}

// leaves.  t is the carrier tuple.
fn f_vec(t: &Value) -> Name<Vec<u8>> {
    Name::from_octets(abs_wire(&labels_of(&t[2]))).unwrap()
}
fn f_bytes(t: &Value) -> Name<Bytes> {
    Name::from_octets(Bytes::from(abs_wire(&labels_of(&t[2])))).unwrap()
}
fn f_array(t: &Value) -> Name<Array<255>> {
    Name::from_octets(Array::<255>::try_from(&abs_wire(&labels_of(&t[2]))[..]).unwrap()).unwrap()
}
fn f_slice(t: &Value) -> &'static Name<[u8]> {
    Name::from_slice(leak_bytes(abs_wire(&labels_of(&t[2])))).unwrap()
}
fn parsed(t: &Value) -> ParsedName<&'static [u8]> {
    let cuts: Vec<bool> = t[1].as_array().expect("cuts").iter().map(|c| c.as_bool().unwrap()).collect();
    let (buf, start) = render(&labels_of(&t[3]), &cuts, t[2].as_u64().unwrap() as usize);
    let buf = leak_bytes(buf);
    let mut p = Parser::from_ref(buf);
    p.advance(start).unwrap();
    ParsedName::parse(&mut p).unwrap()
}
fn r_vec(t: &Value) -> RelativeName<Vec<u8>> {
    RelativeName::from_octets(rel_wire(&labels_of(&t[2]))).unwrap()
}
fn r_bytes(t: &Value) -> RelativeName<Bytes> {
    RelativeName::from_octets(Bytes::from(rel_wire(&labels_of(&t[2])))).unwrap()
}
fn r_slice(t: &Value) -> &'static RelativeName<[u8]> {
    RelativeName::from_slice(leak_bytes(rel_wire(&labels_of(&t[2])))).unwrap()
}
fn u_vec(t: &Value) -> UncertainName<Vec<u8>> {
    let l = labels_of(&t[3]);
    if t[2].as_bool().unwrap() {
        UncertainName::absolute(Name::from_octets(abs_wire(&l)).unwrap())
    } else {
        UncertainName::relative(RelativeName::from_octets(rel_wire(&l)).unwrap())
    }
}
fn u_bytes(t: &Value) -> UncertainName<Bytes> {
    let l = labels_of(&t[3]);
    if t[2].as_bool().unwrap() {
        UncertainName::absolute(Name::from_octets(Bytes::from(abs_wire(&l))).unwrap())
    } else {
        UncertainName::relative(RelativeName::from_octets(Bytes::from(rel_wire(&l))).unwrap())
    }
}

/// the static type a carrier term is built as
pub fn shape(t: &Value) -> String {
    let s = |i: usize| t[i].as_str().unwrap_or("?").to_string();
    match t[0].as_str().unwrap_or("?") {
        "rflat" => format!("r:{}", s(1)),
        "rchain" => format!("rc({},{})", shape(&t[1]), shape(&t[2])),
        "rref" => format!("&{}", shape(&t[1])),
        "flat" => format!("F:{}", s(1)),
        "parsed" => "P".into(),
        "chain" => format!("C({},{})", shape(&t[1]), shape(&t[2])),
        "uchain" => format!("U:{}({})", s(1), shape(&t[4])),
        "chainroot" => format!("CR({})", shape(&t[1])),
        "ref" => format!("&{}", shape(&t[1])),
        other => format!("?{other}"),
    }
}

type RV = RelativeName<Vec<u8>>;
type RB = RelativeName<Bytes>;
type RS = &'static RelativeName<[u8]>;
type FV = Name<Vec<u8>>;
type FB = Name<Bytes>;
type FA = Name<Array<255>>;
type FS = &'static Name<[u8]>;
type PN = ParsedName<&'static [u8]>;
type UV = UncertainName<Vec<u8>>;
type UB = UncertainName<Bytes>;
type Root = Name<&'static [u8]>;

/// What some carrier types offer beyond `ToName`.
pub trait Extra {
    fn hash64(&self) -> Option<u64> {
        None
    }
    fn is_root_(&self) -> Option<bool> {
        None
    }
    /// `FlattenInto<Name<Vec<u8>>>`
    fn flat(&self) -> Option<Vec<u8>> {
        None
    }
}
macro_rules! extra_name {
    ($($t:ty),*) => {$(
        impl Extra for $t {
            fn hash64(&self) -> Option<u64> { Some(h(self)) }
            fn is_root_(&self) -> Option<bool> { Some(self.is_root()) }
            fn flat(&self) -> Option<Vec<u8>> {
                let n: Name<Vec<u8>> = self.clone().try_flatten_into().ok()?;
                Some(n.as_slice().to_vec())
            }
        }
    )*};
}
extra_name!(FV, FB, PN);
impl Extra for FA {
    fn hash64(&self) -> Option<u64> {
        Some(h(self))
    }
    fn is_root_(&self) -> Option<bool> {
        Some(self.is_root())
    }
}
impl Extra for Name<[u8]> {
    fn hash64(&self) -> Option<u64> {
        Some(h(self))
    }
    fn is_root_(&self) -> Option<bool> {
        Some(self.is_root())
    }
}
impl<T: Extra + ?Sized> Extra for &T {
    fn hash64(&self) -> Option<u64> {
        (**self).hash64()
    }
    fn is_root_(&self) -> Option<bool> {
        (**self).is_root_()
    }
}
macro_rules! extra_chain_flat {
    ($($t:ty),*) => {$(
        impl Extra for $t {
            fn flat(&self) -> Option<Vec<u8>> {
                let n: Name<Vec<u8>> = self.clone().try_flatten_into().ok()?;
                Some(n.as_slice().to_vec())
            }
        }
    )*};
}
macro_rules! extra_none {
    ($($t:ty),*) => {$( impl Extra for $t {} )*};
}
extra_chain_flat!(
    Chain<RV, FV>,
    Chain<RB, FB>,
    Chain<RV, PN>,
    Chain<RV, Chain<RV, FV>>,
    Chain<Chain<RV, RV>, FV>,
    Chain<RB, Chain<RV, PN>>
);
extra_none!(
    Chain<RS, FS>,
    Chain<UV, FV>,
    Chain<UB, PN>,
    Chain<UV, Chain<RV, FV>>,
    Chain<RV, Root>,
    Chain<Chain<RV, RB>, Root>
);

/// Something to do with a carrier whatever its static type.  `mk` builds the
/// carrier from a term of the shape it was selected for.
pub trait AbsVisitor {
    type Out;
    fn visit<N>(self, mk: &dyn Fn(&Value) -> N) -> Self::Out
    where
        N: ToName + Clone + Extra + 'static;
}

fn c<T, E>(x: Result<T, E>) -> T {
    match x {
        Ok(v) => v,
        Err(_) => panic!("chain too long"),
    }
}

pub fn with_abs<V: AbsVisitor>(t: &Value, v: V) -> Result<V::Out, String> {
    Ok(match shape(t).as_str() {
        "F:vec" => v.visit(&f_vec),
        "F:bytes" => v.visit(&f_bytes),
        "F:array" => v.visit(&f_array),
        "F:slice" => v.visit(&f_slice),
        "P" => v.visit(&parsed),
        "C(r:vec,F:vec)" => v.visit(&|t: &Value| c(r_vec(&t[1]).chain(f_vec(&t[2])))),
        "C(r:bytes,F:bytes)" => v.visit(&|t: &Value| c(r_bytes(&t[1]).chain(f_bytes(&t[2])))),
        "C(r:slice,F:slice)" => {
            v.visit(&|t: &Value| c(ToRelativeName::chain(r_slice(&t[1]), f_slice(&t[2]))))
        }
        "C(r:vec,P)" => v.visit(&|t: &Value| c(r_vec(&t[1]).chain(parsed(&t[2])))),
        "C(r:vec,C(r:vec,F:vec))" => v.visit(&|t: &Value| {
            c(r_vec(&t[1]).chain(c(r_vec(&t[2][1]).chain(f_vec(&t[2][2])))))
        }),
        "C(rc(r:vec,r:vec),F:vec)" => v.visit(&|t: &Value| {
            c(c(r_vec(&t[1][1]).chain(r_vec(&t[1][2]))).chain(f_vec(&t[2])))
        }),
        "C(r:bytes,C(r:vec,P))" => v.visit(&|t: &Value| {
            c(r_bytes(&t[1]).chain(c(r_vec(&t[2][1]).chain(parsed(&t[2][2])))))
        }),
        "U:vec(F:vec)" => v.visit(&|t: &Value| c(u_vec(t).chain(f_vec(&t[4])))),
        "U:bytes(P)" => v.visit(&|t: &Value| c(u_bytes(t).chain(parsed(&t[4])))),
        "U:vec(C(r:vec,F:vec))" => v.visit(&|t: &Value| {
            c(u_vec(t).chain(c(r_vec(&t[4][1]).chain(f_vec(&t[4][2])))))
        }),
        "CR(r:vec)" => v.visit(&|t: &Value| r_vec(&t[1]).chain_root()),
        "CR(rc(r:vec,r:bytes))" => {
            v.visit(&|t: &Value| c(r_vec(&t[1][1]).chain(r_bytes(&t[1][2]))).chain_root())
        }
        "&F:vec" => v.visit(&|t: &Value| leak(f_vec(&t[1]))),
        "&P" => v.visit(&|t: &Value| leak(parsed(&t[1]))),
        "&C(r:vec,F:vec)" => v.visit(&|t: &Value| leak(c(r_vec(&t[1][1]).chain(f_vec(&t[1][2]))))),
        "&&F:vec" => v.visit(&|t: &Value| leak(leak(f_vec(&t[1][1])))),
        other => return Err(format!("unsupported carrier shape {other}")),
    })
}

/// The same for the few shapes the names inside the data of a *record* are
/// given (owner shape x data shape is a product of instantiations).
pub fn with_abs_few<V: AbsVisitor>(t: &Value, v: V) -> Result<V::Out, String> {
    Ok(match shape(t).as_str() {
        "F:vec" => v.visit(&f_vec),
        "P" => v.visit(&parsed),
        "C(r:vec,F:vec)" => v.visit(&|t: &Value| c(r_vec(&t[1]).chain(f_vec(&t[2])))),
        "C(r:vec,C(r:vec,F:vec))" => v.visit(&|t: &Value| {
            c(r_vec(&t[1]).chain(c(r_vec(&t[2][1]).chain(f_vec(&t[2][2])))))
        }),
        "U:vec(F:vec)" => v.visit(&|t: &Value| c(u_vec(t).chain(f_vec(&t[4])))),
        "&C(r:vec,F:vec)" => {
            v.visit(&|t: &Value| leak(c(r_vec(&t[1][1]).chain(f_vec(&t[1][2])))))
        }
        other => return Err(format!("unsupported carrier shape {other} for record data")),
    })
}

/// the label sequence a carrier term denotes (Denote of Order.tla; only used
/// to pick the flat names a carrier is compared with and by the recorder)
pub fn denote(t: &Value) -> Vec<Vec<u8>> {
    fn rel(t: &Value) -> Vec<Vec<u8>> {
        if t[0] == "rflat" {
            labels_of(&t[2])
        } else {
            let mut l = rel(&t[1]);
            l.extend(rel(&t[2]));
            l
        }
    }
    match t[0].as_str().unwrap() {
        "flat" => labels_of(&t[2]),
        "parsed" => labels_of(&t[3]),
        "chain" => {
            let mut l = rel(&t[1]);
            l.extend(denote(&t[2]));
            l
        }
        "uchain" => {
            let mut l = labels_of(&t[3]);
            if !t[2].as_bool().unwrap() {
                l.extend(denote(&t[4]));
            }
            l
        }
        "chainroot" => rel(&t[1]),
        "ref" => denote(&t[1]),
        _ => panic!("bad carrier"),
    }
}

//----------------------------------------------------------------------------
// one carrier

fn compose_of<N: ToName + ?Sized>(n: &N) -> Vec<u8> {
    let mut v = vec![];
    n.compose(&mut v).unwrap();
    v
}
fn canon_of<N: ToName + ?Sized>(n: &N) -> Vec<u8> {
    let mut v = vec![];
    n.compose_canonical(&mut v).unwrap();
    v
}

fn unary<N: ToName + Clone + Extra>(n: &N, what: &str, ag: &mut Agree) {
    // every route to the wire form
    ag.put("compose", json!(compose_of(n)), &format!("{what}: compose"));
    ag.put("compose", json!(n.to_name::<Vec<u8>>().as_slice()), &format!("{what}: to_name"));
    ag.put("compose", json!(n.to_vec().as_slice()), &format!("{what}: to_vec"));
    ag.put("compose", json!(n.to_bytes().as_slice()), &format!("{what}: to_bytes"));
    ag.put("compose", json!(n.to_cow().as_slice()), &format!("{what}: to_cow"));
    match n.try_to_name::<Array<255>>() {
        Ok(a) => ag.put("compose", json!(a.as_slice()), &format!("{what}: try_to_name<Array>")),
        Err(_) => ag.issues.push(format!("{what}: try_to_name<Array<255>> failed")),
    }
    if let Some(s) = n.as_flat_slice() {
        ag.put("compose", json!(s), &format!("{what}: as_flat_slice"));
    }
    if let Some(f) = n.flat() {
        ag.put("compose", json!(f), &format!("{what}: flatten_into"));
    }
    ag.put("compose", json!(compose_of(&n)), &format!("{what}: (&n).compose"));
    // ... and to the canonical form
    ag.put("canon", json!(canon_of(n)), &format!("{what}: compose_canonical"));
    ag.put(
        "canon",
        json!(n.to_canonical_name::<Vec<u8>>().as_slice()),
        &format!("{what}: to_canonical_name"),
    );
    match n.try_to_canonical_name::<Bytes>() {
        Ok(a) => ag.put("canon", json!(a.as_slice()), &format!("{what}: try_to_canonical_name")),
        Err(_) => ag.issues.push(format!("{what}: try_to_canonical_name failed")),
    }
    ag.put("canon", json!(canon_of(&n)), &format!("{what}: (&n).compose_canonical"));
    ag.put("len", json!(n.compose_len()), &format!("{what}: compose_len"));
    ag.put(
        "len",
        json!(n.iter_labels().map(|l| l.compose_len() as u64).sum::<u64>()),
        &format!("{what}: sum of label lengths"),
    );
    // labels, from the front, from the back, from both ends
    let fwd: Vec<Vec<u8>> = n.iter_labels().map(|l| l.as_slice().to_vec()).collect();
    let mut back: Vec<Vec<u8>> = n.iter_labels().rev().map(|l| l.as_slice().to_vec()).collect();
    back.reverse();
    let mut it = n.iter_labels();
    let (mut front, mut tail) = (vec![], vec![]);
    loop {
        match it.next() {
            Some(l) => front.push(l.as_slice().to_vec()),
            None => break,
        }
        match it.next_back() {
            Some(l) => tail.push(l.as_slice().to_vec()),
            None => break,
        }
    }
    tail.reverse();
    front.extend(tail);
    ag.put("labels", json!(fwd), &format!("{what}: iter_labels"));
    ag.put("labels", json!(back), &format!("{what}: iter_labels reversed"));
    ag.put("labels", json!(front), &format!("{what}: iter_labels from both ends"));
    ag.put("rrsig_labels", json!(n.rrsig_label_count()), &format!("{what}: rrsig_label_count"));
    ag.put(
        "is_root",
        json!(n.iter_labels().next().map(|l| l.is_root()).unwrap_or(false)),
        &format!("{what}: first label is the root label"),
    );
    if let Some(r) = n.is_root_() {
        ag.put("is_root", json!(r), &format!("{what}: is_root"));
    }
    if !n.starts_with(n) || !n.ends_with(n) {
        ag.issues.push(format!("{what}: does not start / end with itself"));
    }
    // against the flat forms of the same name
    let wire = compose_of(n);
    if let Ok(flat) = Name::from_octets(wire.clone()) {
        let lower: Name<Vec<u8>> =
            Name::from_octets(wire.iter().map(|b| b.to_ascii_lowercase()).collect()).unwrap();
        let upper: Name<Vec<u8>> =
            Name::from_octets(wire.iter().map(|b| b.to_ascii_uppercase()).collect()).unwrap();
        for (o, w) in [(&flat, "same spelling"), (&lower, "lower case"), (&upper, "upper case")] {
            if !n.name_eq(o) || !o.name_eq(n) {
                ag.issues.push(format!("{what}: not name_eq to the flat name ({w})"));
            }
            if n.name_cmp(o) != Ordering::Equal || o.name_cmp(n) != Ordering::Equal {
                ag.issues.push(format!("{what}: name_cmp with the flat name ({w}) not Equal"));
            }
            if n.lowercase_composed_cmp(o) != Ordering::Equal
                || o.lowercase_composed_cmp(n) != Ordering::Equal
            {
                ag.issues.push(format!("{what}: lowercase_composed_cmp with the flat name ({w}) not Equal"));
            }
            if let Some(x) = n.hash64() {
                ag.put("hash_ok", json!(x == h(o)), &format!("{what}: hash vs flat name ({w})"));
            }
        }
        if n.composed_cmp(&flat) != Ordering::Equal || flat.composed_cmp(n) != Ordering::Equal {
            ag.issues.push(format!("{what}: composed_cmp with the flat name not Equal"));
        }
        if canon_of(&lower) != canon_of(n) {
            ag.issues.push(format!("{what}: canonical form differs from that of the flat lower-case name"));
        }
    } else {
        ag.issues.push(format!("{what}: composes to octets that are no name"));
    }
    ag.put("hash_ok", json!(true), "default");
}

struct Unary<'a> {
    t: &'a Value,
}
impl AbsVisitor for Unary<'_> {
    type Out = Value;
    fn visit<N: ToName + Clone + Extra + 'static>(self, mk: &dyn Fn(&Value) -> N) -> Value {
        let n = mk(self.t);
        let mut ag = Agree::new();
        let what = shape(self.t);
        unary(&n, &what, &mut ag);
        // a clone is the same name
        unary(&n.clone(), &format!("clone of {what}"), &mut ag);
        ag.finish()
    }
}
pub fn observe_carrier(t: &Value) -> Value {
    match with_abs(t, Unary { t }) {
        Ok(v) => v,
        Err(e) => json!({"bad_case": e}),
    }
}

//----------------------------------------------------------------------------
// two carriers

fn pair_ops<A: ToName, B: ToName>(x: &A, y: &B, what: &str, ag: &mut Agree) {
    ag.put("eq", json!(x.name_eq(y)), what);
    ag.put("eq", json!(y.name_eq(x)), what);
    ag.put("cmp", json!(sgn(x.name_cmp(y))), what);
    ag.put("cmp", json!(-sgn(y.name_cmp(x))), what);
    ag.put("lcomposed", json!(sgn(x.lowercase_composed_cmp(y))), what);
    ag.put("lcomposed", json!(-sgn(y.lowercase_composed_cmp(x))), what);
    ag.put("composed", json!(sgn(x.composed_cmp(y))), what);
    ag.put("composed", json!(-sgn(y.composed_cmp(x))), what);
    // ... and what they compose to
    ag.put("composed", json!(sgn(compose_of(x).cmp(&compose_of(y)))), "octets of compose");
    ag.put("lcomposed", json!(sgn(canon_of(x).cmp(&canon_of(y)))), "octets of compose_canonical");
    ag.put("eq", json!(canon_of(x) == canon_of(y)), "octets of compose_canonical equal");
    ag.put("hash_ok", json!(true), "default");
}
struct PairOuter<'a> {
    ta: &'a Value,
    tb: &'a Value,
}
struct PairInner<'a, A> {
    a: A,
    tb: &'a Value,
    what: String,
}
impl AbsVisitor for PairOuter<'_> {
    type Out = Value;
    fn visit<N: ToName + Clone + Extra + 'static>(self, mk: &dyn Fn(&Value) -> N) -> Value {
        let a = mk(self.ta);
        let what = format!("{} vs {}", shape(self.ta), shape(self.tb));
        match with_abs(self.tb, PairInner { a, tb: self.tb, what }) {
            Ok(v) => v,
            Err(e) => json!({"bad_case": e}),
        }
    }
}
impl<A: ToName> AbsVisitor for PairInner<'_, A> {
    type Out = Value;
    fn visit<N: ToName + Clone + Extra + 'static>(self, mk: &dyn Fn(&Value) -> N) -> Value {
        let b = mk(self.tb);
        let mut ag = Agree::new();
        pair_ops(&self.a, &b, &self.what, &mut ag);
        pair_ops(&&self.a, &&b, &self.what, &mut ag);
        ag.finish()
    }
}
pub fn observe_carrier_pair(ta: &Value, tb: &Value) -> Value {
    match with_abs(ta, PairOuter { ta, tb }) {
        Ok(v) => v,
        Err(e) => json!({"bad_case": e}),
    }
}

//----------------------------------------------------------------------------
// record data whose names are in carriers

/// The same record data with every domain name replaced by the next one of
/// `names` (in layout order).  None for types without names.
pub fn rebuild<'a, N: ToName + Clone>(
    d: &AllData<'a>,
    names: &mut dyn Iterator<Item = N>,
) -> Option<AllRecordData<&'a [u8], N>> {
    use AllRecordData as D;
    let mut nx = || names.next().expect("one carrier per name");
    Some(match d {
        D::Cname(_) => D::Cname(Cname::new(nx())),
        D::Ns(_) => D::Ns(Ns::new(nx())),
        D::Ptr(_) => D::Ptr(Ptr::new(nx())),
        D::Mb(_) => D::Mb(Mb::new(nx())),
        D::Md(_) => D::Md(Md::new(nx())),
        D::Mf(_) => D::Mf(Mf::new(nx())),
        D::Mg(_) => D::Mg(Mg::new(nx())),
        D::Mr(_) => D::Mr(Mr::new(nx())),
        D::Dname(_) => D::Dname(Dname::new(nx())),
        D::Mx(x) => D::Mx(Mx::new(x.preference(), nx())),
        D::Minfo(_) => {
            let a = nx();
            D::Minfo(Minfo::new(a, nx()))
        }
        D::Rp(_) => {
            let a = nx();
            D::Rp(Rp::new(a, nx()))
        }
        D::Soa(x) => {
            let a = nx();
            D::Soa(Soa::new(a, nx(), x.serial(), x.refresh(), x.retry(), x.expire(), x.minimum()))
        }
        D::Srv(x) => D::Srv(Srv::new(x.priority(), x.weight(), x.port(), nx())),
        D::Naptr(x) => D::Naptr(Naptr::new(
            x.order(),
            x.preference(),
            x.flags().clone(),
            x.services().clone(),
            x.regexp().clone(),
            nx(),
        )),
        D::Rrsig(x) => D::Rrsig(
            Rrsig::new(
                x.type_covered(),
                x.algorithm(),
                x.labels(),
                x.original_ttl(),
                x.expiration(),
                x.inception(),
                x.key_tag(),
                nx(),
                *x.signature(),
            )
            .ok()?,
        ),
        D::Nsec(x) => D::Nsec(Nsec::new(nx(), x.types().clone())),
        D::Svcb(x) => D::Svcb(SvcbRdata::new(x.priority(), nx(), x.params().clone()).ok()?),
        D::Https(x) => D::Https(SvcbRdata::new(x.priority(), nx(), x.params().clone()).ok()?),
        D::Tsig(x) => D::Tsig(
            Tsig::new(
                nx(),
                x.time_signed(),
                x.fudge(),
                *x.mac(),
                x.original_id(),
                x.error(),
                *x.other(),
            )
            .ok()?,
        ),
        D::Ipseckey(x) => {
            let gw = match x.gateway() {
                IpseckeyGateway::Name(_) => IpseckeyGateway::Name(nx()),
                IpseckeyGateway::None => IpseckeyGateway::None,
                IpseckeyGateway::Ipv4(a) => IpseckeyGateway::Ipv4(a.clone()),
                IpseckeyGateway::Ipv6(a) => IpseckeyGateway::Ipv6(a.clone()),
            };
            D::Ipseckey(Ipseckey::new(x.precedence(), x.algorithm(), gw, *x.key()))
        }
        _ => return None,
    })
}
/// the zone enum over the same values (TSIG is not a zone type)
fn rebuild_zone<'a, N: ToName + Clone>(
    d: &AllData<'a>,
    names: &mut dyn Iterator<Item = N>,
) -> Option<ZoneRecordData<&'a [u8], N>> {
    use ZoneRecordData as Z;
    Some(match rebuild(d, names)? {
        AllRecordData::Cname(x) => Z::Cname(x),
        AllRecordData::Ns(x) => Z::Ns(x),
        AllRecordData::Ptr(x) => Z::Ptr(x),
        AllRecordData::Mb(x) => Z::Mb(x),
        AllRecordData::Md(x) => Z::Md(x),
        AllRecordData::Mf(x) => Z::Mf(x),
        AllRecordData::Mg(x) => Z::Mg(x),
        AllRecordData::Mr(x) => Z::Mr(x),
        AllRecordData::Dname(x) => Z::Dname(x),
        AllRecordData::Mx(x) => Z::Mx(x),
        AllRecordData::Minfo(x) => Z::Minfo(x),
        AllRecordData::Rp(x) => Z::Rp(x),
        AllRecordData::Soa(x) => Z::Soa(x),
        AllRecordData::Srv(x) => Z::Srv(x),
        AllRecordData::Naptr(x) => Z::Naptr(x),
        AllRecordData::Rrsig(x) => Z::Rrsig(x),
        AllRecordData::Nsec(x) => Z::Nsec(x),
        AllRecordData::Svcb(x) => Z::Svcb(x),
        AllRecordData::Https(x) => Z::Https(x),
        AllRecordData::Ipseckey(x) => Z::Ipseckey(x),
        _ => return None,
    })
}

fn rd_compose<D: ComposeRecordData>(d: &D) -> Vec<u8> {
    let mut v = vec![];
    d.compose_rdata(&mut v).unwrap();
    v
}
fn rd_canon<D: ComposeRecordData>(d: &D) -> Vec<u8> {
    let mut v = vec![];
    d.compose_canonical_rdata(&mut v).unwrap();
    v
}
fn rd_len_compose<D: ComposeRecordData>(d: &D, canon: bool) -> Vec<u8> {
    let mut v = vec![];
    if canon {
        d.compose_canonical_len_rdata(&mut v).unwrap();
    } else {
        d.compose_len_rdata(&mut v).unwrap();
    }
    v
}
fn with_len(rd: &[u8]) -> Vec<u8> {
    let mut v = (rd.len() as u16).to_be_bytes().to_vec();
    v.extend_from_slice(rd);
    v
}

/// Applies `$body` to the typed record data of two values of the same
/// (name-bearing) type: the per-type impls only ask `ToName` of the names, so
/// they exist for every carrier (the enums' own `CanonicalOrd` / `==` ask
/// `CanonicalOrd` / `PartialEq` of the name type, which a `Chain` lacks).
macro_rules! both {
    ($a:expr, $b:expr, |$x:ident, $y:ident| $body:expr) => {{
        use AllRecordData as D;
        match ($a, $b) {
            (D::Cname($x), D::Cname($y)) => Some($body),
            (D::Ns($x), D::Ns($y)) => Some($body),
            (D::Ptr($x), D::Ptr($y)) => Some($body),
            (D::Mb($x), D::Mb($y)) => Some($body),
            (D::Md($x), D::Md($y)) => Some($body),
            (D::Mf($x), D::Mf($y)) => Some($body),
            (D::Mg($x), D::Mg($y)) => Some($body),
            (D::Mr($x), D::Mr($y)) => Some($body),
            (D::Dname($x), D::Dname($y)) => Some($body),
            (D::Mx($x), D::Mx($y)) => Some($body),
            (D::Minfo($x), D::Minfo($y)) => Some($body),
            (D::Rp($x), D::Rp($y)) => Some($body),
            (D::Soa($x), D::Soa($y)) => Some($body),
            (D::Srv($x), D::Srv($y)) => Some($body),
            (D::Naptr($x), D::Naptr($y)) => Some($body),
            (D::Rrsig($x), D::Rrsig($y)) => Some($body),
            (D::Nsec($x), D::Nsec($y)) => Some($body),
            (D::Svcb($x), D::Svcb($y)) => Some($body),
            (D::Https($x), D::Https($y)) => Some($body),
            (D::Tsig($x), D::Tsig($y)) => Some($body),
            (D::Ipseckey($x), D::Ipseckey($y)) => Some($body),
            _ => None,
        }
    }};
}

struct RdVisitor<'a, 'm> {
    cs: &'a [Value],
    da: &'a AllData<'m>,
    db: &'a AllData<'m>,
    eqfree: bool,
}
impl AbsVisitor for RdVisitor<'_, '_> {
    type Out = Value;
    fn visit<N: ToName + Clone + Extra + 'static>(self, mk: &dyn Fn(&Value) -> N) -> Value {
        let what = shape(&self.cs[0]);
        let names: Vec<N> = self.cs.iter().map(|t| mk(t)).collect();
        let mut ag = Agree::new();
        let ca = match rebuild(self.da, &mut names.iter().cloned()) {
            Some(x) => x,
            None => return json!({"bad_case": "record data without names or not constructible"}),
        };
        rd_ops(&ca, self.da, self.db, &format!("AllRecordData over {what}"), &mut ag);
        if let Some(cz) = rebuild_zone(self.da, &mut names.iter().cloned()) {
            let w = format!("ZoneRecordData over {what}");
            ag.put("compose", json!(rd_compose(&cz)), &w);
            ag.put("canon_wire", json!(rd_canon(&cz)), &w);
        }
        if self.eqfree {
            // == of data whose character strings differ only in case is not pinned
            ag.vals.insert("eq", json!("free"));
        }
        ag.finish()
    }
}
/// ca: the data over carriers; fa: the same value held flat; fb: the other value
fn rd_ops<'m, N: ToName>(
    ca: &AllRecordData<&'m [u8], N>,
    fa: &AllData<'m>,
    fb: &AllData<'m>,
    w: &str,
    ag: &mut Agree,
) {
    let (plain, canon) = (rd_compose(ca), rd_canon(ca));
    ag.put("compose", json!(plain), &format!("{w}: compose_rdata"));
    ag.put("canon_wire", json!(canon), &format!("{w}: compose_canonical_rdata"));
    ag.put("rdlen", json!(ca.rdlen(false)), &format!("{w}: rdlen"));
    if rd_len_compose(ca, false) != with_len(&plain) {
        ag.issues.push(format!("{w}: compose_len_rdata is not length + compose_rdata"));
    }
    if rd_len_compose(ca, true) != with_len(&canon) {
        ag.issues.push(format!("{w}: compose_canonical_len_rdata is not length + compose_canonical_rdata"));
    }
    // like the flat value it is
    if rd_compose(fa) != plain || rd_canon(fa) != canon {
        ag.issues.push(format!("{w}: composes differently from the same data held flat"));
    }
    let same = both!(ca, fa, |x, y| x == y
        && x.canonical_cmp(y) == Ordering::Equal
        && y.canonical_cmp(x) == Ordering::Equal);
    if same != Some(true) {
        ag.issues.push(format!("{w}: not == / canonically Equal to the same data held flat"));
    }
    match both!(ca, fb, |x, y| (x == y, y == x, sgn(x.canonical_cmp(y)), -sgn(y.canonical_cmp(x)))) {
        Some((e1, e2, c1, c2)) => {
            ag.put("eq", json!(e1), &format!("{w}: =="));
            ag.put("eq", json!(e2), &format!("{w}: == reversed"));
            ag.put("canon", json!(c1), &format!("{w}: canonical_cmp"));
            ag.put("canon", json!(c2), &format!("{w}: canonical_cmp reversed"));
        }
        None => ag.issues.push(format!("{w}: the two values are of different types")),
    }
}

pub fn observe_carried_rdata(ma: &[u8], cs: &[Value], mb: &[u8], eqfree: bool) -> Value {
    let (ma_, mb_) = (Message::from_slice(ma).unwrap(), Message::from_slice(mb).unwrap());
    let (ra, rb) = match (parse_all(ma_), parse_all(mb_)) {
        (Ok(x), Ok(y)) => (x, y),
        _ => return json!({"parse": "err"}),
    };
    if cs.is_empty() {
        return json!({"bad_case": "no carriers"});
    }
    let v = RdVisitor { cs, da: ra.data(), db: rb.data(), eqfree };
    match with_abs(&cs[0], v) {
        Ok(v) => v,
        Err(e) => json!({"bad_case": e}),
    }
}

//----------------------------------------------------------------------------
// records whose owner and data names are in carriers

struct RecOuter<'a, 'm> {
    oc: &'a Value,
    cs: &'a [Value],
    ra: &'a crate::rdata::AllRec<'m>,
    rb: &'a crate::rdata::AllRec<'m>,
    canonfree: bool,
}
struct RecInner<'a, 'm, O> {
    owner: O,
    o: RecOuter<'a, 'm>,
}
impl AbsVisitor for RecOuter<'_, '_> {
    type Out = Value;
    fn visit<N: ToName + Clone + Extra + 'static>(self, mk: &dyn Fn(&Value) -> N) -> Value {
        let owner = mk(self.oc);
        if self.cs.is_empty() {
            // data without names: held as parsed
            let d = self.ra.data().clone();
            return rec_ops(owner, d, &self);
        }
        let first = self.cs[0].clone();
        match with_abs_few(&first, RecInner { owner, o: self }) {
            Ok(v) => v,
            Err(e) => json!({"bad_case": e}),
        }
    }
}
impl<O: ToName + Clone> AbsVisitor for RecInner<'_, '_, O> {
    type Out = Value;
    fn visit<N: ToName + Clone + Extra + 'static>(self, mk: &dyn Fn(&Value) -> N) -> Value {
        let names: Vec<N> = self.o.cs.iter().map(|t| mk(t)).collect();
        match rebuild(self.o.ra.data(), &mut names.into_iter()) {
            Some(d) => rec_ops(self.owner, d, &self.o),
            None => json!({"bad_case": "record data not constructible"}),
        }
    }
}
fn rec_ops<'m, O: ToName + Clone, N: ToName + Clone>(
    owner: O,
    data: AllRecordData<&'m [u8], N>,
    o: &RecOuter<'_, 'm>,
) -> Value {
    let mut ag = Agree::new();
    let (fa, fb) = (o.ra, o.rb);
    let rdlen = data.rdlen(false).unwrap_or(0);
    let rec = Record::new(owner.clone(), fa.class(), fa.ttl(), data);
    let w = "Record over carriers";
    let (mut plain, mut canon) = (vec![], vec![]);
    rec.compose(&mut plain).unwrap();
    rec.compose_canonical(&mut canon).unwrap();
    ag.put("compose", json!(plain), &format!("{w}: compose"));
    ag.put("canon_wire", json!(canon), &format!("{w}: compose_canonical"));
    let (mut fplain, mut fcanon) = (vec![], vec![]);
    fa.compose(&mut fplain).unwrap();
    fa.compose_canonical(&mut fcanon).unwrap();
    ag.put("compose", json!(fplain), "the same record held flat: compose");
    ag.put("canon_wire", json!(fcanon), "the same record held flat: compose_canonical");
    let hdr = RecordHeader::new(owner.clone(), fa.rtype(), fa.class(), fa.ttl(), rdlen);
    let (mut hplain, mut hcanon) = (vec![], vec![]);
    hdr.compose(&mut hplain).unwrap();
    hdr.compose_canonical(&mut hcanon).unwrap();
    ag.put("hdr_canon", json!(hcanon), "RecordHeader over a carrier: compose_canonical");
    if !plain.starts_with(&hplain) || !canon.starts_with(&hcanon) {
        ag.issues.push("the record does not begin with what its header composes".into());
    }
    // canonical order: the owner in its carrier with the data held flat ...
    let half = Record::new(owner.clone(), fa.class(), fa.ttl(), fa.data().clone());
    if half.canonical_cmp(fa) != Ordering::Equal || fa.canonical_cmp(&half) != Ordering::Equal {
        ag.issues.push("not canonically Equal to the same record held flat".into());
    }
    let c = sgn(half.canonical_cmp(fb));
    if c != -sgn(fb.canonical_cmp(&half)) {
        ag.issues.push("canonical_cmp not antisymmetric".into());
    }
    ag.put("canon", if o.canonfree { json!("free") } else { json!(c) }, &format!("{w}: canonical_cmp, owner carried"));
    // ... and with the data over its carriers too (typed: see `both!`)
    if let Some((c1, c2, c3)) = both!(rec.data(), fb.data(), |x, y| {
        let r = Record::new(owner.clone(), fa.class(), fa.ttl(), x.clone());
        let s = Record::new(fb.owner().clone(), fb.class(), fb.ttl(), y.clone());
        let t = Record::new(fa.owner().clone(), fa.class(), fa.ttl(), x.clone());
        (sgn(r.canonical_cmp(&s)), -sgn(s.canonical_cmp(&r)), sgn(r.canonical_cmp(&t)))
    }) {
        ag.put("canon", if o.canonfree { json!("free") } else { json!(c1) }, &format!("{w}: canonical_cmp"));
        ag.put("canon", if o.canonfree { json!("free") } else { json!(c2) }, &format!("{w}: canonical_cmp reversed"));
        if c3 != 0 {
            ag.issues.push("not canonically Equal to the same record with a flat owner".into());
        }
    }
    ag.finish()
}

pub fn observe_carried_record(a: &Value, oc: &Value, cs: &[Value], b: &Value, canonfree: bool) -> Value {
    let (ma, mb) = (crate::rdata::order::record_msg(a), crate::rdata::order::record_msg(b));
    let (ma_, mb_) = (Message::from_slice(&ma).unwrap(), Message::from_slice(&mb).unwrap());
    let (ra, rb) = match (parse_all(ma_), parse_all(mb_)) {
        (Ok(x), Ok(y)) => (x, y),
        _ => return json!({"parse": "err"}),
    };
    let v = RecOuter { oc, cs, ra: &ra, rb: &rb, canonfree };
    match with_abs(oc, v) {
        Ok(v) => v,
        Err(e) => json!({"bad_case": e}),
    }
}

//----------------------------------------------------------------------------
// records across representations of their data (Order.tla, DataReps): the two
// sides of ==, partial_cmp and canonical_cmp hold owner, names and octets
// differently (parsed inside a message, Vec, Bytes); the data type is one of
// the enums, UnknownRecordData, or a RecordData implemented outside the
// library that answers `xans` for two values of different types (the
// contract of CanonicalOrd for record data is the order within one RRset).

/// Record data implemented outside the library: opaque octets of any type.
#[derive(Clone, Debug)]
pub struct ExtData {
    rtype: domain::base::iana::Rtype,
    data: Vec<u8>,
    xans: i64,
}
impl domain::base::rdata::RecordData for ExtData {
    fn rtype(&self) -> domain::base::iana::Rtype {
        self.rtype
    }
}
impl ComposeRecordData for ExtData {
    fn rdlen(&self, _compress: bool) -> Option<u16> {
        Some(self.data.len() as u16)
    }
    fn compose_rdata<T: domain::base::wire::Composer + ?Sized>(&self, t: &mut T) -> Result<(), T::AppendError> {
        t.append_slice(&self.data)
    }
    fn compose_canonical_rdata<T: domain::base::wire::Composer + ?Sized>(
        &self,
        t: &mut T,
    ) -> Result<(), T::AppendError> {
        t.append_slice(&self.data)
    }
}
impl PartialEq for ExtData {
    fn eq(&self, o: &Self) -> bool {
        self.rtype == o.rtype && self.data == o.data
    }
}
impl std::hash::Hash for ExtData {
    fn hash<H: std::hash::Hasher>(&self, st: &mut H) {
        self.rtype.hash(st);
        self.data.hash(st);
    }
}
impl PartialOrd for ExtData {
    fn partial_cmp(&self, o: &Self) -> Option<Ordering> {
        Some(self.rtype.cmp(&o.rtype).then_with(|| self.data.cmp(&o.data)))
    }
}
impl CanonicalOrd for ExtData {
    /// RFC 4034 6.3 within one type; across types what the case says
    fn canonical_cmp(&self, o: &Self) -> Ordering {
        let of = |x: i64| match x {
            x if x < 0 => Ordering::Less,
            0 => Ordering::Equal,
            _ => Ordering::Greater,
        };
        match self.rtype.cmp(&o.rtype) {
            Ordering::Equal => self.data.cmp(&o.data),
            Ordering::Less => of(self.xans),
            Ordering::Greater => of(-self.xans),
        }
    }
}

fn xpair<A, B>(x: &A, y: &B, hx: Option<u64>, hy: Option<u64>, what: &str, canonfree: bool, ag: &mut Agree)
where
    A: PartialEq<B> + PartialOrd<B> + CanonicalOrd<B>,
    B: PartialEq<A> + PartialOrd<A> + CanonicalOrd<A>,
{
    let e = x == y;
    ag.put("eq", json!(e), &format!("{what}: =="));
    ag.put("eq", json!(y == x), &format!("{what}: == reversed"));
    let (p, q) = (x.partial_cmp(y), y.partial_cmp(x));
    ag.put("cmp0", json!(p == Some(Ordering::Equal)), &format!("{what}: partial_cmp"));
    if p.map(sgn) != q.map(|o| -sgn(o)) {
        ag.issues.push(format!("{what}: partial_cmp not antisymmetric"));
    }
    let (c, d) = (sgn(x.canonical_cmp(y)), -sgn(y.canonical_cmp(x)));
    let v = |c: i64| if canonfree { json!("free") } else { json!(c) };
    ag.put("canon", v(c), &format!("{what}: canonical_cmp"));
    ag.put("canon", v(d), &format!("{what}: canonical_cmp reversed"));
    if c != d {
        ag.issues.push(format!("{what}: canonical_cmp not antisymmetric"));
    }
    if let (Some(a), Some(b)) = (hx, hy) {
        ag.put("hash_ok", json!(!e || a == b), &format!("{what}: hash"));
    }
}
/// every holding of the first record against every holding of the second
macro_rules! xgrid {
    ($ag:expr, $cf:expr, [$(($nx:expr, $x:expr, $hx:expr)),*], $ys:tt) => {
        $( xgrid!(@row $ag, $cf, $nx, $x, $hx, $ys); )*
    };
    (@row $ag:expr, $cf:expr, $nx:expr, $x:expr, $hx:expr, [$(($ny:expr, $y:expr, $hy:expr)),*]) => {
        $( xpair($x, $y, $hx, $hy, &format!("{} vs {}", $nx, $ny), $cf, $ag); )*
    };
}
fn xfree(ag: &mut Agree, free: bool) {
    // where == is not pinned only its coherence with the order is demanded
    if free && ag.vals.get("eq") == ag.vals.get("cmp0") {
        ag.vals.insert("eq", json!("free"));
        ag.vals.insert("cmp0", json!("free"));
    }
}

pub fn observe_xrecord(a: &Value, b: &Value, rep: &str, xans: i64, eqfree: bool, canonfree: bool) -> Value {
    use domain::base::iana::Rtype;
    use domain::base::rdata::UnknownRecordData;
    let mut ag = Agree::new();
    let (ma, mb) = (crate::rdata::order::record_msg(a), crate::rdata::order::record_msg(b));
    let (ma_, mb_) = (Message::from_slice(&ma).unwrap(), Message::from_slice(&mb).unwrap());
    let (pa, pb) = match (parse_all(ma_), parse_all(mb_)) {
        (Ok(x), Ok(y)) => (x, y),
        _ => return json!({"parse": "err"}),
    };
    let ag_ = &mut ag;
    ag_.put("hash_ok", json!(true), "");
    type VName = Name<Vec<u8>>;
    type BName = Name<Bytes>;
    match rep {
        "all" => {
            type V = Record<VName, AllRecordData<Vec<u8>, VName>>;
            type B = Record<BName, AllRecordData<Bytes, BName>>;
            fn own(p: &crate::rdata::AllRec<'_>) -> Option<(V, B)> {
                let v: V = p.clone().try_flatten_into().ok()?;
                let b: B = v.clone().try_flatten_into().ok()?;
                Some((v, b))
            }
            let ((va, ba), (vb, bb)) = match (own(&pa), own(&pb)) {
                (Some(x), Some(y)) => (x, y),
                _ => return json!({"bad_case": "record does not flatten"}),
            };
            // owner owned, data still inside the message; and the reverse
            let (xa, xb) = (
                Record::new(ba.owner().clone(), pa.class(), pa.ttl(), pa.data().clone()),
                Record::new(bb.owner().clone(), pb.class(), pb.ttl(), pb.data().clone()),
            );
            let (ya, yb) = (
                Record::new(pa.owner().clone(), pa.class(), pa.ttl(), va.data().clone()),
                Record::new(pb.owner().clone(), pb.class(), pb.ttl(), bb.data().clone()),
            );
            xgrid!(ag_, canonfree,
                [("parsed", &pa, Some(h(&pa))), ("Vec", &va, Some(h(&va))), ("Bytes", &ba, Some(h(&ba))),
                 ("Bytes owner+parsed data", &xa, Some(h(&xa))), ("parsed owner+Vec data", &ya, Some(h(&ya)))],
                [("parsed", &pb, Some(h(&pb))), ("Vec", &vb, Some(h(&vb))), ("Bytes", &bb, Some(h(&bb))),
                 ("Bytes owner+parsed data", &xb, Some(h(&xb))), ("parsed owner+Bytes data", &yb, Some(h(&yb)))]);
        }
        "zone" => {
            type Z<'m> = Record<ParsedName<&'m [u8]>, crate::rdata::ZoneData<'m>>;
            type V = Record<VName, ZoneRecordData<Vec<u8>, VName>>;
            type B = Record<BName, ZoneRecordData<Bytes, BName>>;
            fn zone<'m>(m: &'m Message<[u8]>) -> Option<Z<'m>> {
                m.answer().ok()?.next()?.ok()?.into_record().ok()?
            }
            let (za, zb): (Z<'_>, Z<'_>) = match (zone(ma_), zone(mb_)) {
                (Some(x), Some(y)) => (x, y),
                _ => return json!({"bad_case": "ZoneRecordData did not parse"}),
            };
            fn own(p: &Z<'_>) -> Option<(V, B)> {
                let v: V = p.clone().try_flatten_into().ok()?;
                let b: B = v.clone().try_flatten_into().ok()?;
                Some((v, b))
            }
            let ((va, ba), (vb, bb)) = match (own(&za), own(&zb)) {
                (Some(x), Some(y)) => (x, y),
                _ => return json!({"bad_case": "record does not flatten"}),
            };
            let xa = Record::new(ba.owner().clone(), za.class(), za.ttl(), za.data().clone());
            let yb = Record::new(zb.owner().clone(), zb.class(), zb.ttl(), vb.data().clone());
            xgrid!(ag_, canonfree,
                [("parsed", &za, Some(h(&za))), ("Vec", &va, Some(h(&va))), ("Bytes", &ba, Some(h(&ba))),
                 ("Bytes owner+parsed data", &xa, Some(h(&xa)))],
                [("parsed", &zb, Some(h(&zb))), ("Vec", &vb, Some(h(&vb))), ("Bytes", &bb, Some(h(&bb))),
                 ("parsed owner+Vec data", &yb, Some(h(&yb)))]);
        }
        "unknown" | "ext" => {
            let (rda, rdb) = (verif_harness::common::bytes_of(&a["rd"]), verif_harness::common::bytes_of(&b["rd"]));
            let (ta, tb) = (pa.rtype(), pb.rtype());
            let (oa, ob): (VName, VName) = (pa.owner().to_name(), pb.owner().to_name());
            let (ba, bb): (BName, BName) = (pa.owner().to_name(), pb.owner().to_name());
            if rep == "unknown" {
                let u = |t: Rtype, d: &[u8]| {
                    (
                        UnknownRecordData::from_octets(t, leak_bytes(d.to_vec())).unwrap(),
                        UnknownRecordData::from_octets(t, d.to_vec()).unwrap(),
                        UnknownRecordData::from_octets(t, Bytes::copy_from_slice(d)).unwrap(),
                    )
                };
                let ((sa, va, ya), (sb, vb, yb)) = (u(ta, &rda), u(tb, &rdb));
                let (r1, r2, r3) = (
                    Record::new(pa.owner().clone(), pa.class(), pa.ttl(), sa),
                    Record::new(oa.clone(), pa.class(), pa.ttl(), va.clone()),
                    Record::new(ba.clone(), pa.class(), pa.ttl(), ya),
                );
                let r4 = Record::new(pa.owner().clone(), pa.class(), pa.ttl(), va);
                let (s1, s2, s3) = (
                    Record::new(pb.owner().clone(), pb.class(), pb.ttl(), sb),
                    Record::new(ob.clone(), pb.class(), pb.ttl(), vb),
                    Record::new(bb.clone(), pb.class(), pb.ttl(), yb.clone()),
                );
                let s4 = Record::new(ob.clone(), pb.class(), pb.ttl(), yb);
                // (UnknownRecordData offers no Hash)
                xgrid!(ag_, canonfree,
                    [("parsed owner+slice", &r1, None), ("Vec", &r2, None), ("Bytes", &r3, None), ("parsed owner+Vec", &r4, None)],
                    [("parsed owner+slice", &s1, None), ("Vec", &s2, None), ("Bytes", &s3, None), ("Vec owner+Bytes", &s4, None)]);
                // the data on its own: within one type the order of the octets
                if ta == tb {
                    let (da, db) = (r1.data(), s3.data());
                    // (it decides the order of the records where class and owner agree)
                    if pa.class() == pb.class() && pa.owner().name_eq(pb.owner()) {
                        ag_.put("canon", json!(sgn(da.canonical_cmp(db))), "UnknownRecordData slice vs Bytes: canonical_cmp");
                    }
                    if (da == db) != (da.canonical_cmp(db) == Ordering::Equal)
                        || da.partial_cmp(db) != Some(da.canonical_cmp(db)) {
                        ag_.issues.push("UnknownRecordData: ==, partial_cmp and canonical_cmp incoherent".into());
                    }
                }
            } else {
                let e = |t: Rtype, d: &[u8]| ExtData { rtype: t, data: d.to_vec(), xans };
                let (r1, r2, r3) = (
                    Record::new(pa.owner().clone(), pa.class(), pa.ttl(), e(ta, &rda)),
                    Record::new(oa, pa.class(), pa.ttl(), e(ta, &rda)),
                    Record::new(ba, pa.class(), pa.ttl(), e(ta, &rda)),
                );
                let (s1, s2, s3) = (
                    Record::new(pb.owner().clone(), pb.class(), pb.ttl(), e(tb, &rdb)),
                    Record::new(ob, pb.class(), pb.ttl(), e(tb, &rdb)),
                    Record::new(bb, pb.class(), pb.ttl(), e(tb, &rdb)),
                );
                xgrid!(ag_, canonfree,
                    [("parsed owner", &r1, Some(h(&r1))), ("Vec owner", &r2, Some(h(&r2))), ("Bytes owner", &r3, Some(h(&r3)))],
                    [("parsed owner", &s1, Some(h(&s1))), ("Vec owner", &s2, Some(h(&s2))), ("Bytes owner", &s3, Some(h(&s3)))]);
            }
        }
        _ => return json!({"bad_case": "unknown representation"}),
    }
    xfree(&mut ag, eqfree);
    ag.finish()
}

//----------------------------------------------------------------------------
// random carriers (recorder)

/// a random carrier term denoting the name with these labels
pub fn random_carrier(rng: &mut Rng, labels: &[Vec<u8>], shape_no: Option<usize>) -> Value {
    let n = labels.len();
    let mut cut = || rng.below(n as u64 + 1) as usize;
    let (mut j, mut k) = (cut(), cut());
    if j > k {
        std::mem::swap(&mut j, &mut k);
    }
    let i = shape_no.unwrap_or_else(|| 1 + rng.below(24) as usize);
    let (lo, mid, hi, lok) = (&labels[..j], &labels[j..k], &labels[k..], &labels[..k]);
    let rf = |o: &str, l: &[Vec<u8>]| json!(["rflat", o, l]);
    let fl = |o: &str, l: &[Vec<u8>]| json!(["flat", o, l]);
    let mut pa = |l: &[Vec<u8>]| {
        let cuts: Vec<bool> = l.iter().map(|_| rng.chance(1, 3)).collect();
        json!(["parsed", cuts, rng.below(4), l])
    };
    match i {
        1 => fl("vec", labels),
        2 => fl("bytes", labels),
        3 => fl("array", labels),
        4 => fl("slice", labels),
        5 | 6 => pa(labels),
        7 => json!(["chain", rf("vec", lok), fl("vec", hi)]),
        8 => json!(["chain", rf("bytes", lok), fl("bytes", hi)]),
        9 => json!(["chain", rf("slice", lok), fl("slice", hi)]),
        10 => json!(["chain", rf("vec", lok), pa(hi)]),
        11 => json!(["chain", rf("vec", lo), ["chain", rf("vec", mid), fl("vec", hi)]]),
        12 => json!(["chain", ["rchain", rf("vec", lo), rf("vec", mid)], fl("vec", hi)]),
        13 => json!(["chain", rf("bytes", lo), ["chain", rf("vec", mid), pa(hi)]]),
        14 => json!(["uchain", "vec", false, lok, fl("vec", hi)]),
        15 => json!(["uchain", "vec", true, labels, fl("vec", hi)]),
        16 => json!(["uchain", "bytes", false, lok, pa(hi)]),
        17 => json!(["uchain", "bytes", true, labels, pa(lok)]),
        18 => json!(["uchain", "vec", false, lo, ["chain", rf("vec", mid), fl("vec", hi)]]),
        19 => json!(["chainroot", rf("vec", labels)]),
        20 => json!(["chainroot", ["rchain", rf("vec", lok), rf("bytes", hi)]]),
        21 => json!(["ref", fl("vec", labels)]),
        22 => json!(["ref", pa(labels)]),
        23 => json!(["ref", ["chain", rf("vec", lok), fl("vec", hi)]]),
        _ => json!(["ref", ["ref", fl("vec", labels)]]),
    }
}

pub fn labels_of_wire(w: &[u8]) -> Vec<Vec<u8>> {
    let mut out = vec![];
    let mut p = 0;
    while w[p] != 0 {
        let l = w[p] as usize;
        out.push(w[p + 1..p + 1 + l].to_vec());
        p += l + 1;
    }
    out
}

/// the domain names of record data in layout order, as label sequences
pub fn names_of_rdata(d: &AllData<'_>) -> Vec<Vec<Vec<u8>>> {
    let mut out: Vec<Vec<Vec<u8>>> = vec![];
    let mut take = |n: &ParsedName<&[u8]>| out.push(labels_of_wire(n.to_vec().as_slice()));
    use AllRecordData as D;
    match d {
        D::Cname(x) => take(x.cname()),
        D::Ns(x) => take(x.nsdname()),
        D::Ptr(x) => take(x.ptrdname()),
        D::Mb(x) => take(x.madname()),
        D::Md(x) => take(x.madname()),
        D::Mf(x) => take(x.madname()),
        D::Mg(x) => take(x.madname()),
        D::Mr(x) => take(x.newname()),
        D::Dname(x) => take(x.dname()),
        D::Mx(x) => take(x.exchange()),
        D::Minfo(x) => {
            take(x.rmailbx());
            take(x.emailbx())
        }
        D::Rp(x) => {
            take(x.mbox());
            take(x.txt())
        }
        D::Soa(x) => {
            take(x.mname());
            take(x.rname())
        }
        D::Srv(x) => take(x.target()),
        D::Naptr(x) => take(x.replacement()),
        D::Rrsig(x) => take(x.signer_name()),
        D::Nsec(x) => take(x.next_name()),
        D::Svcb(x) => take(x.target()),
        D::Https(x) => take(x.target()),
        D::Tsig(x) => take(x.algorithm()),
        D::Ipseckey(x) => {
            if let IpseckeyGateway::Name(n) = x.gateway() {
                take(n)
            }
        }
        _ => {}
    }
    out
}

//----------------------------------------------------------------------------
// relative carriers (the left parts of chains) on their own

pub trait RelVisitor {
    type Out;
    fn visit<N>(self, mk: &dyn Fn(&Value) -> N) -> Self::Out
    where
        N: ToRelativeName + Clone + 'static;
}
pub fn with_rel<V: RelVisitor>(t: &Value, v: V) -> Result<V::Out, String> {
    Ok(match shape(t).as_str() {
        "r:vec" => v.visit(&r_vec),
        "r:bytes" => v.visit(&r_bytes),
        "r:slice" => v.visit(&r_slice),
        "rc(r:vec,r:vec)" => v.visit(&|t: &Value| c(r_vec(&t[1]).chain(r_vec(&t[2])))),
        "rc(r:vec,r:bytes)" => v.visit(&|t: &Value| c(r_vec(&t[1]).chain(r_bytes(&t[2])))),
        "rc(rc(r:vec,r:vec),r:vec)" => v.visit(&|t: &Value| {
            c(c(r_vec(&t[1][1]).chain(r_vec(&t[1][2]))).chain(r_vec(&t[2])))
        }),
        "&r:vec" => v.visit(&|t: &Value| leak(r_vec(&t[1]))),
        "&rc(r:vec,r:vec)" => {
            v.visit(&|t: &Value| leak(c(r_vec(&t[1][1]).chain(r_vec(&t[1][2])))))
        }
        other => return Err(format!("unsupported relative carrier shape {other}")),
    })
}

fn rel_compose<N: ToRelativeName + ?Sized>(n: &N, canon: bool) -> Vec<u8> {
    let mut v = vec![];
    if canon {
        n.compose_canonical(&mut v).unwrap();
    } else {
        n.compose(&mut v).unwrap();
    }
    v
}

fn unary_rel<N: ToRelativeName + Clone>(n: &N, what: &str, ag: &mut Agree) {
    ag.put("compose", json!(rel_compose(n, false)), &format!("{what}: compose"));
    ag.put(
        "compose",
        json!(n.to_relative_name::<Vec<u8>>().as_slice()),
        &format!("{what}: to_relative_name"),
    );
    ag.put("compose", json!(ToRelativeName::to_vec(n).as_slice()), &format!("{what}: to_vec"));
    ag.put("compose", json!(ToRelativeName::to_bytes(n).as_slice()), &format!("{what}: to_bytes"));
    ag.put("compose", json!(ToRelativeName::to_cow(n).as_slice()), &format!("{what}: to_cow"));
    match n.try_to_relative_name::<Array<255>>() {
        Ok(a) => ag.put("compose", json!(a.as_slice()), &format!("{what}: try_to_relative_name<Array>")),
        Err(_) => ag.issues.push(format!("{what}: try_to_relative_name<Array<255>> failed")),
    }
    if let Some(s) = ToRelativeName::as_flat_slice(n) {
        ag.put("compose", json!(s), &format!("{what}: as_flat_slice"));
    }
    ag.put("compose", json!(rel_compose(&n, false)), &format!("{what}: (&n).compose"));
    ag.put("canon", json!(rel_compose(n, true)), &format!("{what}: compose_canonical"));
    ag.put(
        "canon",
        json!(n.to_canonical_relative_name::<Vec<u8>>().as_slice()),
        &format!("{what}: to_canonical_relative_name"),
    );
    ag.put("canon", json!(rel_compose(&n, true)), &format!("{what}: (&n).compose_canonical"));
    ag.put("len", json!(n.compose_len()), &format!("{what}: compose_len"));
    let fwd: Vec<Vec<u8>> = n.iter_labels().map(|l| l.as_slice().to_vec()).collect();
    let mut back: Vec<Vec<u8>> = n.iter_labels().rev().map(|l| l.as_slice().to_vec()).collect();
    back.reverse();
    ag.put("labels", json!(fwd), &format!("{what}: iter_labels"));
    ag.put("labels", json!(back), &format!("{what}: iter_labels reversed"));
    ag.put("is_empty", json!(n.is_empty()), &format!("{what}: is_empty"));
    // made absolute
    let abs = n.clone().chain_root();
    ag.put("with_root", json!(compose_of(&abs)), &format!("{what}: chain_root().compose"));
    if canon_of(&abs) != [&rel_compose(n, true)[..], &[0]].concat() {
        ag.issues.push(format!("{what}: chain_root().compose_canonical is not compose_canonical + root"));
    }
    if let Ok(ch) = n.clone().chain(Name::root_vec()) {
        ag.put("with_root", json!(compose_of(&ch)), &format!("{what}: chain(root).compose"));
    }
    // against the flat forms of the same relative name
    let wire = rel_compose(n, false);
    if let Ok(flat) = RelativeName::from_octets(wire.clone()) {
        let lower: RelativeName<Vec<u8>> =
            RelativeName::from_octets(wire.iter().map(|b| b.to_ascii_lowercase()).collect()).unwrap();
        let upper: RelativeName<Vec<u8>> =
            RelativeName::from_octets(wire.iter().map(|b| b.to_ascii_uppercase()).collect()).unwrap();
        for (o, w) in [(&flat, "same spelling"), (&lower, "lower case"), (&upper, "upper case")] {
            if !ToRelativeName::name_eq(n, o) || !ToRelativeName::name_eq(o, n) {
                ag.issues.push(format!("{what}: not name_eq to the flat relative name ({w})"));
            }
            if ToRelativeName::name_cmp(n, o) != Ordering::Equal
                || ToRelativeName::name_cmp(o, n) != Ordering::Equal
            {
                ag.issues.push(format!("{what}: name_cmp with the flat relative name ({w}) not Equal"));
            }
        }
        if rel_compose(&lower, true) != rel_compose(n, true) {
            ag.issues.push(format!("{what}: canonical form differs from that of the flat lower-case name"));
        }
    } else {
        ag.issues.push(format!("{what}: composes to octets that are no relative name"));
    }
}
struct UnaryRel<'a> {
    t: &'a Value,
}
impl RelVisitor for UnaryRel<'_> {
    type Out = Value;
    fn visit<N: ToRelativeName + Clone + 'static>(self, mk: &dyn Fn(&Value) -> N) -> Value {
        let n = mk(self.t);
        let mut ag = Agree::new();
        unary_rel(&n, &shape(self.t), &mut ag);
        ag.finish()
    }
}
pub fn observe_rel_carrier(t: &Value) -> Value {
    match with_rel(t, UnaryRel { t }) {
        Ok(v) => v,
        Err(e) => json!({"bad_case": e}),
    }
}
/// a random relative carrier term with these labels
pub fn random_rel_carrier(rng: &mut Rng, labels: &[Vec<u8>]) -> Value {
    let n = labels.len();
    let (mut j, mut k) = (rng.below(n as u64 + 1) as usize, rng.below(n as u64 + 1) as usize);
    if j > k {
        std::mem::swap(&mut j, &mut k);
    }
    let rf = |o: &str, l: &[Vec<u8>]| json!(["rflat", o, l]);
    match rng.below(8) {
        0 => rf("vec", labels),
        1 => rf("bytes", labels),
        2 => rf("slice", labels),
        3 => json!(["rchain", rf("vec", &labels[..k]), rf("vec", &labels[k..])]),
        4 => json!(["rchain", rf("vec", &labels[..k]), rf("bytes", &labels[k..])]),
        5 => json!(["rchain", ["rchain", rf("vec", &labels[..j]), rf("vec", &labels[j..k])], rf("vec", &labels[k..])]),
        6 => json!(["rref", rf("vec", labels)]),
        _ => json!(["rref", ["rchain", rf("vec", &labels[..k]), rf("vec", &labels[k..])]]),
    }
}

#[allow(unused)]
fn _unused(_: &Label, _: Class, _: Ttl) {}
