//! X12: shared pieces of replay_keymat / record_keymat - real key material,
//! rendering of the symbolic key files of KeyMaterial.tla into text, the
//! digest term evaluator, and the observation of TrustAnchors::find through
//! the validator's public interface.
#![allow(dead_code)]
use bytes::Bytes;
use domain::base::iana::{Class, SecurityAlgorithm};
use domain::base::message_builder::MessageBuilder;
use domain::base::name::Name;
use domain::base::{Message, Rtype, ToName, Ttl};
use domain::crypto::sign::{generate, GenerateParams, SecretKeyBytes, SignError, SignRaw, Signature};
use domain::dnssec::validator::anchor::TrustAnchors;
use domain::dnssec::validator::context::ValidationContext;
use domain::net::client::request::{ComposeRequest, Error as ReqError, GetResponse, RequestMessage, SendRequest};
use domain::rdata::{Dnskey, A};
use domain::utils::base64;
use serde_json::{json, Value};
use std::future::Future;
use std::pin::Pin;
use std::sync::{Arc, Mutex};
use verif_harness::common::*;

pub type N = Name<Vec<u8>>;

/// labels (JSON array of arrays of octets) -> absolute name
pub fn name_of(v: &Value) -> N {
    let mut w = vec![];
    for l in v.as_array().cloned().unwrap_or_default() {
        let b = bytes_of(&l);
        w.push(b.len() as u8);
        w.extend_from_slice(&b);
    }
    w.push(0);
    Name::from_octets(w).expect("name")
}
pub fn labels_lower<T: ToName>(n: &T) -> Value {
    Value::Array(
        n.iter_labels()
            .filter(|l| !l.is_root())
            .map(|l| json_bytes(&l.as_slice().to_ascii_lowercase()))
            .collect(),
    )
}
/// presentation form of a name made of letters only
pub fn name_text(v: &Value) -> String {
    let mut s = String::new();
    for l in v.as_array().cloned().unwrap_or_default() {
        s.push_str(&String::from_utf8_lossy(&bytes_of(&l)));
        s.push('.');
    }
    if s.is_empty() {
        s.push('.');
    }
    s
}

pub fn dnskey_of(k: &Value) -> Dnskey<Vec<u8>> {
    Dnskey::new(
        k["flags"].as_u64().unwrap_or(0) as u16,
        k["proto"].as_u64().unwrap_or(3) as u8,
        SecurityAlgorithm::from_int(k["alg"].as_u64().unwrap_or(0) as u8),
        bytes_of(&k["pub"]),
    )
    .expect("dnskey")
}

/// `{"op":"oct","o":[..]}` | `{"op":"sha1"|"sha256"|"sha384","of":[t]}`
pub fn eval_term(t: &Value) -> Vec<u8> {
    match t["op"].as_str().unwrap_or("") {
        "oct" => bytes_of(&t["o"]),
        op @ ("sha1" | "sha256" | "sha384") => {
            let alg = match op {
                "sha1" => &ring::digest::SHA1_FOR_LEGACY_USE_ONLY,
                "sha256" => &ring::digest::SHA256,
                _ => &ring::digest::SHA384,
            };
            ring::digest::digest(alg, &eval_term(&t["of"][0])).as_ref().to_vec()
        }
        op => panic!("unknown term operator {op}"),
    }
}

//------------ a SignRaw that only carries a DNSKEY ------------------------------

#[derive(Debug)]
pub struct DummyKey(pub Dnskey<Vec<u8>>);
impl SignRaw for DummyKey {
    fn algorithm(&self) -> SecurityAlgorithm {
        self.0.algorithm()
    }
    fn dnskey(&self) -> Dnskey<Vec<u8>> {
        self.0.clone()
    }
    fn sign_raw(&self, _: &[u8]) -> Result<Signature, SignError> {
        Ok(Signature::Ed25519(Box::new([0u8; 64])))
    }
}

//------------ real key material --------------------------------------------------

/// One key: the private key file fields as octets, the canonical private key
/// file text (format_as_bind of the key), the public key.
pub struct Mat {
    pub alg: u8,
    pub fields: Vec<(String, Vec<u8>)>,
    pub text: String,
    pub public: Dnskey<Vec<u8>>,
}

fn repo_dir() -> String {
    std::env::var("VERIF_REPO").unwrap_or_else(|_| "/repo".to_string())
}

/// the `Name: base64` entries of a private key file text, header lines excluded
pub fn entries(text: &str) -> Vec<(String, String)> {
    text.lines()
        .filter_map(|l| l.split_once(':'))
        .map(|(k, v)| (k.trim().to_string(), v.trim().to_string()))
        .collect()
}

fn mat_from(alg: u8, text: String, public: Dnskey<Vec<u8>>) -> Mat {
    let fields = entries(&text)
        .into_iter()
        .filter(|(k, _)| k != "Private-key-format" && k != "Algorithm")
        .map(|(k, v)| (k, base64::decode::<Vec<u8>>(&v).expect("base64 written by format_as_bind")))
        .collect();
    Mat { alg, fields, text, public }
}

fn import(alg: u8, tag: u16) -> Mat {
    let base = format!("{}/test-data/dnssec-keys/Ktest.+{:03}+{:05}", repo_dir(), alg, tag);
    let sec = std::fs::read_to_string(format!("{base}.private")).expect("key file");
    let sk = SecretKeyBytes::parse_from_bind(&sec).expect("test key parses");
    let pubt = std::fs::read_to_string(format!("{base}.key")).expect("key file");
    let rec = domain::dnssec::common::parse_from_bind::<Vec<u8>>(&pubt).expect("test key parses");
    let text = sk.display_as_bind().to_string();
    mat_from(alg, text, rec.data().clone())
}

fn gen(p: GenerateParams) -> Mat {
    let alg = p.algorithm().to_int();
    let (sk, pk) = generate(&p, 257).expect("generate");
    let text = sk.display_as_bind().to_string();
    mat_from(alg, text, pk)
}

pub struct Mats(pub Vec<(u8, u8, Mat)>); // (alg, id, material)

impl Mats {
    pub fn new() -> Self {
        let mut v = vec![(8, 1, import(8, 60616)), (10, 1, import(10, 46731))];
        // "another key" for the RSA secrets: the other test key's octets
        v.push((8, 2, import(10, 46731)));
        for id in [1u8, 2] {
            v.push((13, id, gen(GenerateParams::EcdsaP256Sha256)));
            v.push((14, id, gen(GenerateParams::EcdsaP384Sha384)));
            v.push((15, id, gen(GenerateParams::Ed25519)));
        }
        // ring has no Ed448: a key file of the right shape
        let sk = SecretKeyBytes::Ed448(Box::new([0x11u8; 57]).into());
        let pk = Dnskey::new(257, 3, SecurityAlgorithm::ED448, vec![0x22u8; 57]).unwrap();
        let text = sk.display_as_bind().to_string();
        v.push((16, 1, mat_from(16, text, pk)));
        Mats(v)
    }
    pub fn get(&self, alg: u8, id: u8) -> &Mat {
        self.0.iter().find(|(a, i, _)| *a == alg && *i == id).map(|(_, _, m)| m)
            .unwrap_or_else(|| panic!("no key material for algorithm {alg} #{id}"))
    }
}

//------------ private key files --------------------------------------------------

fn alg_of_file(lines: &[Value]) -> u8 {
    for l in lines {
        if l["k"] == "alg" {
            let n = l["num"].as_u64().unwrap_or(0) as u8;
            if [8, 10, 13, 14, 15, 16].contains(&n) {
                return n;
            }
        }
    }
    15
}

/// the text of a symbolic private key file (KeyMaterial.tla section 3)
pub fn render_priv(mats: &Mats, lines: &[Value], style: &str) -> String {
    let mat = mats.get(alg_of_file(lines), 1);
    let sp = style == "spaces";
    let mut out = vec![];
    for l in lines {
        let s = match l["k"].as_str().unwrap_or("") {
            "blank" => if sp { " \t ".to_string() } else { String::new() },
            "junk" => "this line is not an entry".to_string(),
            "fmt" => format!("Private-key-format{}{}", if sp { " :   " } else { ": " }, l["v"].as_str().unwrap_or("")),
            "alg" => format!("Algorithm{}{}{}({})", if sp { "  :\t" } else { ": " }, l["num"],
                             if sp { "   " } else { " " }, l["name"].as_str().unwrap_or("")),
            "field" => {
                let name = l["name"].as_str().unwrap_or("");
                let base = mat.fields.iter().find(|(k, _)| k == name).map(|(_, v)| v.clone())
                    .unwrap_or_else(|| vec![1, 2, 3, 4, 5, 6]);
                let val = match l["v"].as_str().unwrap_or("") {
                    "key" => base64::encode_string(&base),
                    "m1" => base64::encode_string(&base[..base.len() - 1]),
                    "p1" => { let mut b = base.clone(); b.push(0); base64::encode_string(&b) }
                    "empty" => String::new(),
                    _ => "!!not*base64!!".to_string(),
                };
                format!("{}{}{}", name, if sp { "  : " } else { ": " }, val)
            }
            other => panic!("line kind {other}"),
        };
        out.push(if sp { format!("  {s}  ") } else { s });
    }
    let nl = if style == "crlf" { "\r\n" } else { "\n" };
    let mut t = out.join(nl);
    if style != "nofinal" && !out.is_empty() {
        t.push_str(nl);
    }
    t
}

/// parse_from_bind on the text: {"err":true} | {"ok":true,"alg":n,"same":bool}
/// (same: the parsed secret is the real key, octet for octet)
pub fn read_priv(mats: &Mats, text: &str) -> Value {
    match SecretKeyBytes::parse_from_bind(text) {
        Err(_) => json!({"err": true}),
        Ok(sk) => {
            let alg = sk.algorithm().to_int();
            let back = sk.display_as_bind().to_string();
            // the Debug form must not show secret octets
            let dbg = format!("{:?}", sk);
            let leaked = entries(&back).iter().any(|(k, v)| {
                !["Private-key-format", "Algorithm", "Modulus", "PublicExponent"].contains(&k.as_str())
                    && v.len() >= 8 && dbg.contains(v.as_str())
            });
            if leaked {
                return json!({"debug_shows_secret": true});
            }
            let canon = &mats.get(alg, 1).text;
            let same = entries(&back).iter().skip(2).eq(entries(canon).iter().skip(2));
            json!({"ok": true, "alg": alg, "same": same})
        }
    }
}

pub fn priv_case(mats: &Mats, lines: &[Value]) -> Value {
    let mut res: Vec<(String, Value)> = vec![];
    for style in ["lf", "crlf", "nofinal", "spaces"] {
        let text = render_priv(mats, lines, style);
        res.push((style.to_string(), read_priv(mats, &text)));
    }
    if res.iter().all(|(_, v)| *v == res[0].1) {
        res[0].1.clone()
    } else {
        json!({"styles_disagree": res.into_iter().map(|(s, v)| json!([s, v])).collect::<Vec<_>>()})
    }
}

/// RSA fields in a file of algorithm 8 use material of key 8; a file that
/// says 10 uses key 10: `same` is relative to the file's own algorithm.
pub fn symbolic_lines(mats: &Mats, alg: u8, text: &str) -> Value {
    let mat = mats.get(alg, 1);
    let mut out = vec![];
    for (k, v) in entries(text) {
        out.push(match k.as_str() {
            "Private-key-format" => json!({"k": "fmt", "v": v}),
            "Algorithm" => {
                let (n, name) = v.split_once(' ').unwrap_or((&v, ""));
                json!({"k": "alg", "num": n.parse::<u64>().unwrap_or(999),
                       "name": name.trim_start_matches('(').trim_end_matches(')')})
            }
            _ => {
                let want = mat.fields.iter().find(|(n, _)| *n == k).map(|(_, o)| base64::encode_string(o));
                json!({"k": "field", "name": k, "v": if want.as_deref() == Some(v.as_str()) { "key" } else { "other" }})
            }
        });
    }
    Value::Array(out)
}

//------------ public key files ---------------------------------------------------

pub fn pub_record_text(m: &Mat) -> String {
    format!("test. IN DNSKEY {} 3 {} {}", m.public.flags(), m.alg, base64::encode_string(m.public.public_key()))
}

pub fn render_pub(m: &Mat, syms: &[Value], style: &str) -> String {
    let mut t = String::new();
    for s in syms {
        match s.as_str().unwrap_or("") {
            "R" => t.push_str(&pub_record_text(m)),
            "N" => t.push_str(if style == "crlf" { "\r\n" } else { "\n" }),
            "S" => t.push(if style == "tab" { '\t' } else { ' ' }),
            "C" => t.push(';'),
            "X" => t.push_str(" x "),
            o => panic!("symbol {o}"),
        }
    }
    t
}

pub fn read_pub(m: &Mat, text: &str) -> Value {
    match domain::dnssec::common::parse_from_bind::<Vec<u8>>(text) {
        Err(_) => json!({"ok": false}),
        Ok(rec) => {
            if *rec.data() == m.public && format!("{}", rec.owner()) == "test" && rec.class() == Class::IN {
                json!({"ok": true})
            } else {
                json!({"ok": true, "wrong_record": format!("{}", rec)})
            }
        }
    }
}

pub fn pub_case(m: &Mat, syms: &[Value]) -> Value {
    let res: Vec<Value> = ["lf", "crlf", "tab"].iter().map(|s| read_pub(m, &render_pub(m, syms, s))).collect();
    if res.iter().all(|v| *v == res[0]) {
        res[0].clone()
    } else {
        json!({"styles_disagree": res})
    }
}

//------------ trust anchors -------------------------------------------------------

/// an upstream that logs the questions it is asked and fails
#[derive(Clone)]
pub struct LogUpstream(pub Arc<Mutex<Vec<(N, Rtype)>>>);

#[derive(Debug)]
struct Fail;
impl GetResponse for Fail {
    fn get_response(
        &mut self,
    ) -> Pin<Box<dyn Future<Output = Result<Message<Bytes>, ReqError>> + Send + Sync + '_>> {
        Box::pin(async { Err(ReqError::ConnectionClosed) })
    }
}
impl<Octs: AsRef<[u8]> + Clone + std::fmt::Debug + Send + Sync + 'static + domain::dep::octseq::Octets>
    SendRequest<RequestMessage<Octs>> for LogUpstream
{
    fn send_request(&self, req: RequestMessage<Octs>) -> Box<dyn GetResponse + Send + Sync> {
        if let Ok(m) = req.to_message() {
            if let Ok(q) = m.sole_question() {
                self.0.lock().unwrap().push((q.qname().to_name(), q.qtype()));
            }
        }
        Box::new(Fail)
    }
}

pub fn anchor_line(r: &Value) -> String {
    let id = r["id"].as_u64().unwrap_or(0);
    if r["kind"] == "DS" {
        format!("{} IN DS {} 8 2 {:064X}", name_text(&r["owner"]), id, id)
    } else {
        format!("{} IN DNSKEY 257 3 15 {}", name_text(&r["owner"]), base64::encode_string(&[id as u8; 32]))
    }
}

/// The anchor the validator uses for `name`: the owner of its first fetch
/// (the DNSKEY RRset of the anchor), or none when it fetches nothing.
pub fn find_via_validator(rt: &tokio::runtime::Runtime, ta: TrustAnchors, name: &N) -> Value {
    let log = Arc::new(Mutex::new(vec![]));
    let up = LogUpstream(log.clone());
    let vc = ValidationContext::new(ta, up);
    let mut mb = MessageBuilder::new_vec();
    mb.header_mut().set_qr(true);
    let mut q = mb.question();
    q.push((name, Rtype::A)).expect("question");
    let mut a = q.answer();
    a.push((name, Class::IN, Ttl::from_secs(60), A::from_octets(192, 0, 2, 1))).expect("answer");
    let mut msg = Message::from_octets(Bytes::from(a.finish())).expect("message");
    let r = rt.block_on(async {
        tokio::time::timeout(std::time::Duration::from_secs(5), vc.validate_msg::<Bytes, Vec<u8>>(&mut msg)).await
    });
    if r.is_err() {
        return json!({"hang": true});
    }
    let l = log.lock().unwrap();
    match l.first() {
        None => json!({"none": true}),
        Some((n, Rtype::DNSKEY)) => json!({"owner": labels_lower(n)}),
        Some((n, t)) => json!({"unexpected_first_fetch": format!("{n} {t}")}),
    }
}

/// replay the add_u8 calls; Err(i): call i was refused
pub fn anchors_from(calls: &[Vec<String>]) -> Result<TrustAnchors, usize> {
    let mut ta = TrustAnchors::empty();
    for (i, c) in calls.iter().enumerate() {
        ta.add_u8(c.join("\n").as_bytes()).map_err(|_| i)?;
    }
    Ok(ta)
}
