//! X13 - concurrent validations on one shared `ValidationContext`
//! (spec/ValidatorConc.tla).
//!
//! Reuses the really signed hierarchy of C14 (`validator.rs`: `World`,
//! `apply`, `sign_set`, the interposed clock).  New here: an upstream that
//! knows which validation issued a fetch, records every fetch / completion
//! under one lock with a global sequence number, applies a rewrite chosen per
//! (validation, fetch), and either holds each fetch at a GATE until the
//! schedule releases it (S->I: deterministic interleavings on one thread) or
//! completes it after a short random delay (I->S: real threads).
//!
//! Time: one model half-unit is 50 s.  `tick` moves both clocks by 100 s, a
//! "Short" signature expires 150 s after it was served, max_bogus_validity is
//! 150 s, everything else lives for an hour or more.

#![allow(dead_code)]

use crate::validator::*;
use bytes::Bytes;
use domain::base::{Message, Rtype};
use domain::dnssec::validator::context::{Config as VConfig, ValidationContext, ValidationState};
use domain::net::client::request::{
    ComposeRequest, Error as ReqError, GetResponse, RequestMessage, SendRequest,
};
use domain::rdata::dnssec::Timestamp;
use serde_json::{json, Value};
use std::cell::Cell;
use std::collections::HashMap;
use std::future::Future;
use std::pin::Pin;
use std::sync::{Arc, Mutex};
use std::task::{Context, Poll};

pub const TICK_S: i64 = 100;
pub const SHORT_S: u32 = 150;
pub const BOGUS_S: u64 = 150;

thread_local! {
    /// the validation (slot) whose future is being polled on this thread
    pub static CURVID: Cell<usize> = const { Cell::new(0) };
}

pub fn question_of(w: &World, q: &str) -> (N, Rtype) {
    let z = w.zone(q);
    let label = if q == "tld" { "a" } else { "www" };
    let name = if z.apex.is_root() { nm(&format!("{}.", label)) } else { nm(&format!("{}.{}", label, z.apex)) };
    (name, Rtype::A)
}

/// the role of the RRset a rewrite of kind `k` acts on, in an answer to (t, z)
fn role_for(resp: &Resp) -> String {
    for r in ["ans", "nd", "nx", "ce"] {
        if resp.sets.iter().any(|s| s.role == r && !s.sigs.is_empty()) {
            return r.to_string();
        }
    }
    "ans".to_string()
}

/// Apply the rewrite `k` of ValidatorConc.tla to a response, at the current
/// (shifted) time.
pub fn rewrite(w: &World, resp: &mut Resp, t: &str, z: &str, k: &str) {
    let role = role_for(resp);
    let step = |act: &str| AdvStep { act: act.to_string(), t: t.to_string(), z: z.to_string(), role: role.clone() };
    match k {
        "none" => {}
        "Short" => {
            // an honest signature with 150 s of validity left
            if let Some(i) = resp.sets.iter().position(|s| s.role == role) {
                let signer = resp.sets[i].sigs.iter().find_map(|s| match s.data() {
                    D::Rrsig(r) => Some(r.signer_name().clone()),
                    _ => None,
                });
                if let Some(zone) = signer.and_then(|n| w.zone_by_apex(&n)) {
                    let now = Timestamp::now().into_int();
                    let sig = sign_set(zone.key.as_ref().unwrap(), &resp.sets[i].recs, now - 3600, now + SHORT_S);
                    resp.sets[i].sigs = vec![sig];
                }
            }
        }
        "Expire" => apply(w, resp, &step("Expire")),
        "BadSig" => {
            if t == "ANS" {
                apply(w, resp, &step("ReplaceRdata"))
            } else {
                apply(w, resp, &step("CorruptSigOctets"))
            }
        }
        "Empty" => apply(w, resp, &step("ZeroCounts")),
        "AdvKey" => apply(w, resp, &step("CorruptKey")),
        "Forge" => apply(w, resp, &step("ForgeSigned")),
        other => panic!("rewrite kind {}", other),
    }
}

pub fn answer_msg(w: &World, q: &str, k: &str) -> Message<Bytes> {
    let (qname, qtype) = question_of(w, q);
    let mut resp = w.answer(&qname, qtype);
    rewrite(w, &mut resp, "ANS", q, k);
    resp.to_message(&qname, qtype)
}

pub struct Pending {
    pub qname: N,
    pub qtype: Rtype,
    pub t: String,
    pub z: String,
    pub id: u16,
    /// the (rewritten) response decided so far; None: the honest one
    pub resp: Option<Message<Bytes>>,
    pub released: bool,
}

pub struct Shared {
    pub events: Vec<Value>,
    pub ticks: i64,
    pub pending: HashMap<usize, Pending>,
    pub nfetch: usize,
    /// free-running mode: validations that are between a `start` / `recv` and
    /// their next `issue` / `done` (computing, not waiting for the upstream).
    /// The clock thread ticks only while this is 0: the validator reads the
    /// clocks several times within one computation, and a clock step between
    /// two such reads is an effect no specification of the walk can name.
    pub computing: i64,
}

impl Shared {
    pub fn new() -> Self {
        Shared { events: Vec::new(), ticks: 0, pending: HashMap::new(), nfetch: 0, computing: 0 }
    }
}

/// how a fetch completes when nobody gates it: the rewrite for fetch number n
/// of validation i, and a delay in microseconds
pub type Chooser = Arc<dyn Fn(usize, &str, &str, usize) -> (String, u64) + Send + Sync>;

#[derive(Clone)]
pub struct Upstream {
    pub world: Arc<World>,
    pub sh: Arc<Mutex<Shared>>,
    /// None: gated (S->I); Some: free-running (I->S)
    pub free: Option<Chooser>,
}

fn with_id(m: Message<Bytes>, id: u16) -> Message<Bytes> {
    let mut v = m.as_slice().to_vec();
    v[0] = (id >> 8) as u8;
    v[1] = id as u8;
    Message::from_octets(Bytes::from(v)).unwrap()
}

pub fn fetch_response(w: &World, qname: &N, qtype: Rtype, t: &str, z: &str, k: &str) -> Message<Bytes> {
    let mut resp = w.answer(qname, qtype);
    rewrite(w, &mut resp, t, z, k);
    resp.to_message(qname, qtype)
}

struct Gate {
    up: Upstream,
    vid: usize,
    delay_us: u64,
}

impl std::fmt::Debug for Gate {
    fn fmt(&self, f: &mut std::fmt::Formatter<'_>) -> std::fmt::Result {
        write!(f, "Gate({})", self.vid)
    }
}

struct GateFut<'a> {
    g: &'a Gate,
    slept: bool,
}

impl Future for GateFut<'_> {
    type Output = Result<Message<Bytes>, ReqError>;
    fn poll(mut self: Pin<&mut Self>, _cx: &mut Context<'_>) -> Poll<Self::Output> {
        let g = self.g;
        if g.up.free.is_some() && !self.slept {
            // free-running: a short real delay so that validations overlap
            self.slept = true;
            if g.delay_us > 0 {
                std::thread::sleep(std::time::Duration::from_micros(g.delay_us));
            } else {
                std::thread::yield_now();
            }
        }
        let mut sh = g.up.sh.lock().unwrap();
        let ready = match sh.pending.get(&g.vid) {
            None => return Poll::Ready(Err(ReqError::ConnectionClosed)),
            Some(p) => p.released || g.up.free.is_some(),
        };
        if !ready {
            return Poll::Pending;
        }
        let p = sh.pending.remove(&g.vid).unwrap();
        if g.up.free.is_some() {
            sh.events.push(json!({"ev": "recv", "i": g.vid}));
            sh.computing += 1;
        }
        let m = match p.resp {
            Some(m) => m,
            None => fetch_response(&g.up.world, &p.qname, p.qtype, &p.t, &p.z, "none"),
        };
        Poll::Ready(Ok(with_id(m, p.id)))
    }
}

impl GetResponse for Gate {
    fn get_response(
        &mut self,
    ) -> Pin<Box<dyn Future<Output = Result<Message<Bytes>, ReqError>> + Send + Sync + '_>> {
        Box::pin(GateFut { g: self, slept: false })
    }
}

impl<Octs> SendRequest<RequestMessage<Octs>> for Upstream
where
    Octs: AsRef<[u8]> + Clone + std::fmt::Debug + Send + Sync + 'static + domain::dep::octseq::Octets,
{
    fn send_request(&self, req: RequestMessage<Octs>) -> Box<dyn GetResponse + Send + Sync> {
        let vid = CURVID.with(|c| c.get());
        let m = req.to_message().expect("request");
        let q = m.sole_question().expect("question");
        let qname: N = domain::base::name::ToName::to_name(q.qname());
        let qtype = q.qtype();
        let t = format!("{}", qtype);
        let z = match self.world.zone_by_apex(&qname) {
            Some(z) => z.id.to_string(),
            None => "name".to_string(),
        };
        let mut sh = self.sh.lock().unwrap();
        sh.nfetch += 1;
        let n = sh.nfetch;
        sh.events.push(json!({"ev": "issue", "i": vid, "t": t, "z": z}));
        sh.computing -= 1;
        let mut resp = None;
        let mut delay_us = 0;
        if let Some(ch) = &self.free {
            let (k, d) = ch(vid, &t, &z, n);
            delay_us = d;
            if k != "none" {
                // decided (and, for Short, signed) now, under the lock
                resp = Some(fetch_response(&self.world, &qname, qtype, &t, &z, &k));
                sh.events.push(json!({"ev": "adv", "i": vid, "k": k}));
            }
        }
        sh.pending.insert(vid, Pending { qname, qtype, t, z, id: m.header().id(), resp, released: false });
        Box::new(Gate { up: self.clone(), vid, delay_us })
    }
}

pub fn state_name(s: ValidationState) -> &'static str {
    match s {
        ValidationState::Secure => "Secure",
        ValidationState::Insecure => "Insecure",
        ValidationState::Bogus => "Bogus",
        ValidationState::Indeterminate => "Indeterminate",
    }
}

pub fn new_context(w: &Arc<World>, up: Upstream) -> ValidationContext<Upstream> {
    let mut c = VConfig::new();
    c.set_max_bogus_validity(std::time::Duration::from_secs(BOGUS_S));
    ValidationContext::with_config(anchors_for(w, "dnskey"), up, c)
}

pub type VFut = Pin<Box<dyn Future<Output = String>>>;

/// one validation of the answer to question q (rewritten by k) on the context
pub fn validation(ctx: Arc<ValidationContext<Upstream>>, mut msg: Message<Bytes>) -> impl Future<Output = String> {
    async move {
        match ctx.validate_msg::<Bytes, Vec<u8>>(&mut msg).await {
            Ok((st, _)) => state_name(st).to_string(),
            Err(e) => format!("error:{}", e),
        }
    }
}

/// tick: both clocks move by 100 s (call with the Shared lock held)
pub fn tick(sh: &mut Shared) {
    advance_clock(TICK_S);
    sh.ticks += 1;
}

/// the world all X13 runs use: root > tld > zone > sub, other, plain; NSEC
pub fn the_world(worlds: &mut Worlds) -> Arc<World> {
    worlds.get(Shape::Secure4, Denial::Nsec)
}
