//! X14: the IANA parameter types of domain driven through every route.
//! Shared by replay_iana (S->I) and record_iana (I->S) with
//! `#[path = "../iana.rs"] mod iana;`.
#![allow(dead_code)]
use bytes::Bytes;
use domain::base::iana::*;
use domain::base::scan::IterScanner;
use domain::base::zonefile_fmt::{DisplayKind, ZonefileFmt};
use serde_json::{json, Map, Value};
use std::collections::hash_map::DefaultHasher;
use std::hash::{Hash, Hasher};
use std::str::FromStr;
use verif_harness::common::*;

pub fn chars(s: &str) -> Value {
    Value::Array(s.chars().map(|c| json!(c as u32)).collect())
}
pub fn res(v: Option<u32>) -> Value {
    match v {
        Some(n) => json!({"ok": n}),
        None => json!({"err": true}),
    }
}
fn h<T: Hash>(v: &T) -> u64 {
    let mut s = DefaultHasher::new();
    v.hash(&mut s);
    s.finish()
}

/// One macro-generated (int_enum!) type behind a uniform interface.
pub trait Iana: Copy + Eq + Ord + Hash + std::fmt::Display + std::fmt::Debug + FromStr
    + serde::Serialize + serde::de::DeserializeOwned
{
    const MAX: u32;
    fn mk(n: u32) -> Self;
    fn int(self) -> u32;
    fn mn(self) -> Option<&'static [u8]>;
    fn from_mn(m: &[u8]) -> Option<Self>;
    fn from_by(m: &[u8]) -> Option<Self>;
    fn scan_it(tok: &str) -> Option<Self>;
    fn token(self) -> Option<String>;
}

macro_rules! iana {
    ($T:ty, $I:ty, $tok:expr) => {
        impl Iana for $T {
            const MAX: u32 = <$I>::MAX as u32;
            fn mk(n: u32) -> Self { <$T>::from_int(n as $I) }
            fn int(self) -> u32 { self.to_int() as u32 }
            fn mn(self) -> Option<&'static [u8]> {
                let a = self.to_mnemonic();
                let b = self.to_mnemonic_str().map(|s| s.as_bytes());
                assert_eq!(a, b, "to_mnemonic and to_mnemonic_str differ");
                a
            }
            fn from_mn(m: &[u8]) -> Option<Self> { <$T>::from_mnemonic(m) }
            fn from_by(m: &[u8]) -> Option<Self> { <$T>::from_bytes(m) }
            fn scan_it(tok: &str) -> Option<Self> {
                let toks = [tok.to_string()];
                let mut sc = IterScanner::<_, Bytes>::new(toks.iter());
                match <$T>::scan(&mut sc) {
                    Ok(v) if sc.is_exhausted() => Some(v),
                    _ => None,
                }
            }
            fn token(self) -> Option<String> { ($tok)(self) }
        }
    };
}
fn zf<T: ZonefileFmt>(v: T) -> Option<String> {
    Some(format!("{}", v.display_zonefile(DisplayKind::Simple)))
}
fn nozf<T>(_v: T) -> Option<String> { None }

iana!(Rtype, u16, zf::<Rtype>);
iana!(Class, u16, zf::<Class>);
iana!(SvcParamKey, u16, zf::<SvcParamKey>);
iana!(ExtendedErrorCode, u16, nozf::<ExtendedErrorCode>);
iana!(Opcode, u8, zf::<Opcode>);
iana!(OptionCode, u16, zf::<OptionCode>);
iana!(TsigRcode, u16, zf::<TsigRcode>);
iana!(SecurityAlgorithm, u8, zf::<SecurityAlgorithm>);
iana!(DigestAlgorithm, u8, zf::<DigestAlgorithm>);
iana!(Nsec3HashAlgorithm, u8, zf::<Nsec3HashAlgorithm>);
iana!(ZonemdScheme, u8, zf::<ZonemdScheme>);
iana!(ZonemdAlgorithm, u8, zf::<ZonemdAlgorithm>);
iana!(TlsaCertificateUsage, u8, zf::<TlsaCertificateUsage>);
iana!(TlsaSelector, u8, zf::<TlsaSelector>);
iana!(TlsaMatchingType, u8, zf::<TlsaMatchingType>);
iana!(SshfpAlgorithm, u8, zf::<SshfpAlgorithm>);
iana!(SshfpType, u8, zf::<SshfpType>);
iana!(IpseckeyAlgorithm, u8, zf::<IpseckeyAlgorithm>);
iana!(IpseckeyGatewayType, u8, zf::<IpseckeyGatewayType>);

/// (style, generic prefix)
pub fn style_of(ty: &str) -> (&'static str, &'static str) {
    match ty {
        "Rtype" => ("prefix", "TYPE"),
        "Class" => ("prefix", "CLASS"),
        "SvcParamKey" => ("prefix", "key"),
        "ExtendedErrorCode" => ("prefix", "EDE"),
        "Opcode" | "OptionCode" | "TsigRcode" => ("withdec", ""),
        "Rcode" | "OptRcode" => ("rcode", ""),
        "RType" => ("newdisp", "TYPE"),
        "RClass" => ("newdisp", "CLASS"),
        _ => ("decimal", ""),
    }
}

/// Dispatch on the type id of a case.
#[macro_export]
macro_rules! with_iana {
    ($ty:expr, $f:ident, $($arg:expr),*) => {
        match $ty {
            "Rtype" => Some($f::<Rtype>($($arg),*)),
            "Class" => Some($f::<Class>($($arg),*)),
            "SvcParamKey" => Some($f::<SvcParamKey>($($arg),*)),
            "ExtendedErrorCode" => Some($f::<ExtendedErrorCode>($($arg),*)),
            "Opcode" => Some($f::<Opcode>($($arg),*)),
            "OptionCode" => Some($f::<OptionCode>($($arg),*)),
            "TsigRcode" => Some($f::<TsigRcode>($($arg),*)),
            "SecurityAlgorithm" => Some($f::<SecurityAlgorithm>($($arg),*)),
            "DigestAlgorithm" => Some($f::<DigestAlgorithm>($($arg),*)),
            "Nsec3HashAlgorithm" => Some($f::<Nsec3HashAlgorithm>($($arg),*)),
            "ZonemdScheme" => Some($f::<ZonemdScheme>($($arg),*)),
            "ZonemdAlgorithm" => Some($f::<ZonemdAlgorithm>($($arg),*)),
            "TlsaCertificateUsage" => Some($f::<TlsaCertificateUsage>($($arg),*)),
            "TlsaSelector" => Some($f::<TlsaSelector>($($arg),*)),
            "TlsaMatchingType" => Some($f::<TlsaMatchingType>($($arg),*)),
            "SshfpAlgorithm" => Some($f::<SshfpAlgorithm>($($arg),*)),
            "SshfpType" => Some($f::<SshfpType>($($arg),*)),
            "IpseckeyAlgorithm" => Some($f::<IpseckeyAlgorithm>($($arg),*)),
            "IpseckeyGatewayType" => Some($f::<IpseckeyGatewayType>($($arg),*)),
            _ => None,
        }
    };
}

/// ==, Ord and Hash are those of the codes (against the neighbours and the
/// ends of the range), and a value reached by another route is the same value.
fn alg<T: Copy + Eq + Ord + Hash>(c: u32, max: u32, mk: impl Fn(u32) -> T, other: Option<T>) -> bool {
    let v = mk(c);
    let mut ok = true;
    for d in [c.wrapping_sub(1), c + 1, 0, max, c ^ 0x100, c] {
        if d > max { continue; }
        let w = mk(d);
        ok &= (v == w) == (c == d);
        ok &= v.cmp(&w) == c.cmp(&d);
        ok &= v.partial_cmp(&w) == Some(c.cmp(&d));
        if c == d { ok &= h(&v) == h(&w); }
    }
    if let Some(o) = other {
        ok &= o == v && h(&o) == h(&v);
    }
    ok
}

fn ser_json<T: serde::Serialize>(v: &T) -> Value {
    match serde_json::to_value(v) {
        Ok(Value::String(s)) => json!({"s": chars(&s)}),
        Ok(Value::Number(n)) => json!({"n": n.as_u64().unwrap_or(u64::MAX)}),
        Ok(o) => json!({"other": o}),
        Err(_) => json!({"err": true}),
    }
}

pub fn fromstr_of<T: Iana>(s: &str) -> Option<u32> { T::from_str(s).ok().map(|v| v.int()) }

/// Observation of one code of a macro type through every writer, and every
/// written form read back.
pub fn code_obs<T: Iana>(ty: &str, c: u32) -> Value {
    let (style, prefix) = style_of(ty);
    let v = T::mk(c);
    let mut o = Map::new();
    o.insert("int".into(), json!(v.int()));
    let display = format!("{}", v);
    o.insert("display".into(), chars(&display));
    let mn = v.mn().map(|m| String::from_utf8_lossy(m).to_string());
    o.insert("mn".into(), chars(mn.as_deref().unwrap_or("")));
    let token = v.token();
    if let Some(t) = &token {
        o.insert("token".into(), chars(t));
    }
    let sj = serde_json::to_value(&v).unwrap_or(Value::Null);
    o.insert("ser".into(), ser_json(&v));
    o.insert("denum".into(), json!([
        res(serde_json::from_value::<T>(json!(c)).ok().map(|v| v.int())),
        res(serde_json::from_value::<T>(json!(c as u64 + T::MAX as u64 + 1)).ok().map(|v| v.int()))]));
    let mut rt = Map::new();
    if style != "withdec" {
        let a = fromstr_of::<T>(&display);
        let b = T::from_by(display.as_bytes()).map(|v| v.int());
        let s = T::scan_it(&display).map(|v| v.int());
        rt.insert("display".into(), if a == b && (a == s || display.contains(' ')) { res(a) }
                  else { json!({"routes": [res(a), res(b), res(s)]}) });
    }
    if let Some(t) = &token {
        let a = fromstr_of::<T>(t);
        let s = T::scan_it(t).map(|v| v.int());
        let z = zone_route(ty, t);
        rt.insert("token".into(), if (a == s || t.contains(' ')) && z.map(|z| z == a).unwrap_or(true) { res(a) }
                  else { json!({"routes": [res(a), res(s), z.map(res)]}) });
    }
    rt.insert("ser".into(), res(serde_json::from_value::<T>(sj).ok().map(|v| v.int())));
    let g = format!("{}{}", prefix, c);
    rt.insert("generic".into(), res(fromstr_of::<T>(&g)));
    let mut other = T::from_str(&g).ok();
    if let Some(m) = &mn {
        let back = T::from_mn(m.as_bytes());
        rt.insert("mn".into(), res(back.map(|v| v.int())));
        other = back.or(other);
    }
    o.insert("rt".into(), Value::Object(rt));
    o.insert("alg".into(), json!(alg(c, T::MAX, T::mk, other)
        && u32::from(c <= T::MAX) == 1 && format!("{:?}", v).len() > 0));
    if ty == "Rtype" {
        o.insert("glue".into(), json!(Rtype::from_int(c as u16).is_glue()));
    }
    Value::Object(o)
}

pub fn rcode_obs(c: u32) -> Value {
    let v = match Rcode::checked_from_int(c as u8) {
        Some(v) => v,
        None => return json!({"unchecked": true}),
    };
    let display = format!("{}", v);
    let mnv = v.to_mnemonic().map(|m| String::from_utf8_lossy(m).to_string());
    let back = Rcode::from_str(&display).ok();
    let sj = serde_json::to_value(&v).unwrap_or(Value::Null);
    let de = serde_json::from_value::<Rcode>(sj).ok();
    json!({
        "int": v.to_int(),
        "alg": alg(c, 15, |n| Rcode::masked_from_int(n as u8), de)
            && Rcode::masked_from_int((c as u8) | 0xF0) == v && u8::from(v) as u32 == c
            && Rcode::try_from(c as u8).ok() == Some(v) && Rcode::checked_from_int((c as u8) | 0x10).is_none(),
        "display": chars(&display),
        "mn": chars(mnv.as_deref().unwrap_or("")),
        "ser": ser_json(&v),
        "denum": [res(serde_json::from_value::<Rcode>(json!(c)).ok().map(|v| v.to_int() as u32)),
                  res(serde_json::from_value::<Rcode>(json!(c + 16)).ok().map(|v| v.to_int() as u32))],
        "rt": {"display": res(back.map(|v| v.to_int() as u32))},
        "opt": OptRcode::from(v).to_int(),
        "tsig": TsigRcode::from(v).to_int(),
    })
}

pub fn optrcode_obs(c: u32) -> Value {
    let v = match OptRcode::checked_from_int(c as u16) {
        Some(v) => v,
        None => return json!({"unchecked": true}),
    };
    let display = format!("{}", v);
    let mnv = v.to_mnemonic().map(|m| String::from_utf8_lossy(m).to_string());
    let back = OptRcode::from_str(&display).ok();
    let (lo, hi) = v.to_parts();
    json!({
        "int": v.to_int(),
        "alg": alg(c, 4095, |n| OptRcode::masked_from_int(n as u16), Some(OptRcode::from_parts(lo, hi)))
            && u16::from(v) as u32 == c && OptRcode::try_from(c as u16).ok() == Some(v),
        "display": chars(&display),
        "mn": chars(mnv.as_deref().unwrap_or("")),
        "rt": {"display": res(back.map(|v| v.to_int() as u32))},
        "tsig": TsigRcode::from(v).to_int(),
        "parts": [v.rcode().to_int(), v.ext(), v.is_ext()],
    })
}

pub fn new_obs(ty: &str, c: u32) -> Value {
    use domain::new::base::{RClass, RType};
    match ty {
        "RType" => {
            let v = RType::from(c as u16);
            json!({"int": u16::from(v), "alg": alg(c, 65535, |n| RType::from(n as u16), None) && v.code.get() as u32 == c,
                   "display": chars(&format!("{}", v)), "lower": v.uses_lowercase_canonical_form()})
        }
        _ => {
            let v = RClass::from(c as u16);
            json!({"int": u16::from(v), "alg": alg(c, 65535, |n| RClass::from(n as u16), None) && v.code.get() as u32 == c,
                   "display": chars(&format!("{}", v))})
        }
    }
}

/// Observation of one text through every reader of a macro type.
pub fn text_obs<T: Iana>(ty: &str, s: &str) -> Value {
    let (style, _) = style_of(ty);
    let a = fromstr_of::<T>(s);
    let b = T::from_by(s.as_bytes()).map(|v| v.int());
    let sc = T::scan_it(s).map(|v| v.int());
    let z = zone_route(ty, s);
    let mut o = Map::new();
    o.insert("fromstr".into(), res(a));
    // from_bytes reads mnemonic-or-generic for every style but "decimal", where it is the number only
    if a != b || a != sc || z.map(|z| z != a).unwrap_or(false) {
        o.insert("routes".into(), json!({"from_str": res(a), "from_bytes": res(b), "scan": res(sc), "zone": z.map(res)}));
    }
    o.insert("mn".into(), res(T::from_mn(s.as_bytes()).map(|v| v.int())));
    let _ = style;
    o.insert("de".into(), res(serde_json::from_value::<T>(Value::String(s.to_string())).ok().map(|v| v.int())));
    Value::Object(o)
}

pub fn rcode_text_obs(ty: &str, s: &str) -> Value {
    let r = if ty == "Rcode" { Rcode::from_str(s).ok().map(|v| v.to_int() as u32) }
            else { OptRcode::from_str(s).ok().map(|v| v.to_int() as u32) };
    json!({"fromstr": res(r)})
}

// ---- the zone-file reader as a route --------------------------------------
fn benign(s: &str) -> bool {
    !s.is_empty() && s.chars().all(|c| c.is_ascii_alphanumeric() || c == '-' || c == '+' || c == '*')
}

/// Reads `text` in the position of a value of type `ty` inside a record line
/// with the real zone-file reader; None where no such position is used.
pub fn zone_route(ty: &str, text: &str) -> Option<Option<u32>> {
    if !benign(text) {
        return None;
    }
    let line = match ty {
        "Rtype" => format!("n. 3600 IN NSEC n. {}\n", text),
        "Class" => format!("n. 3600 {} NSEC n. TYPE65280\n", text),
        "SecurityAlgorithm" => format!("n. 3600 IN DS 1 {} 250 AA\n", text),
        "DigestAlgorithm" => format!("n. 3600 IN DS 1 250 {} AA\n", text),
        "Nsec3HashAlgorithm" => format!("n. 3600 IN NSEC3PARAM {} 0 0 -\n", text),
        "TlsaCertificateUsage" => format!("n. 3600 IN TLSA {} 9 9 AA\n", text),
        "TlsaSelector" => format!("n. 3600 IN TLSA 9 {} 9 AA\n", text),
        "TlsaMatchingType" => format!("n. 3600 IN TLSA 9 9 {} AA\n", text),
        "SshfpAlgorithm" => format!("n. 3600 IN SSHFP {} 9 AA\n", text),
        "SshfpType" => format!("n. 3600 IN SSHFP 9 {} AA\n", text),
        _ => return None,
    };
    let opts = crate::zf::ReadOpts { origin: None, default_class: None, allow_invalid: false };
    let (entries, err) = crate::zf::read_all_raw(line.as_bytes(), &opts);
    if err.is_some() || entries.len() != 1 {
        return Some(None);
    }
    let e = &entries[0];
    let rd = bytes_of(&e["rdata"]);
    let at = |i: usize| rd.get(i).map(|b| *b as u32);
    Some(match ty {
        "Class" => e["class"].as_u64().map(|c| c as u32),
        "Rtype" => {
            // next name "n." = 01 6e 00, then one window: window, length, bits
            if rd.len() < 6 { None } else {
                let win = rd[3] as u32;
                let bits = &rd[5..];
                let mut found = None;
                for (i, b) in bits.iter().enumerate() {
                    for k in 0..8 {
                        if b & (0x80 >> k) != 0 { found = Some(win * 256 + (i as u32) * 8 + k); }
                    }
                }
                found
            }
        }
        "SecurityAlgorithm" => at(2),
        "DigestAlgorithm" => at(3),
        "Nsec3HashAlgorithm" => at(0),
        "TlsaCertificateUsage" => at(0),
        "TlsaSelector" => at(1),
        "TlsaMatchingType" => at(2),
        "SshfpAlgorithm" => at(0),
        "SshfpType" => at(1),
        _ => None,
    })
}

// ---- named constants --------------------------------------------------------
pub fn const_of(ty: &str, name: &str) -> Option<u32> {
    use domain::new::base::{RClass, RType};
    use domain::new::edns::{ExtErrorCode, OptionCode as NOptionCode};
    use domain::new::rdata::{DigestType, SecAlg, ZoneMDHashAlg, ZoneMDScheme};
    macro_rules! tab {
        ($n:expr; $($id:ident => $v:expr),* $(,)?) => {
            match $n { $(stringify!($id) => Some(($v) as u32),)* _ => None }
        };
    }
    match ty {
        "Rcode" => tab!(name; NOERROR => Rcode::NOERROR.to_int(), FORMERR => Rcode::FORMERR.to_int(),
            SERVFAIL => Rcode::SERVFAIL.to_int(), NXDOMAIN => Rcode::NXDOMAIN.to_int(), NOTIMP => Rcode::NOTIMP.to_int(),
            REFUSED => Rcode::REFUSED.to_int(), YXDOMAIN => Rcode::YXDOMAIN.to_int(), YXRRSET => Rcode::YXRRSET.to_int(),
            NXRRSET => Rcode::NXRRSET.to_int(), NOTAUTH => Rcode::NOTAUTH.to_int(), NOTZONE => Rcode::NOTZONE.to_int()),
        "OptRcode" => tab!(name; NOERROR => OptRcode::NOERROR.to_int(), FORMERR => OptRcode::FORMERR.to_int(),
            SERVFAIL => OptRcode::SERVFAIL.to_int(), NXDOMAIN => OptRcode::NXDOMAIN.to_int(), NOTIMP => OptRcode::NOTIMP.to_int(),
            REFUSED => OptRcode::REFUSED.to_int(), YXDOMAIN => OptRcode::YXDOMAIN.to_int(), YXRRSET => OptRcode::YXRRSET.to_int(),
            NXRRSET => OptRcode::NXRRSET.to_int(), NOTAUTH => OptRcode::NOTAUTH.to_int(), NOTZONE => OptRcode::NOTZONE.to_int(),
            BADVERS => OptRcode::BADVERS.to_int(), BADCOOKIE => OptRcode::BADCOOKIE.to_int()),
        "RClass" => tab!(name; IN => u16::from(RClass::IN), CH => u16::from(RClass::CH)),
        "RType" => tab!(name; A => u16::from(RType::A), NS => u16::from(RType::NS), CNAME => u16::from(RType::CNAME),
            SOA => u16::from(RType::SOA), PTR => u16::from(RType::PTR), HINFO => u16::from(RType::HINFO),
            MX => u16::from(RType::MX), TXT => u16::from(RType::TXT), RP => u16::from(RType::RP),
            AAAA => u16::from(RType::AAAA), SRV => u16::from(RType::SRV), DNAME => u16::from(RType::DNAME),
            OPT => u16::from(RType::OPT), DS => u16::from(RType::DS), RRSIG => u16::from(RType::RRSIG),
            NSEC => u16::from(RType::NSEC), DNSKEY => u16::from(RType::DNSKEY), NSEC3 => u16::from(RType::NSEC3),
            NSEC3PARAM => u16::from(RType::NSEC3PARAM), CDS => u16::from(RType::CDS), CDNSKEY => u16::from(RType::CDNSKEY),
            ZONEMD => u16::from(RType::ZONEMD), TSIG => u16::from(RType::TSIG)),
        "new.OptionCode" => tab!(name; COOKIE => NOptionCode::COOKIE.code.get(), EXT_ERROR => NOptionCode::EXT_ERROR.code.get()),
        "new.SecAlg" => tab!(name; DSA_SHA1 => SecAlg::DSA_SHA1.code, RSA_SHA1 => SecAlg::RSA_SHA1.code),
        "new.DigestType" => tab!(name; SHA1 => DigestType::SHA1.code),
        "new.Nsec3HashAlgorithm" => tab!(name; SHA1 => domain::new::rdata::Nsec3HashAlgorithm::SHA1.code),
        "new.ZoneMDScheme" => tab!(name; SIMPLE => ZoneMDScheme::SIMPLE.code),
        "new.ZoneMDHashAlg" => tab!(name; SHA384 => ZoneMDHashAlg::SHA384.code, SHA512 => ZoneMDHashAlg::SHA512.code),
        "new.ExtErrorCode" => {
            let r = tab!(name; OTHER => ExtErrorCode::OTHER.code.get(), BAD_DNSKEY_ALG => ExtErrorCode::BAD_DNSKEY_ALG.code.get(),
            BAD_DS_ALG => ExtErrorCode::BAD_DS_ALG.code.get(), STALE_ANSWER => ExtErrorCode::STALE_ANSWER.code.get(),
            FORGED_ANSWER => ExtErrorCode::FORGED_ANSWER.code.get(), DNSSEC_INDETERMINATE => ExtErrorCode::DNSSEC_INDETERMINATE.code.get(),
            DNSSEC_BOGUS => ExtErrorCode::DNSSEC_BOGUS.code.get(), SIG_EXPIRED => ExtErrorCode::SIG_EXPIRED.code.get(),
            SIG_FUTURE => ExtErrorCode::SIG_FUTURE.code.get(), DNSKEY_MISSING => ExtErrorCode::DNSKEY_MISSING.code.get(),
            RRSIGS_MISSING => ExtErrorCode::RRSIGS_MISSING.code.get(), NOT_ZSK => ExtErrorCode::NOT_ZSK.code.get(),
            NSEC_MISSING => ExtErrorCode::NSEC_MISSING.code.get(), CACHED_ERROR => ExtErrorCode::CACHED_ERROR.code.get(),
            NOT_READY => ExtErrorCode::NOT_READY.code.get(), BLOCKED => ExtErrorCode::BLOCKED.code.get(),
            CENSORED => ExtErrorCode::CENSORED.code.get(), FILTERED => ExtErrorCode::FILTERED.code.get(),
            PROHIBITED => ExtErrorCode::PROHIBITED.code.get(), NOT_AUTHORITATIVE => ExtErrorCode::NOT_AUTHORITATIVE.code.get(),
            NOT_SUPPORTED => ExtErrorCode::NOT_SUPPORTED.code.get(), NO_REACHABLE_AUTHORITY => ExtErrorCode::NO_REACHABLE_AUTHORITY.code.get(),
            NETWORK_ERROR => ExtErrorCode::NETWORK_ERROR.code.get(), INVALID_DATA => ExtErrorCode::INVALID_DATA.code.get(),
            TOO_EARLY => ExtErrorCode::TOO_EARLY.code.get(), BAD_NSEC3_ITERS => ExtErrorCode::BAD_NSEC3_ITERS.code.get());
            // is_private is a function of the code (RFC 8914 5.2)
            for c in [0u16, 49151, 49152, 65535] {
                assert_eq!(ExtErrorCode::from_code_for_test(c), c >= 49152);
            }
            r
        }
        _ => None,
    }
}

trait EdePrivate { fn from_code_for_test(c: u16) -> bool; }
impl EdePrivate for domain::new::edns::ExtErrorCode {
    fn from_code_for_test(c: u16) -> bool {
        let mut v = domain::new::edns::ExtErrorCode::OTHER;
        v.code = domain::new::base::wire::U16::new(c);
        v.is_private()
    }
}
