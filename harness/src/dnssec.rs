//! Shared helpers of the DNSSEC executors/recorders (C12, C13): JSON <-> wire
//! conversion, building library records from wire, the symbolic-crypto term
//! evaluator (`ring::digest` only), and a recording `SignRaw` key.
#![allow(dead_code)]

use bytes::Bytes;
use domain::base::iana::{Class, Rtype, SecurityAlgorithm};
use domain::base::message::Message;
use domain::base::message_builder::{MessageBuilder, TreeCompressor};
use domain::base::name::{FlattenInto, Name, ParsedName, ToName};
use domain::base::{Record, Ttl};
use domain::crypto::sign::{SignError, SignRaw, Signature};
use domain::rdata::{Dnskey, ZoneRecordData};
use serde_json::{json, Value};
use std::sync::Mutex;

pub type SName = Name<Bytes>;
pub type SData = ZoneRecordData<Bytes, SName>;
pub type SRecord = Record<SName, SData>;

//------------ JSON -> wire ----------------------------------------------------

pub fn bytes_of(v: &Value) -> Vec<u8> {
    v.as_array()
        .map(|a| a.iter().map(|x| x.as_u64().unwrap_or(0) as u8).collect())
        .unwrap_or_default()
}

pub fn jbytes(b: &[u8]) -> Value {
    Value::Array(b.iter().map(|x| json!(*x)).collect())
}

/// `[[l1 octets], [l2 octets], ...]` (root implicit) -> uncompressed wire
pub fn name_wire(v: &Value) -> Vec<u8> {
    let mut out = vec![];
    if let Some(a) = v.as_array() {
        for l in a {
            let l = bytes_of(l);
            out.push(l.len() as u8);
            out.extend_from_slice(&l);
        }
    }
    out.push(0);
    out
}

pub fn name_of(v: &Value) -> SName {
    Name::from_octets(Bytes::from(name_wire(v))).expect("valid name in case")
}

/// library name -> `[[label octets]...]` without the root label
pub fn jname<N: ToName>(n: &N) -> Value {
    let mut out = vec![];
    for l in n.iter_labels() {
        if l.is_root() {
            continue;
        }
        out.push(jbytes(l.as_slice()));
    }
    Value::Array(out)
}

pub fn jname_lower<N: ToName>(n: &N) -> Value {
    let mut out = vec![];
    for l in n.iter_labels() {
        if l.is_root() {
            continue;
        }
        let v: Vec<u8> = l.as_slice().iter().map(|b| b.to_ascii_lowercase()).collect();
        out.push(jbytes(&v));
    }
    Value::Array(out)
}

/// field sequence `[{k:"raw",o:[..]},{k:"name",n:[[..]]}]` -> uncompressed RDATA
pub fn rd_wire(v: &Value) -> Vec<u8> {
    let mut out = vec![];
    if let Some(a) = v.as_array() {
        for f in a {
            if f["k"] == "name" {
                out.extend_from_slice(&name_wire(&f["n"]));
            } else {
                out.extend_from_slice(&bytes_of(&f["o"]));
            }
        }
    }
    out
}

pub struct RrW {
    pub owner: Vec<u8>,
    pub rtype: u16,
    pub class: u16,
    pub ttl: u32,
    pub rdata: Vec<u8>,
}

pub fn rr_of(v: &Value) -> RrW {
    RrW {
        owner: name_wire(&v["owner"]),
        rtype: v["type"].as_u64().unwrap_or(0) as u16,
        class: v["class"].as_u64().unwrap_or(1) as u16,
        ttl: v["ttl"].as_u64().unwrap_or(0) as u32,
        rdata: rd_wire(&v["rd"]),
    }
}

/// An uncompressed DNS message with the RRs in the answer section.
pub fn message_of(rrs: &[RrW]) -> Vec<u8> {
    let mut m = vec![0, 0, 0x80, 0, 0, 0];
    m.extend_from_slice(&(rrs.len() as u16).to_be_bytes());
    m.extend_from_slice(&[0, 0, 0, 0]);
    for r in rrs {
        m.extend_from_slice(&r.owner);
        m.extend_from_slice(&r.rtype.to_be_bytes());
        m.extend_from_slice(&r.class.to_be_bytes());
        m.extend_from_slice(&r.ttl.to_be_bytes());
        m.extend_from_slice(&(r.rdata.len() as u16).to_be_bytes());
        m.extend_from_slice(&r.rdata);
    }
    m
}

/// Parse the answer section of a message into owned zone records (the
/// library's own parsers build the typed record data).
pub fn parse_records(msg: Vec<u8>) -> Result<Vec<SRecord>, String> {
    let msg = Message::from_octets(Bytes::from(msg)).map_err(|e| format!("{e}"))?;
    let mut out = vec![];
    for r in msg.answer().map_err(|e| format!("{e}"))? {
        let r = r.map_err(|e| format!("{e}"))?;
        let r = r
            .into_record::<ZoneRecordData<Bytes, ParsedName<Bytes>>>()
            .map_err(|e| format!("{e}"))?
            .ok_or_else(|| "record type not parsed".to_string())?;
        let r: SRecord = r.flatten_into();
        out.push(r);
    }
    Ok(out)
}

pub fn records_of(rrs: &Value) -> Result<Vec<SRecord>, String> {
    let w: Vec<RrW> = rrs.as_array().map(|a| a.iter().map(rr_of).collect()).unwrap_or_default();
    parse_records(message_of(&w))
}

/// What a resolver sees after the records travelled in a compressed message.
pub fn compress_roundtrip(recs: &[SRecord]) -> Result<Vec<SRecord>, String> {
    let mb = MessageBuilder::from_target(TreeCompressor::new(Vec::<u8>::new()))
        .map_err(|_| "builder".to_string())?;
    let mut ab = mb.answer();
    for r in recs {
        ab.push(r.clone()).map_err(|e| format!("{e}"))?;
    }
    let target = ab.finish().into_target();
    parse_records(target)
}

//------------ representation conversions ---------------------------------------

pub type SRrsig = domain::rdata::Rrsig<Bytes, SName>;
type VName = Name<Vec<u8>>;

/// The RRs and their RRSIG change representation, not content: "flatten" =
/// composed into a (compressed) message, parsed as records over parsed names
/// and flattened into owned records; "octets" = OctetsFrom conversions to
/// Vec-based values and back.  Err(what) if anything differs afterwards.
pub fn convert(conv: &str, recs: &[SRecord], sig: &SRrsig) -> Result<(Vec<SRecord>, SRrsig), String> {
    use octseq::OctetsFrom;
    let (out_recs, out_sig): (Vec<SRecord>, SRrsig) = match conv {
        "flatten" => {
            let mb = MessageBuilder::from_target(TreeCompressor::new(Vec::<u8>::new()))
                .map_err(|_| "builder".to_string())?;
            let mut ab = mb.answer();
            for r in recs {
                ab.push(r.clone()).map_err(|e| format!("{e}"))?;
            }
            let first = recs.first().ok_or("empty")?;
            ab.push(Record::new(first.owner().clone(), first.class(), first.ttl(), sig.clone()))
                .map_err(|e| format!("{e}"))?;
            let all = parse_records(ab.finish().into_target())?;
            let mut rs = vec![];
            let mut sg = None;
            for r in all {
                match r.data() {
                    ZoneRecordData::Rrsig(x) => sg = Some(x.clone()),
                    _ => rs.push(r),
                }
            }
            (rs, sg.ok_or("RRSIG lost in the message")?)
        }
        "octets" => {
            let mut rs = vec![];
            for r in recs {
                let v: Record<VName, ZoneRecordData<Vec<u8>, VName>> =
                    Record::try_octets_from(r.clone()).map_err(|_| "octets_from record".to_string())?;
                let b: SRecord = Record::try_octets_from(v).map_err(|_| "octets_from record".to_string())?;
                rs.push(b);
            }
            let v: domain::rdata::Rrsig<Vec<u8>, VName> =
                domain::rdata::Rrsig::try_octets_from(sig.clone()).map_err(|_| "octets_from rrsig".to_string())?;
            let b: SRrsig = domain::rdata::Rrsig::try_octets_from(v).map_err(|_| "octets_from rrsig".to_string())?;
            (rs, b)
        }
        _ => (recs.to_vec(), sig.clone()),
    };
    if out_recs.len() != recs.len() || out_recs.iter().zip(recs.iter()).any(|(a, b)| a != b || a.ttl() != b.ttl()) {
        return Err("records changed".into());
    }
    let same = out_sig.type_covered() == sig.type_covered()
        && out_sig.algorithm() == sig.algorithm()
        && out_sig.labels() == sig.labels()
        && out_sig.original_ttl() == sig.original_ttl()
        && out_sig.expiration().into_int() == sig.expiration().into_int()
        && out_sig.inception().into_int() == sig.inception().into_int()
        && out_sig.key_tag() == sig.key_tag()
        && out_sig.signer_name().as_slice() == sig.signer_name().as_slice()
        && out_sig.signature().as_ref() == sig.signature().as_ref();
    if !same {
        return Err(format!("rrsig changed: {} -> {}", sig, out_sig));
    }
    Ok((out_recs, out_sig))
}

pub fn convert_dnskey(conv: &str, k: &Dnskey<Vec<u8>>) -> Result<Dnskey<Vec<u8>>, String> {
    use octseq::OctetsFrom;
    if conv != "octets" {
        return Ok(k.clone());
    }
    let b: Dnskey<Bytes> = Dnskey::try_octets_from(k.clone()).map_err(|_| "octets_from dnskey".to_string())?;
    let v: Dnskey<Vec<u8>> = Dnskey::try_octets_from(b).map_err(|_| "octets_from dnskey".to_string())?;
    if v.flags() != k.flags() || v.protocol() != k.protocol() || v.algorithm() != k.algorithm()
        || v.public_key() != k.public_key() || v.key_tag() != k.key_tag() {
        return Err("dnskey changed".into());
    }
    Ok(v)
}

//------------ term evaluator --------------------------------------------------

/// `{"op":"oct","o":[..]}` | `{"op":"cat","of":[t..]}` |
/// `{"op":"sha1"|"sha256"|"sha384","of":[t]}`
pub fn eval_term(t: &Value) -> Vec<u8> {
    let op = t["op"].as_str().unwrap_or("");
    match op {
        "oct" => bytes_of(&t["o"]),
        "cat" => {
            let mut out = vec![];
            for x in t["of"].as_array().cloned().unwrap_or_default() {
                out.extend_from_slice(&eval_term(&x));
            }
            out
        }
        "sha1" | "sha256" | "sha384" => {
            let alg = match op {
                "sha1" => &ring::digest::SHA1_FOR_LEGACY_USE_ONLY,
                "sha256" => &ring::digest::SHA256,
                _ => &ring::digest::SHA384,
            };
            let inner = eval_term(&t["of"][0]);
            ring::digest::digest(alg, &inner).as_ref().to_vec()
        }
        _ => panic!("unknown term operator {op}"),
    }
}

//------------ recording key ---------------------------------------------------

/// A `SignRaw` implementation that records the exact buffers handed to it.
#[derive(Debug)]
pub struct RecKey {
    pub dnskey: Dnskey<Vec<u8>>,
    pub captured: Mutex<Vec<Vec<u8>>>,
    /// when set, the next `sign_raw` records its input and then fails
    pub fail_next: Mutex<bool>,
}

impl RecKey {
    pub fn new(flags: u16, proto: u8, alg: u8, public: Vec<u8>) -> Self {
        RecKey {
            dnskey: Dnskey::new(flags, proto, SecurityAlgorithm::from_int(alg), public)
                .expect("short key"),
            captured: Mutex::new(vec![]),
            fail_next: Mutex::new(false),
        }
    }
    pub fn of_json(k: &Value) -> Self {
        RecKey::new(
            k["flags"].as_u64().unwrap_or(0) as u16,
            k["proto"].as_u64().unwrap_or(3) as u8,
            k["alg"].as_u64().unwrap_or(0) as u8,
            bytes_of(&k["pub"]),
        )
    }
    pub fn take(&self) -> Vec<Vec<u8>> {
        std::mem::take(&mut *self.captured.lock().unwrap())
    }
}

impl SignRaw for RecKey {
    fn algorithm(&self) -> SecurityAlgorithm {
        self.dnskey.algorithm()
    }
    fn dnskey(&self) -> Dnskey<Vec<u8>> {
        self.dnskey.clone()
    }
    fn sign_raw(&self, data: &[u8]) -> Result<Signature, SignError> {
        self.captured.lock().unwrap().push(data.to_vec());
        if std::mem::take(&mut *self.fail_next.lock().unwrap()) {
            return Err(SignError);
        }
        Ok(Signature::RsaSha256(vec![0xA5, 0x5A, 0x01, 0x02].into_boxed_slice()))
    }
}

/// A real key whose backend can be made to fail once (an HSM hiccup).
#[derive(Debug)]
pub struct FlakyKey<K: SignRaw + std::fmt::Debug> {
    pub inner: K,
    pub fail_next: Mutex<bool>,
}

impl<K: SignRaw + std::fmt::Debug> SignRaw for FlakyKey<K> {
    fn algorithm(&self) -> SecurityAlgorithm {
        self.inner.algorithm()
    }
    fn dnskey(&self) -> Dnskey<Vec<u8>> {
        self.inner.dnskey()
    }
    fn sign_raw(&self, data: &[u8]) -> Result<Signature, SignError> {
        if std::mem::take(&mut *self.fail_next.lock().unwrap()) {
            return Err(SignError);
        }
        self.inner.sign_raw(data)
    }
}

pub fn rtype(v: u16) -> Rtype {
    Rtype::from_int(v)
}
pub fn class(v: u16) -> Class {
    Class::from_int(v)
}
pub fn ttl(v: u32) -> Ttl {
    Ttl::from_secs(v)
}

//------------ real keys of every algorithm the backend signs with (C12) --------

/// One real key pair per algorithm of Rrsig.tla's SignAlgs.  ECDSA / EdDSA
/// keys are generated; ring cannot generate RSA keys, these are imported from
/// the BIND format key files in the repository's test-data (2048 bits).
/// Every secret exists twice: as obtained ("direct") and exported to and
/// re-imported from the BIND private-key format ("bind").
pub mod realkeys {
    use super::*;
    use domain::crypto::common::rsa_encode;
    use domain::crypto::sign::{generate, GenerateParams, KeyPair, SecretKeyBytes};

    pub struct RealKey {
        pub alg: u8,
        pub direct: SecretKeyBytes,
        pub bind: SecretKeyBytes,
        pub public: Dnskey<Vec<u8>>,
    }

    fn repo_dir() -> String {
        std::env::var("VERIF_REPO").unwrap_or_else(|_| "/repo".to_string())
    }

    /// export to the BIND format (format_as_bind through display_as_bind) and parse again
    pub fn through_bind(s: &SecretKeyBytes) -> Result<SecretKeyBytes, String> {
        let text = s.display_as_bind().to_string();
        let mut text2 = String::new();
        s.format_as_bind(&mut text2).map_err(|e| format!("{e}"))?;
        if text != text2 {
            return Err("display_as_bind and format_as_bind differ".into());
        }
        let back = SecretKeyBytes::parse_from_bind(&text).map_err(|e| format!("parse_from_bind: {e}"))?;
        if back.algorithm() != s.algorithm() || back.display_as_bind().to_string() != text {
            return Err("BIND format round trip changed the key".into());
        }
        Ok(back)
    }

    /// test material of the harness itself (not of the repository)
    pub fn data_dir() -> String {
        std::env::var("VERIF_DATA").unwrap_or_else(|_| "/verif/harness/data".to_string())
    }

    fn import(alg: u8, tag: u16) -> Result<RealKey, String> {
        import_base(alg, &format!("{}/test-data/dnssec-keys/Ktest.+{:03}+{:05}", repo_dir(), alg, tag), None)
    }

    /// A 4096 bit RSA key (the largest RFC 3110 allows; `openssl genrsa
    /// 4096`, BIND format) as RSASHA256 and - the same numbers under the
    /// other algorithm number - as RSASHA512.
    fn import_big(alg: u8) -> Result<RealKey, String> {
        import_base(alg, &format!("{}/Krsa4096.+008", data_dir()), Some(alg))
    }

    fn import_base(alg: u8, base: &str, relabel: Option<u8>) -> Result<RealKey, String> {
        let sec_text = std::fs::read_to_string(format!("{base}.private")).map_err(|e| format!("{base}: {e}"))?;
        let sec_text = match relabel {
            Some(10) => sec_text.replace("Algorithm: 8 (RSASHA256)", "Algorithm: 10 (RSASHA512)"),
            _ => sec_text,
        };
        let direct = SecretKeyBytes::parse_from_bind(&sec_text).map_err(|e| format!("{base}: {e}"))?;
        let pub_text = std::fs::read_to_string(format!("{base}.key")).map_err(|e| format!("{base}: {e}"))?;
        let rec = domain::dnssec::common::parse_from_bind::<Vec<u8>>(&pub_text).map_err(|e| format!("{base}: {e}"))?;
        let public = match relabel {
            Some(a) => Dnskey::new(rec.data().flags(), 3, SecurityAlgorithm::from_int(a), rec.data().public_key().clone())
                .map_err(|e| format!("{base}: {e}"))?,
            None => rec.data().clone(),
        };
        if direct.algorithm().to_int() != alg || public.algorithm().to_int() != alg {
            return Err(format!("{base}: not a key of algorithm {alg}"));
        }
        // the public key is the private key's modulus and exponent in the RFC 3110 layout
        let (e, n) = match &direct {
            SecretKeyBytes::RsaSha256(s) | SecretKeyBytes::RsaSha512(s) => (s.e.to_vec(), s.n.to_vec()),
            _ => return Err(format!("{base}: not an RSA key")),
        };
        if rsa_encode(&e, &n) != *public.public_key() {
            return Err(format!("{base}: rsa_encode of the private key's (e, n) is not the published key"));
        }
        let bind = through_bind(&direct)?;
        Ok(RealKey { alg, direct, bind, public })
    }

    fn generated(p: GenerateParams) -> Result<RealKey, String> {
        let alg = p.algorithm().to_int();
        let (direct, public) = generate(&p, 256).map_err(|e| format!("generate {alg}: {e}"))?;
        if direct.algorithm().to_int() != alg || public.algorithm().to_int() != alg {
            return Err(format!("generate {alg}: key of another algorithm"));
        }
        let bind = through_bind(&direct)?;
        Ok(RealKey { alg, direct, bind, public })
    }

    /// Err(what) is a tool error of the harness (key files missing ...), except
    /// that an algorithm the backend refuses is simply absent.
    pub fn all() -> Result<Vec<RealKey>, String> {
        let mut out = vec![import(8, 60616)?, import(10, 46731)?];
        for p in [GenerateParams::EcdsaP256Sha256, GenerateParams::EcdsaP384Sha384, GenerateParams::Ed25519,
                  GenerateParams::Ed448] {
            if let Ok(k) = generated(p) {
                out.push(k);
            }
        }
        // (after the others: `find(|k| k.alg == ..)` keeps meaning the 2048 bit keys)
        out.push(import_big(8)?);
        out.push(import_big(10)?);
        Ok(out)
    }

    /// the real key standing in for a key of the model: same algorithm and,
    /// for RSA, a public key field of the same length (i.e. the same size)
    pub fn for_model<'a>(reals: &'a [RealKey], alg: u8, publen: usize) -> Option<&'a RealKey> {
        let rsa = matches!(alg, 1 | 5 | 7 | 8 | 10);
        reals.iter().find(|k| k.alg == alg && (!rsa || k.public.public_key().len() == publen))
    }

    impl RealKey {
        /// the public key with the flags of the case
        pub fn dnskey(&self, flags: u16) -> Dnskey<Vec<u8>> {
            Dnskey::new(flags, 3, self.public.algorithm(), self.public.public_key().clone()).expect("dnskey")
        }
        pub fn pair(&self, route: &str, flags: u16) -> Result<KeyPair, String> {
            let secret = if route == "bind" { &self.bind } else { &self.direct };
            KeyPair::from_bytes(secret, &self.dnskey(flags)).map_err(|e| format!("from_bytes: {e}"))
        }
    }

    pub fn jkey(k: &Dnskey<Vec<u8>>) -> Value {
        json!({"flags": k.flags(), "proto": k.protocol(), "alg": k.algorithm().to_int(),
               "pub": jbytes(k.public_key())})
    }
}

//------------ the signer's entry points on a collection (C12, MC_SignerInput.tla) ----

pub mod sinput {
    use super::*;
    use domain::base::iana::Nsec3HashAlgorithm;
    use domain::dnssec::sign::denial::config::DenialConfig;
    use domain::dnssec::sign::denial::nsec::GenerateNsecConfig;
    use domain::dnssec::sign::denial::nsec3::GenerateNsec3Config;
    use domain::dnssec::sign::keys::signingkey::SigningKey;
    use domain::dnssec::sign::records::{DefaultSorter, Rrset, SortedRecords};
    use domain::dnssec::sign::signatures::rrsigs::{
        sign_rrset, sign_sorted_rrset_in, sign_sorted_zone_records, GenerateRrsigConfig,
    };
    use domain::dnssec::sign::traits::{SignableZone, SignableZoneInPlace};
    use domain::dnssec::sign::SigningConfig;
    use domain::dnssec::validator::base::RrsigExt;
    use domain::rdata::dnssec::Timestamp;
    use domain::rdata::nsec3::Nsec3Salt;
    use domain::rdata::Nsec3param;

    pub type Coll = SortedRecords<SName, SData>;

    pub const ENTRIES: [&str; 10] = ["rrsets_sorted_in", "rrsets_sign_rrset", "slice_sign_rrset", "zone_records",
                                     "zone_present_inplace", "zone_present_into", "zone_nsec_inplace", "zone_nsec_into",
                                     "zone_nsec3_inplace", "zone_nsec3_into"];

    pub fn denial_of(e: &str) -> DenialConfig<Bytes, DefaultSorter> {
        if e.contains("nsec3") {
            let salt = Nsec3Salt::from_octets(Bytes::from_static(b"\xab\xcd")).expect("salt");
            let params = Nsec3param::new(Nsec3HashAlgorithm::SHA1, 0, 1, salt);
            DenialConfig::Nsec3(GenerateNsec3Config::<Bytes, DefaultSorter>::new(params))
        } else if e.contains("nsec") {
            DenialConfig::Nsec(GenerateNsecConfig::new())
        } else {
            DenialConfig::AlreadyPresent
        }
    }

    pub fn rrsig_rr(r: Record<SName, SRrsig>) -> SRecord {
        Record::new(r.owner().clone(), r.class(), r.ttl(), ZoneRecordData::Rrsig(r.data().clone()))
    }

    /// One entry point of the signer on the collection the ops build.  Returns
    /// every record afterwards: the zone and what signing generated.
    pub fn run_entry<K: SignRaw + std::fmt::Debug>(
        e: &str, mut coll: Coll, slices: &[Vec<SRecord>], apex: &SName,
        key: &SigningKey<Bytes, K>, inc: Timestamp, exp: Timestamp,
    ) -> Result<Vec<SRecord>, String> {
        let mut all: Vec<SRecord> = coll.iter().cloned().collect();
        match e {
            "rrsets_sorted_in" => {
                let mut scratch = vec![];
                for rrset in coll.rrsets() {
                    let rr = sign_sorted_rrset_in(key, &rrset, inc, exp, &mut scratch).map_err(|e| format!("{e}"))?;
                    all.push(rrsig_rr(rr));
                }
            }
            "rrsets_sign_rrset" => {
                for rrset in coll.rrsets() {
                    all.push(rrsig_rr(sign_rrset(key, &rrset, inc, exp).map_err(|e| format!("{e}"))?));
                }
            }
            "slice_sign_rrset" => {
                for sl in slices {
                    let rrset = Rrset::new_from_owned(sl).map_err(|e| format!("{e}"))?;
                    all.push(rrsig_rr(sign_rrset(key, &rrset, inc, exp).map_err(|e| format!("{e}"))?));
                }
            }
            "zone_records" => {
                let cfg = GenerateRrsigConfig::new(inc, exp);
                let sigs = sign_sorted_zone_records(apex, coll.owner_rrs(), &[key], &cfg).map_err(|e| format!("{e}"))?;
                all.extend(sigs.into_iter().map(rrsig_rr));
            }
            _ => {
                let cfg: SigningConfig<Bytes, DefaultSorter> = SigningConfig::new(denial_of(e), inc, exp);
                if e.ends_with("_into") {
                    let mut out: Coll = SortedRecords::default();
                    SignableZone::sign_zone(&coll, apex, &cfg, &[key], &mut out).map_err(|e| format!("{e}"))?;
                    all.extend(out.iter().cloned());
                } else {
                    SignableZoneInPlace::sign_zone(&mut coll, apex, &cfg, &[key]).map_err(|e| format!("{e}"))?;
                    all = coll.iter().cloned().collect();
                }
            }
        }
        Ok(all)
    }

    /// every RRSIG among the records verifies over the RRset it covers, presented
    /// as stored, reversed and rotated
    pub fn all_verify(all: &[SRecord], dnskey: &Dnskey<Vec<u8>>) -> Result<usize, String> {
        let mut n = 0;
        for r in all {
            let ZoneRecordData::Rrsig(sig) = r.data() else { continue };
            let rrset: Vec<SRecord> = all.iter()
                .filter(|x| x.rtype() == sig.type_covered() && x.owner().name_eq(r.owner()) && x.class() == r.class())
                .cloned().collect();
            if rrset.is_empty() {
                return Err(format!("RRSIG {} {} covers nothing", r.owner(), sig.type_covered()));
            }
            let mut orders = vec![rrset.clone()];
            let mut rev = rrset.clone();
            rev.reverse();
            orders.push(rev);
            let mut rot = rrset.clone();
            rot.rotate_left(1);
            orders.push(rot);
            for mut o in orders {
                let mut b: Vec<u8> = vec![];
                if sig.signed_data(&mut b, &mut o[..]).is_err() {
                    return Err(format!("signed_data {} {}", r.owner(), sig.type_covered()));
                }
                if sig.verify_signed_data(dnskey, &b).is_err() {
                    return Err(format!("RRSIG {} {} does not verify", r.owner(), sig.type_covered()));
                }
            }
            n += 1;
        }
        Ok(n)
    }
}

//------------ more representation routes (C12) -----------------------------------

/// "typed": the records and the RRSIG travel in a message and are parsed as
/// the *specific* record data types where the DNSSEC module has one (their
/// own ParseRecordData), converted with the typed OctetsFrom / FlattenInto /
/// convert and put back.  Err(what) if anything differs afterwards.
pub fn convert_typed(recs: &[SRecord], sig: &SRrsig) -> Result<(Vec<SRecord>, SRrsig), String> {
    use domain::base::name::FlattenInto;
    use domain::rdata::{Ds, Nsec, Rrsig};
    use octseq::OctetsFrom;
    type PN = ParsedName<Bytes>;
    let mb = MessageBuilder::from_target(TreeCompressor::new(Vec::<u8>::new())).map_err(|_| "builder".to_string())?;
    let mut ab = mb.answer();
    for r in recs {
        ab.push(r.clone()).map_err(|e| format!("{e}"))?;
    }
    let first = recs.first().ok_or("empty")?;
    ab.push(Record::new(first.owner().clone(), first.class(), first.ttl(), sig.clone())).map_err(|e| format!("{e}"))?;
    let msg = Message::from_octets(Bytes::from(ab.finish().into_target())).map_err(|e| format!("{e}"))?;
    let mut out: Vec<SRecord> = vec![];
    let mut osig: Option<SRrsig> = None;
    for pr in msg.answer().map_err(|e| format!("{e}"))? {
        let pr = pr.map_err(|e| format!("{e}"))?;
        let (owner, class, ttl): (SName, Class, Ttl) = (pr.owner().to_name(), pr.class(), pr.ttl());
        let data: SData = match pr.rtype() {
            Rtype::DNSKEY => {
                let r = pr.to_record::<Dnskey<_>>().map_err(|e| format!("{e}"))?.ok_or("not DNSKEY")?;
                let v: Dnskey<Vec<u8>> = Dnskey::try_octets_from(r.data().clone()).map_err(|_| "dnskey octets_from")?;
                let (f, p, a) = (v.flags(), v.protocol(), v.algorithm());
                let b: Dnskey<Bytes> = v.clone().convert();
                if b.public_key().as_ref() != &v.clone().into_public_key()[..] || b.flags() != f
                    || b.protocol() != p || b.algorithm() != a {
                    return Err("Dnskey::convert changed the key".into());
                }
                ZoneRecordData::Dnskey(b)
            }
            Rtype::DS => {
                let r = pr.to_record::<Ds<_>>().map_err(|e| format!("{e}"))?.ok_or("not DS")?;
                let v: Ds<Vec<u8>> = Ds::try_octets_from(r.data().clone()).map_err(|_| "ds octets_from")?;
                let (t, a, d) = (v.key_tag(), v.algorithm(), v.digest_type());
                ZoneRecordData::Ds(Ds::new(t, a, d, Bytes::from(v.into_digest())).map_err(|e| format!("{e}"))?)
            }
            Rtype::NSEC => {
                let r = pr.to_record::<Nsec<_, PN>>().map_err(|e| format!("{e}"))?.ok_or("not NSEC")?;
                let f: Nsec<Bytes, SName> = r.data().clone().try_flatten_into().map_err(|_| "nsec flatten")?;
                let v: Nsec<Vec<u8>, VName> = Nsec::try_octets_from(f).map_err(|_| "nsec octets_from")?;
                let b: Nsec<Bytes, SName> = Nsec::try_octets_from(v).map_err(|_| "nsec octets_from")?;
                ZoneRecordData::Nsec(b)
            }
            Rtype::RRSIG => {
                let r = pr.to_record::<Rrsig<_, PN>>().map_err(|e| format!("{e}"))?.ok_or("not RRSIG")?;
                let f: SRrsig = r.data().clone().try_flatten_into().map_err(|_| "rrsig flatten")?;
                // as record data of a record: Record / ZoneRecordData conversion
                let rec: SRecord = Record::new(owner.clone(), class, ttl, ZoneRecordData::Rrsig(f.clone()));
                let v: Record<VName, ZoneRecordData<Vec<u8>, VName>> =
                    Record::try_octets_from(rec).map_err(|_| "record octets_from")?;
                let b: SRecord = Record::try_octets_from(v).map_err(|_| "record octets_from")?;
                let ZoneRecordData::Rrsig(mut g) = b.data().clone() else {
                    return Err("RRSIG record became another type".into());
                };
                if g != f {
                    return Err("RRSIG changed as record data".into());
                }
                // the signature set again from its own octets
                let s = Bytes::copy_from_slice(g.signature().as_ref());
                g.set_signature(s);
                osig = Some(g);
                continue;
            }
            _ => {
                let r = pr.into_record::<ZoneRecordData<Bytes, PN>>().map_err(|e| format!("{e}"))?.ok_or("not parsed")?;
                let r: SRecord = r.flatten_into();
                r.data().clone()
            }
        };
        out.push(Record::new(owner, class, ttl, data));
    }
    let osig = osig.ok_or("RRSIG lost in the message")?;
    if out.len() != recs.len() || out.iter().zip(recs.iter()).any(|(a, b)| a != b || a.ttl() != b.ttl()) {
        return Err("records changed".into());
    }
    if &osig != sig || osig.signature().as_ref() != sig.signature().as_ref() {
        return Err(format!("rrsig changed: {} -> {}", sig, osig));
    }
    Ok((out, osig))
}

/// The verifying key on the "typed" route: as a DNSKEY record of a message,
/// parsed as Dnskey, converted and taken apart.
pub fn convert_dnskey_typed(owner: &SName, k: &Dnskey<Vec<u8>>) -> Result<Dnskey<Vec<u8>>, String> {
    use octseq::OctetsFrom;
    let mb = MessageBuilder::from_target(TreeCompressor::new(Vec::<u8>::new())).map_err(|_| "builder".to_string())?;
    let mut ab = mb.answer();
    ab.push(Record::new(owner.clone(), Class::IN, Ttl::from_secs(60), k.clone())).map_err(|e| format!("{e}"))?;
    let msg = Message::from_octets(Bytes::from(ab.finish().into_target())).map_err(|e| format!("{e}"))?;
    let pr = msg.answer().map_err(|e| format!("{e}"))?.next().ok_or("no record")?.map_err(|e| format!("{e}"))?;
    let r = pr.to_record::<Dnskey<_>>().map_err(|e| format!("{e}"))?.ok_or("not DNSKEY")?;
    let b: Dnskey<Bytes> = Dnskey::try_octets_from(r.data().clone()).map_err(|_| "dnskey octets_from")?;
    let (f, p, a) = (b.flags(), b.protocol(), b.algorithm());
    let v: Dnskey<Vec<u8>> = Dnskey::new(f, p, a, b.into_public_key().to_vec()).map_err(|e| format!("{e}"))?;
    if &v != k || v.key_tag() != k.key_tag() {
        return Err("dnskey changed".into());
    }
    Ok(v)
}

/// The RRSIG RDATA without the signature as the signer builds it
/// (ProtoRrsig), after the conversions of the route; canonical form.
pub fn proto_prefix(conv: &str, sig: &SRrsig) -> Result<Vec<u8>, String> {
    use domain::base::name::FlattenInto;
    use domain::rdata::dnssec::ProtoRrsig;
    use octseq::OctetsFrom;
    let p: ProtoRrsig<SName> = ProtoRrsig::new(sig.type_covered(), sig.algorithm(), sig.labels(), sig.original_ttl(),
                                               sig.expiration(), sig.inception(), sig.key_tag(),
                                               sig.signer_name().clone());
    let p: ProtoRrsig<SName> = match conv {
        "octets" | "typed" => {
            let v: ProtoRrsig<VName> = ProtoRrsig::try_octets_from(p).map_err(|_| "proto octets_from")?;
            ProtoRrsig::try_octets_from(v).map_err(|_| "proto octets_from")?
        }
        "flatten" => {
            // the signer name as a parsed (possibly compressed) name of a message
            let mb = MessageBuilder::from_target(TreeCompressor::new(Vec::<u8>::new())).map_err(|_| "builder".to_string())?;
            let mut ab = mb.answer();
            ab.push(Record::new(sig.signer_name().clone(), Class::IN, Ttl::from_secs(0),
                                domain::rdata::Ns::new(sig.signer_name().clone())))
                .map_err(|e| format!("{e}"))?;
            let msg = Message::from_octets(Bytes::from(ab.finish().into_target())).map_err(|e| format!("{e}"))?;
            let pr = msg.answer().map_err(|e| format!("{e}"))?.next().ok_or("no record")?.map_err(|e| format!("{e}"))?;
            let r = pr.to_record::<domain::rdata::Ns<ParsedName<Bytes>>>().map_err(|e| format!("{e}"))?.ok_or("not NS")?;
            let pp: ProtoRrsig<ParsedName<Bytes>> =
                ProtoRrsig::new(sig.type_covered(), sig.algorithm(), sig.labels(), sig.original_ttl(),
                                sig.expiration(), sig.inception(), sig.key_tag(), r.data().nsdname().clone());
            pp.try_flatten_into().map_err(|_| "proto flatten")?
        }
        _ => p,
    };
    let mut buf: Vec<u8> = vec![];
    p.compose_canonical(&mut buf).map_err(|_| "compose")?;
    // with the signature attached it is the RRSIG again
    let again: SRrsig = p.into_rrsig(sig.signature().clone()).map_err(|e| format!("{e}"))?;
    if &again != sig {
        return Err("ProtoRrsig::into_rrsig is not the RRSIG".into());
    }
    Ok(buf)
}

/// "chain": the owner names as a relative name chained to an origin
/// (ToRelativeName::chain, split in the middle) and as a relative name
/// chained to the root (chain_root, relative part in canonical form): what
/// RrsigExt::signed_data rebuilds from either.
pub fn signed_data_chained(sig: &SRrsig, recs: &[SRecord]) -> Result<Vec<u8>, String> {
    use domain::base::name::{RelativeName, ToLabelIter, ToRelativeName};
    use domain::dnssec::validator::base::RrsigExt;
    let mut mid = vec![];
    let mut rooted = vec![];
    for r in recs {
        let labels: Vec<Vec<u8>> = r.owner().iter_labels().filter(|l| !l.is_root()).map(|l| l.as_slice().to_vec()).collect();
        let k = labels.len() / 2;
        let wire = |ls: &[Vec<u8>]| -> Vec<u8> {
            let mut w = vec![];
            for l in ls {
                w.push(l.len() as u8);
                w.extend_from_slice(l);
            }
            w
        };
        let left = RelativeName::from_octets(Bytes::from(wire(&labels[..k]))).map_err(|e| format!("{e}"))?;
        let mut rw = wire(&labels[k..]);
        rw.push(0);
        let right: SName = Name::from_octets(Bytes::from(rw)).map_err(|e| format!("{e}"))?;
        if left.is_empty() != (k == 0) {
            return Err("ToRelativeName::is_empty".into());
        }
        let c = left.to_bytes().chain(right).map_err(|e| format!("chain: {e}"))?;
        mid.push(Record::new(c, r.class(), r.ttl(), r.data().clone()));
        let whole = RelativeName::from_octets(Bytes::from(wire(&labels))).map_err(|e| format!("{e}"))?;
        let canon: RelativeName<Vec<u8>> = whole.to_canonical_relative_name();
        rooted.push(Record::new(canon.chain_root(), r.class(), r.ttl(), r.data().clone()));
    }
    let mut a: Vec<u8> = vec![];
    sig.signed_data(&mut a, &mut mid[..]).map_err(|_| "signed_data")?;
    let mut b: Vec<u8> = vec![];
    sig.signed_data(&mut b, &mut rooted[..]).map_err(|_| "signed_data")?;
    if a != b {
        return Err(format!("chain {:?} and chain_root {:?} give different signed data", a, b));
    }
    Ok(a)
}

//------------ denial (C13) ----------------------------------------------------

pub mod denial {
    use super::*;
    use domain::base::iana::Nsec3HashAlgorithm;
    use domain::base::name::ToLabelIter;
    use domain::dnssec::sign::denial::nsec::{generate_nsecs, GenerateNsecConfig};
    use domain::dnssec::sign::denial::nsec3::{generate_nsec3s, GenerateNsec3Config};
    use domain::dnssec::sign::records::{DefaultSorter, SortedRecords};
    use domain::rdata::dnssec::{RtypeBitmap, RtypeBitmapBuilder};
    use domain::rdata::nsec3::Nsec3Salt;
    use domain::rdata::Nsec3param;
    use domain::utils::base32;

    fn raw(o: &[u8]) -> Value {
        json!({"k": "raw", "o": jbytes(o), "n": []})
    }
    fn nm(labels: &[&[u8]]) -> Value {
        json!({"k": "name", "o": [], "n": labels.iter().map(|l| jbytes(l)).collect::<Vec<_>>()})
    }

    /// some well-formed record data for a type (the content is irrelevant
    /// to denial of existence, except the SOA TTL / MINIMUM)
    pub fn rd_for(t: u16, soa_min: u32) -> Value {
        match t {
            1 => json!([raw(&[192, 0, 2, 1])]),
            2 => json!([nm(&[b"ns", b"example"])]),
            6 => {
                let mut tail = vec![0, 0, 0, 1, 0, 0, 14, 16, 0, 0, 3, 132, 0, 9, 58, 128];
                tail.extend_from_slice(&soa_min.to_be_bytes());
                json!([nm(&[b"ns", b"example"]), nm(&[b"h", b"example"]), raw(&tail)])
            }
            16 => json!([raw(&[1, b'x'])]),
            28 => json!([raw(&[32, 1, 13, 184, 0, 0, 0, 0, 0, 0, 0, 0, 0, 0, 0, 1])]),
            43 => {
                let mut v = vec![0, 1, 13, 2];
                v.extend_from_slice(&[7u8; 32]);
                json!([raw(&v)])
            }
            48 => {
                let mut v = vec![1, 0, 3, 13];
                v.extend_from_slice(&[9u8; 64]);
                json!([raw(&v)])
            }
            257 => json!([raw(&[0, 5, b'i', b's', b's', b'u', b'e', b'x'])]),
            15 => json!([raw(&[0, 10]), nm(&[b"mx", b"example"])]),
            33 => json!([raw(&[0, 1, 0, 1, 0, 80]), nm(&[b"h", b"example"])]),
            _ => json!([raw(&[1, 2, 3])]),
        }
    }

    /// zone records from `[{n, t}]` (+ SOA ttl/min)
    pub fn zone_records(input: &Value) -> Result<Vec<SRecord>, String> {
        let soa_ttl = input["soa"]["ttl"].as_u64().unwrap_or(3600) as u32;
        let soa_min = input["soa"]["min"].as_u64().unwrap_or(300) as u32;
        let rrs: Vec<Value> = input["recs"]
            .as_array()
            .cloned()
            .unwrap_or_default()
            .iter()
            .map(|r| {
                let t = r["t"].as_u64().unwrap_or(1) as u16;
                json!({"owner": r["n"], "type": t, "class": 1,
                       "ttl": if t == 6 { soa_ttl } else { 3600 }, "rd": rd_for(t, soa_min)})
            })
            .collect();
        records_of(&Value::Array(rrs))
    }

    pub fn types_of<O: AsRef<[u8]>>(bm: &RtypeBitmap<O>) -> Vec<u16> {
        let mut v: Vec<u16> = bm.iter().map(|t| t.to_int()).collect();
        v.sort();
        v
    }

    pub fn run_nsec(recs: Vec<SRecord>, apex: &SName, assume: bool) -> Result<(Value, u32, u16), String> {
        let sorted: SortedRecords<SName, SData> = SortedRecords::from(recs);
        run_nsec_on(&sorted, apex, assume)
    }

    pub fn run_nsec_on(sorted: &SortedRecords<SName, SData>, apex: &SName, assume: bool) -> Result<(Value, u32, u16), String> {
        let mut cfg = GenerateNsecConfig::new();
        if !assume {
            cfg = cfg.without_assuming_dnskeys_will_be_added();
        }
        let out = generate_nsecs(apex, sorted.owner_rrs(), &cfg).map_err(|e| format!("{e}"))?;
        let mut chain = vec![];
        let (mut ttl, mut class) = (None, None);
        for r in &out {
            chain.push(json!({"owner": jname_lower(r.owner()), "next": jname_lower(r.data().next_name()),
                              "types": types_of(r.data().types())}));
            let (t, c) = (r.ttl().as_secs(), r.class().to_int());
            if ttl.map(|x| x != t).unwrap_or(false) || class.map(|x| x != c).unwrap_or(false) {
                return Err("ttl/class differ between NSEC RRs".into());
            }
            ttl = Some(t);
            class = Some(c);
        }
        Ok((Value::Array(chain), ttl.unwrap_or(0), class.unwrap_or(0)))
    }

    pub fn nsec_case(input: &Value) -> Value {
        let recs = match zone_records(input) {
            Ok(r) => r,
            Err(e) => return json!({"bad_zone": e}),
        };
        let apex = name_of(&input["apex"]);
        match run_nsec(recs, &apex, input["assume"] == true) {
            Ok((chain, ttl, class)) => json!({"chain": chain, "ttl": ttl, "class": class}),
            Err(e) => json!({"err": e}),
        }
    }

    pub struct N3Out {
        /// per record in library order: (owner hash, next hash, types, flags, iterations, salt, ttl)
        pub recs: Vec<(Vec<u8>, Vec<u8>, Vec<u16>, u8, u16, Vec<u8>, u32)>,
        pub param_ttl: u32,
        pub apex_ok: bool,
    }

    pub fn run_nsec3(recs: Vec<SRecord>, apex: &SName, assume: bool, optout: &str,
                     salt: &[u8], iters: u16) -> Result<N3Out, String> {
        let sorted: SortedRecords<SName, SData> = SortedRecords::from(recs);
        run_nsec3_on(&sorted, apex, assume, optout, salt, iters, None)
    }

    /// `setters`: the configuration is built by calling exactly these public
    /// setter methods in this order (otherwise a fixed order derived from
    /// assume / optout)
    pub fn run_nsec3_on(sorted: &SortedRecords<SName, SData>, apex: &SName, assume: bool, optout: &str,
                        salt: &[u8], iters: u16, setters: Option<Vec<String>>) -> Result<N3Out, String> {
        let salt = Nsec3Salt::from_octets(Bytes::copy_from_slice(salt)).map_err(|e| format!("{e}"))?;
        let params = Nsec3param::new(Nsec3HashAlgorithm::SHA1, 0, iters, salt);
        let mut cfg: GenerateNsec3Config<Bytes, DefaultSorter> = GenerateNsec3Config::new(params);
        let order: Vec<String> = match setters {
            Some(v) => v,
            None => {
                let mut v = vec![];
                if !assume {
                    v.push("no_dnskey".to_string());
                }
                if optout != "none" {
                    v.push("opt_out".to_string());
                }
                if optout == "flagonly" {
                    v.push("no_exclude".to_string());
                }
                v
            }
        };
        for st in &order {
            cfg = match st.as_str() {
                "no_dnskey" => cfg.without_assuming_dnskeys_will_be_added(),
                "opt_out" => cfg.with_opt_out(),
                "no_exclude" => cfg.without_opt_out_excluding_owner_names_of_unsigned_delegations(),
                _ => return Err("unknown setter".into()),
            };
        }
        let out = generate_nsec3s(apex, sorted.owner_rrs(), &cfg).map_err(|e| format!("{e}"))?;
        let mut v = vec![];
        let mut apex_ok = true;
        for r in &out.nsec3s {
            let first = r.owner().iter_labels().next().unwrap();
            let text = String::from_utf8_lossy(first.as_slice()).to_string();
            let h: Vec<u8> = base32::decode_hex::<Vec<u8>>(&text).map_err(|_| "owner label is not base32hex")?;
            // the rest of the owner name is the apex
            let rest = r.owner().parent().ok_or("no parent")?;
            if !rest.name_eq(apex) {
                apex_ok = false;
            }
            v.push((h, r.data().next_owner().as_slice().to_vec(), types_of(r.data().types()),
                    r.data().flags(), r.data().iterations(), r.data().salt().as_slice().to_vec(),
                    r.ttl().as_secs()));
        }
        Ok(N3Out { recs: v, param_ttl: out.nsec3param.ttl().as_secs(), apex_ok })
    }

    pub fn nsec3_case(input: &Value) -> Value {
        let recs = match zone_records(input) {
            Ok(r) => r,
            Err(e) => return json!({"bad_zone": e}),
        };
        let apex = name_of(&input["apex"]);
        let salt = bytes_of(&input["salt"]);
        let iters = input["iters"].as_u64().unwrap_or(0) as u16;
        let setters = input.get("setters").and_then(|v| v.as_array()).map(|a| {
            a.iter().map(|x| x.as_str().unwrap_or("").to_string()).collect::<Vec<_>>()
        });
        let sorted: SortedRecords<SName, SData> = SortedRecords::from(recs);
        let out = match run_nsec3_on(&sorted, &apex, input["assume"] == true,
                                     input["optout"].as_str().unwrap_or("none"), &salt, iters, setters) {
            Ok(o) => o,
            Err(e) => return json!({"err": e}),
        };
        // independent hashes of the names the specification expects (in
        // canonical name order), from the specification's terms
        let names = input["names"].as_array().cloned().unwrap_or_default();
        let hashes: Vec<Vec<u8>> = names.iter().map(|n| eval_term(&n["term"])).collect();
        let mut entries: Vec<(usize, Value)> = vec![];
        let mut unknown = vec![];
        for r in &out.recs {
            match hashes.iter().position(|h| *h == r.0) {
                Some(i) => entries.push((i, json!({"n": names[i]["n"], "types": r.2}))),
                None => unknown.push(jbytes(&r.0)),
            }
        }
        if !unknown.is_empty() {
            return json!({"hash_not_of_an_expected_name": unknown});
        }
        // order and closure against the independent hashes: library order is
        // strictly ascending by hash, every next = the following owner, the
        // last points to the first
        let n = out.recs.len();
        let mut linked = n > 0 && out.apex_ok;
        for i in 0..n {
            if i + 1 < n && out.recs[i].0 >= out.recs[i + 1].0 {
                linked = false;
            }
            if out.recs[i].1 != out.recs[(i + 1) % n].0 {
                linked = false;
            }
        }
        let flags = out.recs.iter().map(|r| r.3).collect::<std::collections::BTreeSet<_>>();
        let ttls = out.recs.iter().map(|r| r.6).collect::<std::collections::BTreeSet<_>>();
        let params_ok = out.recs.iter().all(|r| r.4 == iters && r.5 == salt);
        if flags.len() != 1 || ttls.len() != 1 || !params_ok {
            return json!({"records_differ_in_flags_ttl_or_params": true});
        }
        entries.sort_by_key(|e| e.0);
        json!({"entries": entries.into_iter().map(|e| e.1).collect::<Vec<_>>(), "linked": linked,
               "flags": flags.into_iter().next().unwrap(), "ttl": ttls.into_iter().next().unwrap(),
               "paramttl": out.param_ttl})
    }

    fn coll_json(sorted: &SortedRecords<SName, SData>) -> Value {
        Value::Array(sorted.iter().map(|r| json!({"n": jname(r.owner()), "t": r.rtype().to_int()})).collect())
    }

    /// NSEC chain of a collection; Ok((chain json with owner names as they
    /// stand, generated records as zone records))
    fn nsec_on(sorted: &SortedRecords<SName, SData>, apex: &SName) -> Result<(Value, Vec<SRecord>), String> {
        let cfg = GenerateNsecConfig::new();
        let out = generate_nsecs(apex, sorted.owner_rrs(), &cfg).map_err(|e| format!("{e}"))?;
        let chain: Vec<Value> = out.iter().map(|r| json!({"owner": jname(r.owner()),
            "next": jname(r.data().next_name()), "types": types_of(r.data().types())})).collect();
        let recs: Vec<SRecord> = out.into_iter()
            .map(|r| Record::new(r.owner().clone(), r.class(), r.ttl(), ZoneRecordData::Nsec(r.data().clone())))
            .collect();
        Ok((Value::Array(chain), recs))
    }

    /// The sign-zone workflow on one SortedRecords: assemble in batches
    /// through From<Vec> / extend / insert, generate, extend with the
    /// generated NSEC records, generate again.  After every step: the
    /// collection (owner, type) and the chain.
    pub fn zonebuild_case(input: &Value) -> Value {
        let apex = name_of(&input["apex"]);
        let mut sorted: SortedRecords<SName, SData> = SortedRecords::new();
        let mut steps = vec![];
        for op in input["ops"].as_array().cloned().unwrap_or_default() {
            let batch = match zone_records(&json!({"recs": op["batch"], "soa": {"ttl": 3600, "min": 300}})) {
                Ok(b) => b,
                Err(e) => return json!({"bad_batch": e}),
            };
            let mut chain = json!([]);
            match op["op"].as_str().unwrap_or("") {
                "from" => sorted = SortedRecords::from(batch),
                "extend" => sorted.extend(batch),
                "insert" => {
                    for r in batch {
                        let _ = sorted.insert(r);
                    }
                }
                "gen_extend" => match nsec_on(&sorted, &apex) {
                    Ok((c, recs)) => {
                        chain = c;
                        sorted.extend(recs);
                    }
                    Err(e) => {
                        steps.push(json!({"err": e}));
                        continue;
                    }
                },
                "gen" => match nsec_on(&sorted, &apex) {
                    Ok((c, _)) => chain = c,
                    Err(e) => {
                        steps.push(json!({"err": e}));
                        continue;
                    }
                },
                _ => return json!({"bad_op": true}),
            }
            steps.push(json!({"coll": coll_json(&sorted), "chain": chain}));
        }
        json!({"steps": steps})
    }

    pub fn bitmap_case(input: &Value) -> Value {
        let mut b = RtypeBitmapBuilder::<Vec<u8>>::new_vec();
        for t in input["adds"].as_array().cloned().unwrap_or_default() {
            if b.add(rtype(t.as_u64().unwrap_or(0) as u16)).is_err() {
                return json!({"err": true});
            }
        }
        let bm: RtypeBitmap<Vec<u8>> = b.finalize();
        json!({"octets": jbytes(bm.as_slice()), "types": types_of(&bm)})
    }

    /// independent NSEC3 hash (RFC 5155 5) with ring
    pub fn indep_hash(lower_wire: &[u8], salt: &[u8], iters: u16) -> Vec<u8> {
        let mut x = lower_wire.to_vec();
        x.extend_from_slice(salt);
        let mut h = ring::digest::digest(&ring::digest::SHA1_FOR_LEGACY_USE_ONLY, &x).as_ref().to_vec();
        for _ in 0..iters {
            let mut y = h.clone();
            y.extend_from_slice(salt);
            h = ring::digest::digest(&ring::digest::SHA1_FOR_LEGACY_USE_ONLY, &y).as_ref().to_vec();
        }
        h
    }

    fn lower_labels(n: &[Vec<u8>]) -> Vec<Vec<u8>> {
        n.iter().map(|l| l.iter().map(|b| b.to_ascii_lowercase()).collect()).collect()
    }
    fn jl(n: &[Vec<u8>]) -> Value {
        Value::Array(n.iter().map(|l| jbytes(l)).collect())
    }
    fn wire(n: &[Vec<u8>]) -> Vec<u8> {
        name_wire(&jl(n))
    }

    /// I->S: random zones, one event per zone with both generated chains.
    pub fn record(out: &str, seed: u64, zones: u64, max_names: u64) {
        use verif_harness::common::{Rng, TraceWriter};
        let mut w = TraceWriter::create(out);
        let mut rng = Rng::new(seed);
        let alphabet: [&[u8]; 8] = [b"a", b"b", b"c", b"d", b"A", b"B", b"*", b"x1"];
        // [2, 6, 15]: the collection also holds the delegated child's apex
        // data (SOA, MX) at the delegation point
        let menus: [&[u16]; 11] = [&[1], &[1, 28], &[16], &[15, 16, 257], &[2], &[2, 43], &[2, 1], &[33], &[2],
                                   &[2, 6, 15], &[2, 43, 6]];
        let thorough = verif_harness::common::tier_thorough();
        let mut z = 0;
        while z < zones {
            let mut apex: Vec<Vec<u8>> = if rng.chance(1, 2) { vec![b"ex".to_vec()] } else { vec![b"Zone".to_vec(), b"ex".to_vec()] };
            if rng.chance(1, 4) {
                // an apex at the length limit: 220..222 wire octets leave just
                // room for the 33-octet hash label
                let w = 220 + rng.below(3) as usize;
                let l63 = |c: u8| -> Vec<u8> { (0..63).map(|i| c + (i % 5) as u8).collect() };
                apex = vec![(0..(w - 194)).map(|i| b'0' + (i % 10) as u8).collect(), l63(b'a'), l63(b'A'), l63(b'k')];
            }
            // the name tree
            let mut names: Vec<Vec<Vec<u8>>> = vec![apex.clone()];
            let target = 2 + rng.below(max_names);
            let mut recs: Vec<(Vec<Vec<u8>>, u16)> = vec![];
            let mut seen = std::collections::BTreeSet::new();
            let mut apex_types = vec![6u16, 2];
            if rng.chance(1, 2) {
                apex_types.extend([48, 1]);
            }
            for t in apex_types {
                seen.insert((lower_labels(&apex), t));
                recs.push((apex.clone(), t));
            }
            for _ in 0..target {
                let base = names[rng.below(names.len() as u64) as usize].clone();
                if base.len() >= apex.len() + 4 {
                    continue;
                }
                let mut n = vec![alphabet[rng.below(8) as usize].to_vec()];
                if rng.chance(1, 3) {
                    n.push(alphabet[rng.below(6) as usize].to_vec()); // skips a level: an ENT
                }
                n.extend(base.iter().cloned());
                names.push(n.clone());
                for t in menus[rng.below(11) as usize] {
                    if seen.insert((lower_labels(&n), *t)) {
                        recs.push((n.clone(), *t));
                    }
                }
            }
            // limit shapes: an owner name of wire length 253..255 made of
            // 63-octet labels; (thorough) the maximum number of labels
            let apex_wire: usize = apex.iter().map(|l| l.len() + 1).sum::<usize>() + 1;
            if rng.chance(1, 2) {
                let total = 253 + rng.below(3) as usize;
                let mut room = total - apex_wire;
                let mut n: Vec<Vec<u8>> = vec![];
                while room > 0 {
                    let l = std::cmp::min(63, room - 1);
                    if l == 0 {
                        break;
                    }
                    n.push((0..l).map(|i| if rng.chance(1, 4) { b'A' + (i % 7) as u8 } else { b'a' + (i % 7) as u8 }).collect());
                    room -= l + 1;
                }
                if room == 0 {
                    n.reverse();
                    n.extend(apex.iter().cloned());
                    if seen.insert((lower_labels(&n), 1)) {
                        recs.push((n.clone(), 1));
                        names.push(n);
                    }
                }
            }
            if thorough && rng.chance(1, 4) {
                let mut room = 254 + rng.below(2) as usize - apex_wire;
                let mut n: Vec<Vec<u8>> = vec![];
                if room % 2 == 1 {
                    n.push(b"xy".to_vec());
                    room -= 3;
                }
                while room >= 2 {
                    n.push(vec![b'a' + (room % 3) as u8]);
                    room -= 2;
                }
                n.extend(apex.iter().cloned());
                if seen.insert((lower_labels(&n), 16)) {
                    recs.push((n.clone(), 16));
                }
            }
            if rng.chance(1, 3) {
                recs.push((vec![b"a".to_vec()], 1));
            }
            if rng.chance(1, 3) {
                recs.push((vec![b"zz".to_vec()], 1));
            }
            let assume = rng.chance(1, 2);
            let optout = *rng.pick(&["none", "exclude", "flagonly"]);
            let nsalt = rng.below(5) as usize;
            let salt = rng.bytes(nsalt);
            let iters = rng.below(4) as u16;
            let (soa_ttl, soa_min) = if rng.chance(1, 2) { (3600, 300) } else { (60, 86400) };
            let input = json!({"recs": recs.iter().map(|(n, t)| json!({"n": jl(n), "t": t})).collect::<Vec<_>>(),
                               "soa": {"ttl": soa_ttl, "min": soa_min}});
            let lib = match zone_records(&input) {
                Ok(r) => r,
                Err(_) => continue,
            };
            let apex_name = name_of(&jl(&apex));
            // the collection is assembled the way a caller might: at once, or
            // in batches that repeat records (extend / insert)
            let assembly = *rng.pick(&["from", "extend2", "insert+extend"]);
            let mut sorted: SortedRecords<SName, SData> = match assembly {
                "from" => SortedRecords::from(lib.clone()),
                "extend2" => {
                    let k = rng.below(lib.len() as u64 + 1) as usize;
                    let mut s = SortedRecords::new();
                    let mut b1 = lib[..k].to_vec();
                    b1.push(lib[0].clone());
                    s.extend(b1);
                    let mut b2 = lib[k..].to_vec();
                    b2.reverse();
                    b2.push(lib[0].clone());
                    b2.extend(lib[..k.min(3)].iter().cloned());
                    s.extend(b2);
                    s
                }
                _ => {
                    let mut s = SortedRecords::new();
                    for r in lib.iter().rev() {
                        let _ = s.insert(r.clone());
                    }
                    s.extend(lib.iter().take(4).cloned().collect::<Vec<_>>());
                    s
                }
            };
            let sorted_j: Vec<Value> = sorted.iter().map(|r| json!({"n": jname(r.owner()), "t": r.rtype().to_int()})).collect();
            // a panic of the generators is an outcome (the trace
            // specification rejects it), never a crash of the recorder
            use std::panic::{catch_unwind, AssertUnwindSafe};
            let nsec = match catch_unwind(AssertUnwindSafe(|| run_nsec_on(&sorted, &apex_name, assume))) {
                Ok(Ok((c, ttl, _))) => json!({"chain": c, "ttl": ttl}),
                Ok(Err(e)) => json!({"chain": [], "ttl": 0, "err": e}),
                Err(_) => json!({"chain": [], "ttl": 0, "err": "panic"}),
            };
            // the NSEC3 configuration through the public setters, in a random order
            let mut setters: Vec<String> = vec![];
            if !assume {
                setters.push("no_dnskey".into());
            }
            if optout != "none" {
                setters.push("opt_out".into());
            }
            if optout == "flagonly" {
                setters.push("no_exclude".into());
            }
            for i in (1..setters.len()).rev() {
                setters.swap(i, rng.below(i as u64 + 1) as usize);
            }
            let n3 = match catch_unwind(AssertUnwindSafe(|| run_nsec3_on(&sorted, &apex_name, assume, optout, &salt, iters, Some(setters.clone())))) {
                Ok(r) => r,
                Err(_) => Err("panic".to_string()),
            };
            // the workflow: extend the collection with the generated NSEC
            // records (twice), generate again
            let again = catch_unwind(AssertUnwindSafe(|| {
                let s2 = &mut sorted;
                for _ in 0..2 {
                    let (_, recs) = nsec_on(s2, &apex_name)?;
                    s2.extend(recs);
                }
                let cfg = if assume { GenerateNsecConfig::new() } else { GenerateNsecConfig::new().without_assuming_dnskeys_will_be_added() };
                let out = generate_nsecs(&apex_name, s2.owner_rrs(), &cfg).map_err(|e| format!("{e}"))?;
                let chain: Vec<Value> = out.iter().map(|r| json!({"owner": jname_lower(r.owner()),
                    "next": jname_lower(r.data().next_name()), "types": types_of(r.data().types())})).collect();
                Ok::<(Value, Value), String>((Value::Array(chain), coll_json(s2)))
            }));
            let (nsec_again, recs2, again_err) = match again {
                Ok(Ok((c, r))) => (c, r, false),
                _ => (json!([]), json!([]), true),
            };
            // candidate names: owners and all their ancestors down to the apex
            let mut cands = std::collections::BTreeSet::new();
            for (n, _) in &recs {
                let l = lower_labels(n);
                for k in 0..l.len() {
                    cands.insert(l[k..].to_vec());
                }
            }
            let mut hashed: Vec<(Vec<u8>, Vec<Vec<u8>>)> =
                cands.iter().map(|n| (indep_hash(&wire(n), &salt, iters), n.clone())).collect();
            hashed.sort();
            let ranks: Vec<Value> = hashed.iter().enumerate().map(|(i, (_, n))| json!({"n": jl(n), "r": i + 1})).collect();
            let lookup = |h: &[u8]| -> Value {
                match hashed.iter().find(|(x, _)| x == h) {
                    Some((_, n)) => jl(n),
                    None => json!([[63]]),
                }
            };
            let n3j = match &n3 {
                Ok(o) => json!({"chain": o.recs.iter().map(|r| json!({"owner": lookup(&r.0), "next": lookup(&r.1), "types": r.2})).collect::<Vec<_>>(),
                                "flags": o.recs.iter().map(|r| r.3).max().unwrap_or(0),
                                "flagsmin": o.recs.iter().map(|r| r.3).min().unwrap_or(0),
                                "ttl": o.recs.first().map(|r| r.6).unwrap_or(0)}),
                Err(e) => json!({"chain": [], "flags": 0, "flagsmin": 0, "ttl": 0, "err": e}),
            };
            // probes: absent and present names with a few types
            let mut probes = vec![];
            for _ in 0..30 {
                let base = names[rng.below(names.len() as u64) as usize].clone();
                let mut q = lower_labels(&base);
                match rng.below(4) {
                    0 => q.insert(0, b"q".to_vec()),
                    1 => q.insert(0, b"*".to_vec()),
                    2 if q.len() > apex.len() => { q[0] = b"qq".to_vec(); }
                    _ => {}
                }
                probes.push(json!({"q": jl(&q), "t": *rng.pick(&[1u16, 2, 16, 43, 99])}));
            }
            w.event(json!({"ev": "zone", "apex": jl(&apex), "recs": sorted_j, "assume": assume,
                           "exclude": optout == "exclude", "optflag": if optout == "none" { 0 } else { 1 },
                           "soattl": std::cmp::min(soa_ttl, soa_min),
                           "assembly": assembly, "setters": setters,
                           "nsec_again": nsec_again, "recs2": recs2, "again_err": again_err,
                           "nsec": nsec["chain"], "nsecttl": nsec["ttl"], "nsecerr": nsec.get("err").is_some(),
                           "nsec3": n3j["chain"], "n3flags": n3j["flags"], "n3flagsmin": n3j["flagsmin"],
                           "n3ttl": n3j["ttl"], "n3err": n3j.get("err").is_some(),
                           "ranks": ranks, "probes": probes}));
            z += 1;
        }
        w.finish();
    }
}
