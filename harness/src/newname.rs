//! X10: observation functions for the new API's names, labels and wire
//! primitives (shared by replay_newname and record_newname).  Every function
//! performs the case on the real types through every route it knows and
//! returns the observation in the shape of MC_NewNames.tla's expectations;
//! disagreements between routes are listed in `issues`.
#![allow(dead_code)]

use domain::new::base::name::{
    CanonicalName, Label, LabelBuf, Name, NameBuf, RevName, RevNameBuf, UnparsedName,
};
use domain::new::base::parse::{ParseMessageBytes, SplitMessageBytes};
use domain::new::base::wire::{
    AsBytes, BuildBytes, ParseBytes, SizePrefixed, SplitBytes, TruncationError, U16, U32,
};
use domain::new::base::{CharStr, CharStrBuf, Serial};
use domain::utils::dst::{UnsizedCopy, UnsizedCopyFrom};
use serde_json::{json, Value};
use std::cmp::Ordering;
use std::collections::hash_map::DefaultHasher;
use std::hash::{Hash, Hasher};
use std::panic::{catch_unwind, AssertUnwindSafe};
use verif_harness::common::*;

fn ord(o: Ordering) -> i64 {
    match o {
        Ordering::Less => -1,
        Ordering::Equal => 0,
        Ordering::Greater => 1,
    }
}
fn h<T: Hash + ?Sized>(t: &T) -> u64 {
    let mut s = DefaultHasher::new();
    t.hash(&mut s);
    s.finish()
}
fn fail() -> Value {
    json!({"ok": false})
}
fn jb(b: &[u8]) -> Value {
    json_bytes(b)
}

/// a name through the message parser: uncompressed at an offset, and with
/// its tail shared through a compression pointer
fn via_message(wire: &[u8]) -> Vec<Vec<u8>> {
    let mut out = vec![];
    // uncompressed, preceded by three octets
    let mut c = vec![0u8, 0, 0];
    c.extend_from_slice(wire);
    if let Ok((n, end)) = NameBuf::split_message_bytes(&c, 3) {
        if end == c.len() {
            out.push(n.as_bytes().to_vec());
        } else {
            out.push(vec![0xFF]);
        }
    } else {
        out.push(vec![0xFF]);
    }
    // compressed: tail first, then the first label + pointer to offset 0
    if wire.len() > 1 {
        let l = wire[0] as usize;
        let mut c = wire[1 + l..].to_vec();
        let start = c.len();
        c.extend_from_slice(&wire[..1 + l]);
        c.extend_from_slice(&[0xC0, 12]);
        match (NameBuf::parse_message_bytes(&c, start), RevNameBuf::parse_message_bytes(&c, start)) {
            (Ok(n), Ok(r)) => {
                out.push(n.as_bytes().to_vec());
                out.push(r.to_name().as_bytes().to_vec());
            }
            _ => out.push(vec![0xFE]),
        }
    }
    out
}

pub fn obs_pair(a: &[u8], b: &[u8]) -> Value {
    let mut issues: Vec<String> = vec![];
    let (na, nb) = match (NameBuf::parse_bytes(a), NameBuf::parse_bytes(b)) {
        (Ok(x), Ok(y)) => (x, y),
        _ => return json!({"invalid_operand": true}),
    };
    let (ra, rb): (&Name, &Name) = (&na, &nb);
    let eq = ra == rb;
    let cmp = ord(ra.cmp(rb));
    // routes to the same forward name
    let refa = <&Name>::parse_bytes(a).unwrap();
    let refb = <&Name>::parse_bytes(b).unwrap();
    let boxa: Box<Name> = ra.unsized_copy_into();
    let boxb: Box<Name> = rb.unsized_copy_into();
    let boxa2 = boxa.clone();
    let copya = NameBuf::copy_from(ra);
    let copyb = NameBuf::unsized_copy_from(rb);
    let clonea = na.clone();
    for (name, x, y) in [
        ("&Name", refa, refb),
        ("Box<Name>", &*boxa2, &*boxb),
        ("copy_from", &*copya, &*copyb),
        ("clone", &*clonea, rb),
    ] {
        if x.as_bytes() != a || y.as_bytes() != b {
            issues.push(format!("{name}: octets changed"));
        }
        if (x == y) != eq {
            issues.push(format!("{name}: == differs"));
        }
        if ord(x.cmp(y)) != cmp {
            issues.push(format!("{name}: cmp differs"));
        }
        if x.partial_cmp(y) != Some(x.cmp(y)) {
            issues.push(format!("{name}: partial_cmp differs from cmp"));
        }
        if h(x) != h(ra) {
            issues.push(format!("{name}: hash differs from the hash of the same name"));
        }
    }
    if (na == nb) != eq || ord(na.cmp(&nb)) != cmp || na.partial_cmp(&nb) != Some(na.cmp(&nb)) {
        issues.push("NameBuf: ==/cmp differ from Name".into());
    }
    if (boxa == boxb) != eq {
        issues.push("Box<Name>: == differs".into());
    }
    if h(&na) != h(ra) || h(&boxa) != h(ra) {
        issues.push("NameBuf/Box hash differs from Name hash".into());
    }
    if ord(rb.cmp(ra)) != -cmp {
        issues.push("Name: cmp is not antisymmetric".into());
    }
    if (cmp == 0) != eq {
        issues.push("Name: cmp = Equal differs from ==".into());
    }
    if (ra < rb) != (cmp < 0) || (ra > rb) != (cmp > 0) || (ra <= rb) != (cmp <= 0) {
        issues.push("Name: operators differ from cmp".into());
    }
    // reversed representation, by three routes
    let va = RevNameBuf::parse_bytes(a).unwrap();
    let vb = RevNameBuf::parse_bytes(b).unwrap();
    let va2 = ra.to_revname();
    let vb2: RevNameBuf = nb.clone().into();
    let rcmp = ord((*va).cmp(&*vb));
    let req = *va == *vb;
    if va.as_bytes() != va2.as_bytes() || vb.as_bytes() != vb2.as_bytes() {
        issues.push("RevNameBuf: parse_bytes / to_revname / From differ".into());
    }
    if req != eq {
        issues.push("RevName: == differs from Name ==".into());
    }
    if (va == vb) != req || ord(va.cmp(&vb)) != rcmp || (*va).partial_cmp(&*vb) != Some((*va).cmp(&*vb)) {
        issues.push("RevNameBuf: ==/cmp/partial_cmp differ from RevName".into());
    }
    if ord((*vb).cmp(&*va)) != -rcmp {
        issues.push("RevName: cmp is not antisymmetric".into());
    }
    if (rcmp == 0) != req {
        issues.push("RevName: cmp = Equal differs from ==".into());
    }
    let rboxa: Box<RevName> = (*va).unsized_copy_into();
    let rboxa = rboxa.clone();
    if h(&*va) != h(&va) || h(&*rboxa) != h(&*va) || rboxa.as_bytes() != va.as_bytes() {
        issues.push("RevNameBuf / Box<RevName> hash or octets differ".into());
    }
    if va.to_name().as_bytes() != a || NameBuf::from(vb.clone()).as_bytes() != b {
        issues.push("forward -> reversed -> forward changed the name".into());
    }
    let hash_ok = !eq || (h(ra) == h(rb) && h(&*va) == h(&*vb) && h(&na) == h(&nb) && h(&va) == h(&vb));
    for (w, which) in [(a, "a"), (b, "b")] {
        for got in via_message(w) {
            if got != w {
                issues.push(format!("{which}: message parser gives different octets"));
            }
        }
        let text = format!("{}", NameBuf::parse_bytes(w).unwrap());
        match NameBuf::parse_str(text.as_bytes()) {
            Ok(n) if n.as_bytes() == w => {}
            _ => issues.push(format!("{which}: parse_str(Display) is not the name")),
        }
        match text.parse::<RevNameBuf>() {
            Ok(n) if n.to_name().as_bytes() == w => {}
            _ => issues.push(format!("{which}: RevNameBuf::from_str(Display) is not the name")),
        }
    }
    json!({"eq": eq, "cmp": cmp, "rcmp": rcmp,
           "composed": ord(ra.cmp_composed(rb)), "lcomposed": ord(ra.cmp_lowercase_composed(rb)),
           "hash_ok": hash_ok, "issues": issues})
}

pub fn label_buf(c: &[u8]) -> Option<LabelBuf> {
    let mut l = LabelBuf::new();
    l.append(c).ok()?;
    Some(l)
}

pub fn obs_lpair(a: &[u8], b: &[u8]) -> Value {
    let mut issues: Vec<String> = vec![];
    let (ba, bb) = match (label_buf(a), label_buf(b)) {
        (Some(x), Some(y)) => (x, y),
        _ => return json!({"invalid_operand": true}),
    };
    let (la, lb): (&Label, &Label) = (&ba, &bb);
    let eq = la == lb;
    let cmp = ord(la.cmp(lb));
    let mut wa = vec![a.len() as u8];
    wa.extend_from_slice(a);
    let mut wb = vec![b.len() as u8];
    wb.extend_from_slice(b);
    let pa = <&Label>::parse_bytes(&wa).unwrap();
    let pb = <&Label>::parse_bytes(&wb).unwrap();
    let xa: Box<Label> = la.to_boxed();
    let xb: Box<Label> = lb.unsized_copy_into();
    let ca = LabelBuf::copy_from(la);
    let cb = lb.to_buf();
    for (name, x, y) in [("parse_bytes", pa, pb), ("Box<Label>", &*xa.clone(), &*xb), ("copy", &*ca, &*cb)] {
        if x.contents() != a || y.contents() != b || x.as_wire() != &wa[..] {
            issues.push(format!("{name}: octets changed"));
        }
        if (x == y) != eq || ord(x.cmp(y)) != cmp || x.partial_cmp(y) != Some(x.cmp(y)) {
            issues.push(format!("{name}: ==/cmp differ"));
        }
        if h(x) != h(la) {
            issues.push(format!("{name}: hash differs"));
        }
    }
    if (ba == bb) != eq || ord(ba.cmp(&bb)) != cmp || h(&ba) != h(la) {
        issues.push("LabelBuf: ==/cmp/hash differ from Label".into());
    }
    if ord(lb.cmp(la)) != -cmp || (cmp == 0) != eq {
        issues.push("Label: cmp not antisymmetric or inconsistent with ==".into());
    }
    if la.is_wildcard() != (la == Label::WILDCARD) || la.is_root() != (la == Label::ROOT) {
        issues.push("Label: is_wildcard / is_root differ from == WILDCARD / ROOT".into());
    }
    let text = format!("{la}");
    match LabelBuf::parse_str(text.as_bytes()) {
        Ok(l) if l.contents() == a => {}
        _ => issues.push("LabelBuf::parse_str(Display) is not the label".into()),
    }
    let mut low = ba.clone();
    low.make_lowercase();
    let hash_ok = !eq || (h(la) == h(lb) && h(&ba) == h(&bb));
    json!({"eq": eq, "cmp": cmp, "hash_ok": hash_ok, "wild": la.is_wildcard(), "root": la.is_root(),
           "lower": jb(low.contents()), "issues": issues})
}

fn charstr_wire(a: &[u8]) -> Vec<u8> {
    let mut w = vec![a.len() as u8];
    w.extend_from_slice(a);
    w
}

pub fn obs_cpair(a: &[u8], b: &[u8]) -> Value {
    let mut issues: Vec<String> = vec![];
    if a.len() > 255 || b.len() > 255 {
        return json!({"invalid_operand": true});
    }
    let (wa, wb) = (charstr_wire(a), charstr_wire(b));
    let ca = <&CharStr>::parse_bytes(&wa).unwrap();
    let cb = <&CharStr>::parse_bytes(&wb).unwrap();
    let eq = ca == cb;
    let ba = CharStrBuf::copy_from(ca);
    let bb = CharStrBuf::parse_bytes(&wb).unwrap();
    let xa: Box<CharStr> = ca.unsized_copy_into();
    let xa = xa.clone();
    if (ba == bb) != eq || (*xa == *cb) != eq || (ba.clone() == bb) != eq {
        issues.push("CharStrBuf / Box<CharStr>: == differs".into());
    }
    if ba.octets != *a || xa.octets != *a || ba.wire_bytes() != &wa[..] || ca.len() != a.len() {
        issues.push("CharStr: octets changed".into());
    }
    if h(&*xa) != h(ca) {
        issues.push("Box<CharStr>: hash differs".into());
    }
    let hash_ok = !eq || h(ca) == h(cb);
    json!({"eq": eq, "hash_ok": hash_ok, "issues": issues})
}

fn ok_data(data: &[u8], rest: &[u8]) -> Value {
    json!({"ok": true, "data": jb(data), "rest": jb(rest)})
}

pub fn obs_bytes(b: &[u8]) -> Value {
    let mut issues: Vec<String> = vec![];
    // names
    let name = match NameBuf::split_bytes(b) {
        Ok((n, rest)) => {
            match <&Name>::split_bytes(b) {
                Ok((m, r2)) if m.as_bytes() == n.as_bytes() && r2 == rest => {}
                _ => issues.push("&Name::split_bytes differs from NameBuf::split_bytes".into()),
            }
            match RevNameBuf::split_bytes(b) {
                Ok((r, r2)) => {
                    if r2 != rest {
                        issues.push("RevNameBuf::split_bytes: different rest".into());
                    }
                    if n.len() > 255 || r.len() != n.len() || n.built_bytes_size() != n.len() {
                        issues.push("name length".into());
                    }
                    json!({"ok": true, "wire": jb(n.as_bytes()), "rev": jb(r.as_bytes()), "rest": jb(rest)})
                }
                Err(_) => {
                    issues.push("RevNameBuf::split_bytes refuses what NameBuf accepts".into());
                    json!({"ok": true, "wire": jb(n.as_bytes()), "rev": [], "rest": jb(rest)})
                }
            }
        }
        Err(_) => {
            if <&Name>::split_bytes(b).is_ok() || RevNameBuf::split_bytes(b).is_ok() {
                issues.push("name split_bytes: routes disagree on rejection".into());
            }
            fail()
        }
    };
    let pname = NameBuf::parse_bytes(b).is_ok();
    if <&Name>::parse_bytes(b).is_ok() != pname || RevNameBuf::parse_bytes(b).is_ok() != pname {
        issues.push("name parse_bytes: routes disagree".into());
    }
    // labels
    let label = match <&Label>::split_bytes(b) {
        Ok((l, rest)) => {
            match LabelBuf::split_bytes(b) {
                Ok((l2, r2)) if l2.as_wire() == l.as_wire() && r2 == rest => {}
                _ => issues.push("LabelBuf::split_bytes differs".into()),
            }
            json!({"ok": true, "label": jb(l.contents()), "rest": jb(rest)})
        }
        Err(_) => {
            if LabelBuf::split_bytes(b).is_ok() {
                issues.push("LabelBuf::split_bytes accepts".into());
            }
            fail()
        }
    };
    let plabel = <&Label>::parse_bytes(b).is_ok();
    if LabelBuf::parse_bytes(b).is_ok() != plabel {
        issues.push("LabelBuf::parse_bytes differs".into());
    }
    // character strings
    let charstr = match <&CharStr>::split_bytes(b) {
        Ok((c, rest)) => {
            match CharStrBuf::split_bytes(b) {
                Ok((c2, r2)) if c2.octets == c.octets && r2 == rest => {}
                _ => issues.push("CharStrBuf::split_bytes differs".into()),
            }
            ok_data(&c.octets, rest)
        }
        Err(_) => {
            if CharStrBuf::split_bytes(b).is_ok() {
                issues.push("CharStrBuf::split_bytes accepts".into());
            }
            fail()
        }
    };
    let pcharstr = <&CharStr>::parse_bytes(b).is_ok();
    if CharStrBuf::parse_bytes(b).is_ok() != pcharstr {
        issues.push("CharStrBuf::parse_bytes differs".into());
    }
    // integers
    let u16v = match U16::split_bytes(b) {
        Ok((v, rest)) => {
            if v.get() != u16::from_be_bytes([b[0], b[1]]) || <&U16>::split_bytes(b).map(|(x, r)| (*x, r)) != Ok((v, rest)) {
                issues.push("U16 value / zero-copy route differs".into());
            }
            json!({"ok": true, "v": jb(v.as_bytes()), "rest": jb(rest)})
        }
        Err(_) => fail(),
    };
    let pu16 = U16::parse_bytes(b).is_ok();
    if <&U16>::parse_bytes(b).is_ok() != pu16 {
        issues.push("&U16::parse_bytes differs".into());
    }
    let u32v = match U32::split_bytes(b) {
        Ok((v, rest)) => {
            if v.get() != u32::from_be_bytes([b[0], b[1], b[2], b[3]]) {
                issues.push("U32 value differs".into());
            }
            match Serial::split_bytes(b) {
                Ok((s, r2)) if s.get() == v.get() && r2 == rest => {}
                _ => issues.push("Serial::split_bytes differs from U32".into()),
            }
            json!({"ok": true, "v": jb(v.as_bytes()), "rest": jb(rest)})
        }
        Err(_) => fail(),
    };
    let pu32 = U32::parse_bytes(b).is_ok();
    if Serial::parse_bytes(b).is_ok() != pu32 {
        issues.push("Serial::parse_bytes differs from U32".into());
    }
    // size-prefixed octet strings
    let sp1 = match <SizePrefixed<u8, Vec<u8>>>::split_bytes(b) {
        Ok((d, rest)) => ok_data(&d, rest),
        Err(_) => fail(),
    };
    let sp1z = match <&SizePrefixed<u8, [u8]>>::split_bytes(b) {
        Ok((d, rest)) => ok_data(d, rest),
        Err(_) => fail(),
    };
    let sp2 = match <SizePrefixed<U16, Vec<u8>>>::split_bytes(b) {
        Ok((d, rest)) => ok_data(&d, rest),
        Err(_) => fail(),
    };
    let sp2z = match <&SizePrefixed<U16, [u8]>>::split_bytes(b) {
        Ok((d, rest)) => ok_data(d, rest),
        Err(_) => fail(),
    };
    if sp1 != sp1z || sp2 != sp2z {
        issues.push("SizePrefixed::split_bytes: zero-copy route differs".into());
    }
    let psp1 = match <SizePrefixed<u8, Vec<u8>>>::parse_bytes(b) {
        Ok(d) => ok_data(&d, &[]),
        Err(_) => fail(),
    };
    let psp1z = match <&SizePrefixed<u8, [u8]>>::parse_bytes(b) {
        Ok(d) => ok_data(d, &[]),
        Err(_) => fail(),
    };
    let psp2 = match <SizePrefixed<U16, Vec<u8>>>::parse_bytes(b) {
        Ok(d) => ok_data(&d, &[]),
        Err(_) => fail(),
    };
    let psp2z = match <&SizePrefixed<U16, [u8]>>::parse_bytes(b) {
        Ok(d) => ok_data(d, &[]),
        Err(_) => fail(),
    };
    json!({"name": name, "pname": pname, "label": label, "plabel": plabel,
           "charstr": charstr, "pcharstr": pcharstr, "u16": u16v, "pu16": pu16, "u32": u32v, "pu32": pu32,
           "sp1": sp1, "psp1": psp1, "psp1z": psp1z, "sp2": sp2, "psp2": psp2, "psp2z": psp2z,
           "issues": issues})
}

fn guarded<F: FnOnce() -> Value>(f: F) -> Value {
    match catch_unwind(AssertUnwindSafe(f)) {
        Ok(v) => v,
        Err(_) => json!({"panic": true}),
    }
}

pub fn obs_msg(c: &[u8], start: usize) -> Value {
    let mut issues: Vec<String> = vec![];
    let name = match NameBuf::split_message_bytes(c, start) {
        Ok((n, end)) => {
            match RevNameBuf::split_message_bytes(c, start) {
                Ok((r, e2)) if e2 == end && r.to_name().as_bytes() == n.as_bytes() => {}
                _ => issues.push("RevNameBuf::split_message_bytes differs from NameBuf".into()),
            }
            if NameBuf::parse_bytes(n.as_bytes()).is_err() {
                issues.push("parsed name is not a valid name".into());
            }
            json!({"ok": true, "wire": jb(n.as_bytes()), "end": end})
        }
        Err(_) => {
            if RevNameBuf::split_message_bytes(c, start).is_ok() {
                issues.push("RevNameBuf::split_message_bytes accepts what NameBuf refuses".into());
            }
            fail()
        }
    };
    let pname = NameBuf::parse_message_bytes(c, start).is_ok();
    if RevNameBuf::parse_message_bytes(c, start).is_ok() != pname {
        issues.push("RevNameBuf::parse_message_bytes differs".into());
    }
    let unparsed = guarded(|| match <&UnparsedName>::split_message_bytes(c, start) {
        Ok((u, end)) => json!({"ok": true, "bytes": jb(u.as_bytes()), "end": end}),
        Err(_) => fail(),
    });
    let label = guarded(|| match <&Label>::split_message_bytes(c, start) {
        Ok((l, end)) => json!({"ok": true, "label": jb(l.contents()), "end": end}),
        Err(_) => fail(),
    });
    let label2 = guarded(|| match LabelBuf::split_message_bytes(c, start) {
        Ok((l, end)) => json!({"ok": true, "label": jb(l.contents()), "end": end}),
        Err(_) => fail(),
    });
    if label != label2 {
        issues.push("LabelBuf::split_message_bytes differs from &Label".into());
    }
    let charstr = guarded(|| match <&CharStr>::split_message_bytes(c, start) {
        Ok((s, end)) => json!({"ok": true, "data": jb(&s.octets), "end": end}),
        Err(_) => fail(),
    });
    let charstr2 = guarded(|| match CharStrBuf::split_message_bytes(c, start) {
        Ok((s, end)) => json!({"ok": true, "data": jb(&s.octets), "end": end}),
        Err(_) => fail(),
    });
    if charstr != charstr2 {
        issues.push("CharStrBuf::split_message_bytes differs from &CharStr".into());
    }
    json!({"name": name, "pname": pname, "unparsed": unparsed, "label": label, "charstr": charstr,
           "issues": issues})
}

pub fn obs_text(s: &[u8]) -> Value {
    let mut issues: Vec<String> = vec![];
    let name = match NameBuf::parse_str(s) {
        Ok(n) => {
            match RevNameBuf::parse_str(s) {
                Ok(r) if r.to_name().as_bytes() == n.as_bytes() => {}
                _ => issues.push("RevNameBuf::parse_str differs".into()),
            }
            if NameBuf::parse_bytes(n.as_bytes()).is_err() {
                issues.push("parse_str produced an invalid name".into());
            }
            json!({"ok": true, "wire": jb(n.as_bytes())})
        }
        Err(_) => {
            if RevNameBuf::parse_str(s).is_ok() {
                issues.push("RevNameBuf::parse_str accepts".into());
            }
            fail()
        }
    };
    if let Ok(t) = std::str::from_utf8(s) {
        let f = t.parse::<NameBuf>().map(|n| n.as_bytes().to_vec()).ok();
        let g = NameBuf::parse_str(s).map(|n| n.as_bytes().to_vec()).ok();
        if f != g {
            issues.push("FromStr differs from parse_str".into());
        }
    }
    let label = match LabelBuf::parse_str(s) {
        Ok(l) => json!({"ok": true, "label": jb(l.contents())}),
        Err(_) => fail(),
    };
    json!({"name": name, "label": label, "issues": issues})
}

pub fn obs_show(a: &[u8]) -> Value {
    let mut issues: Vec<String> = vec![];
    let n = match NameBuf::parse_bytes(a) {
        Ok(n) => n,
        Err(_) => return json!({"invalid_operand": true}),
    };
    let text = format!("{n}");
    if format!("{}", &*n) != text || format!("{:?}", &*n) != format!("Name({text})") {
        issues.push("Display of Name / NameBuf / Debug differ".into());
    }
    match NameBuf::parse_str(text.as_bytes()) {
        Ok(m) if m.as_bytes() == a => {}
        _ => issues.push("parse_str(Display) is not the name".into()),
    }
    let r = n.to_revname();
    let fl: Vec<Vec<u8>> = n.labels().map(|l| l.contents().to_vec()).collect();
    let mut rl: Vec<Vec<u8>> = r.labels().map(|l| l.contents().to_vec()).collect();
    rl.reverse();
    if fl != rl {
        issues.push("labels() of the reversed name is not the reverse".into());
    }
    if n.is_root() != (a.len() == 1) || r.is_root() != n.is_root() || r.len() != n.len() {
        issues.push("is_root / len differ".into());
    }
    let labels: Vec<Value> = fl.iter().map(|l| jb(l)).collect();
    json!({"text": jb(text.as_bytes()), "rev": jb(r.as_bytes()), "labels": labels, "issues": issues})
}

fn build_obs<T: BuildBytes + ?Sized>(t: &T, k: usize, issues: &mut Vec<String>, what: &str) -> Value {
    let mut buf = vec![0xEEu8; k];
    let r: Result<usize, TruncationError> = t.build_bytes(&mut buf).map(|r| r.len());
    match r {
        Ok(rest) => {
            let out = &buf[..k - rest];
            if t.built_bytes_size() != out.len() {
                issues.push(format!("{what}: built_bytes_size differs from what was written"));
            }
            if buf[k - rest..].iter().any(|&x| x != 0xEE) {
                issues.push(format!("{what}: the returned remainder was written to"));
            }
            json!({"ok": true, "out": jb(out), "rest": rest})
        }
        Err(_) => {
            if t.built_bytes_size() <= k {
                issues.push(format!("{what}: refused although built_bytes_size fits"));
            }
            fail()
        }
    }
}

fn sp_build<S>(data: &[u8], k: usize, w: usize, max: usize, issues: &mut Vec<String>) -> Value
where
    S: AsBytes + Default + TryFrom<usize>,
{
    let r = catch_unwind(AssertUnwindSafe(|| {
        let mut buf = vec![0xEEu8; k];
        let sp = SizePrefixed::<S, Vec<u8>>::new(data.to_vec());
        let r = sp.build_bytes(&mut buf).map(|r| r.len());
        (r, buf, sp.built_bytes_size())
    }));
    match r {
        Ok((Ok(rest), buf, sz)) => {
            if sz != k - rest {
                issues.push("SizePrefixed: built_bytes_size differs".into());
            }
            json!({"ok": true, "out": jb(&buf[..k - rest]), "rest": rest})
        }
        Ok((Err(_), _, _)) => {
            if k < w + data.len() { fail() } else if data.len() > max { json!({"big": true}) } else { json!({"ok": false, "unexpected": true}) }
        }
        Err(_) => {
            if data.len() > max && k >= w + data.len() { json!({"big": true}) } else { json!({"panic": true}) }
        }
    }
}

pub fn obs_build(a: &[u8], k: usize) -> Value {
    let mut issues: Vec<String> = vec![];
    let n = match NameBuf::parse_bytes(a) {
        Ok(n) => n,
        Err(_) => return json!({"invalid_operand": true}),
    };
    let fwd = build_obs(&*n, k, &mut issues, "Name");
    let fwd2 = build_obs(&n, k, &mut issues, "NameBuf");
    if fwd != fwd2 {
        issues.push("NameBuf::build_bytes differs from Name".into());
    }
    let r = n.to_revname();
    let rev = build_obs(&*r, k, &mut issues, "RevName");
    let lower = {
        let mut buf = vec![0xEEu8; k];
        match n.build_lowercased_bytes(&mut buf).map(|r| r.len()) {
            Ok(rest) => json!({"ok": true, "out": jb(&buf[..k - rest]), "rest": rest}),
            Err(_) => fail(),
        }
    };
    let first = n.labels().next().unwrap();
    let label = build_obs(first, k, &mut issues, "Label");
    let cw = charstr_wire(a);
    let cs = <&CharStr>::parse_bytes(&cw).unwrap();
    let charstr = build_obs(cs, k, &mut issues, "CharStr");
    let sp1 = sp_build::<u8>(a, k, 1, 255, &mut issues);
    let sp2 = sp_build::<U16>(a, k, 2, 65535, &mut issues);
    let u16v = build_obs(&U16::new((a.len() * 257) as u16), k, &mut issues, "U16");
    json!({"fwd": fwd, "rev": rev, "lower": lower, "label": label, "charstr": charstr,
           "sp1": sp1, "sp2": sp2, "u16": u16v, "issues": issues})
}

pub fn obs_bigbuild(n: usize, k: usize) -> Value {
    let mut issues: Vec<String> = vec![];
    let data = vec![7u8; n];
    let sp1 = sp_build::<u8>(&data, k, 1, 255, &mut issues);
    let sp2 = sp_build::<U16>(&data, k, 2, 65535, &mut issues);
    json!({"sp1": sp1, "sp2": sp2})
}

pub fn serial_cmp(a: u32, b: u32) -> &'static str {
    match Serial::new(a).partial_cmp(&Serial::new(b)) {
        Some(Ordering::Less) => "LT",
        Some(Ordering::Equal) => "EQ",
        Some(Ordering::Greater) => "GT",
        None => "UNDEF",
    }
}

pub fn obs_serial(a: u32, b: u32, bits: u32) -> Value {
    let mut issues: Vec<String> = vec![];
    let sh = 32 - bits;
    let (x, y) = (a << sh, b << sh);
    let (sx, sy) = (Serial::new(x), Serial::from(y));
    let c = serial_cmp(x, y);
    if (sx < sy) != (c == "LT") || (sx > sy) != (c == "GT") || (sx == sy) != (c == "EQ")
        || (sx <= sy) != (c == "LT" || c == "EQ") || (sx >= sy) != (c == "GT" || c == "EQ")
    {
        issues.push("Serial: operators differ from partial_cmp".into());
    }
    let inc: i64 = if b < (1 << (bits - 1)) {
        let r = sx.inc(y as i32).get();
        if r & ((1u32 << sh) - 1) != 0 {
            issues.push("Serial::inc: low bits".into());
        }
        (r >> sh) as i64
    } else {
        -1
    };
    let be = x.to_be_bytes();
    let mut out = [0u8; 4];
    if Serial::parse_bytes(&be).map(|s| s.get()) != Ok(x)
        || sx.build_bytes(&mut out).map(|r| r.len()) != Ok(0)
        || out != be
        || sx.as_bytes() != be
        || u32::from(sx) != x
    {
        issues.push("Serial: wire round trip".into());
    }
    json!({"cmp": c, "inc": inc, "issues": issues})
}

/// one LabelBuf operation on a live buffer: "ok" / "err" / "panic"
pub fn apply_lbuf(buf: &mut LabelBuf, op: &str, arg: &Value) -> &'static str {
    let argb = bytes_of(arg);
    let argn = arg.as_array().and_then(|a| a.first()).and_then(|v| v.as_u64()).unwrap_or(0);
    let r = catch_unwind(AssertUnwindSafe(|| -> &'static str {
        match op {
            "new" => {
                *buf = LabelBuf::new();
                if LabelBuf::default().as_wire() != buf.as_wire() {
                    return "default-differs";
                }
                "ok"
            }
            "append" => if buf.append(&argb).is_ok() { "ok" } else { "err" },
            "push" => if buf.push(argn as u8).is_ok() { "ok" } else { "err" },
            "truncate" => {
                buf.truncate(argn as usize);
                "ok"
            }
            "lower" => {
                buf.make_lowercase();
                "ok"
            }
            "copy" => {
                let src = label_buf(&argb).expect("copy source");
                let l: &Label = &src;
                *buf = LabelBuf::copy_from(l);
                let others = [l.to_buf(), LabelBuf::unsized_copy_from(l), src.clone(), l.unsized_copy_into()];
                if others.iter().any(|o| o.as_wire() != buf.as_wire()) {
                    return "copies-differ";
                }
                "ok"
            }
            "parse_str" => match LabelBuf::parse_str(&argb) {
                Ok(l) => {
                    *buf = l;
                    "ok"
                }
                Err(_) => "err",
            },
            _ => "bad-op",
        }
    }));
    match r {
        Ok(x) => x,
        Err(_) => "panic",
    }
}

pub fn lbuf_issues(buf: &LabelBuf) -> Vec<String> {
    let mut issues: Vec<String> = vec![];
    let l: &Label = buf;
    let w = l.as_wire().to_vec();
    if w.len() > 64 || w[0] as usize != w.len() - 1 || l.contents() != &w[1..] {
        issues.push("LabelBuf: malformed label".into());
    }
    match <&Label>::parse_bytes(&w) {
        Ok(p) if p == l => {}
        _ => issues.push("LabelBuf: wire does not parse back".into()),
    }
    let mut out = [0u8; 64];
    match buf.build_bytes(&mut out).map(|r| r.len()) {
        Ok(rest) if out[..64 - rest] == w[..] => {}
        _ => issues.push("LabelBuf: build_bytes differs from as_wire".into()),
    }
    issues
}

/// one LabelBuf operation from a buffer holding `s`
pub fn obs_lbuf(s: &[u8], op: &str, arg: &Value) -> Value {
    let mut buf = match label_buf(s) {
        Some(b) => b,
        None => return json!({"invalid_state": true}),
    };
    let res = apply_lbuf(&mut buf, op, arg);
    json!({"res": res, "s": jb(buf.contents()), "issues": lbuf_issues(&buf)})
}

/// dispatch of one generated case
pub fn observe_case(input: &Value) -> Value {
    let n = |k: &str| input[k].as_u64().unwrap_or(0);
    match input["kind"].as_str() {
        Some("pair") => obs_pair(&bytes_of(&input["a"]), &bytes_of(&input["b"])),
        Some("lpair") => obs_lpair(&bytes_of(&input["a"]), &bytes_of(&input["b"])),
        Some("cpair") => obs_cpair(&bytes_of(&input["a"]), &bytes_of(&input["b"])),
        Some("bytes") => obs_bytes(&bytes_of(&input["b"])),
        Some("msg") => obs_msg(&bytes_of(&input["c"]), n("start") as usize),
        Some("text") => obs_text(&bytes_of(&input["s"])),
        Some("show") => obs_show(&bytes_of(&input["a"])),
        Some("build") => obs_build(&bytes_of(&input["a"]), n("k") as usize),
        Some("bigbuild") => obs_bigbuild(n("n") as usize, n("k") as usize),
        Some("serial") => obs_serial(n("a") as u32, n("b") as u32, n("bits") as u32),
        Some("lbuf") => obs_lbuf(&bytes_of(&input["s"]), input["op"].as_str().unwrap_or(""), &input["arg"]),
        _ => json!({"bad_case": true}),
    }
}
