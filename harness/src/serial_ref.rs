//! Width-generic reference for RFC 1982 serial arithmetic plus the helpers
//! shared by the C17 executors (limb encoding, library observation).
//!
//! `ref_cmp` / `ref_add` are written in the modular-difference form (not the
//! clause-by-clause form of Serial.tla, not the branch structure of the
//! library), for any width 1..=32.  They are *bound to the specification* by
//! TLC: every generated k-bit case (replay_serial) and every recorded 32-bit
//! limb event (record_serial -> Trace_Serial.tla) carries their result next
//! to the library's.  Only after that binding are they used to sweep all
//! 2^32 differences (sweep_serial), which TLC cannot enumerate.
#![allow(dead_code)]

use domain::base::Serial;
use domain::rdata::dnssec::Timestamp;
use std::cmp::Ordering;
use std::panic::{catch_unwind, AssertUnwindSafe};

pub fn ord_str(o: Option<Ordering>) -> &'static str {
    match o {
        Some(Ordering::Less) => "LT",
        Some(Ordering::Equal) => "EQ",
        Some(Ordering::Greater) => "GT",
        None => "UNDEF",
    }
}

/// RFC 1982 comparison at `bits` bits: by the difference (b - a) mod 2^bits.
pub fn ref_cmp(bits: u32, a: u64, b: u64) -> &'static str {
    let m: u64 = 1u64 << bits;
    let h: u64 = m >> 1;
    let d = (b + m - a) % m;
    if d == 0 {
        "EQ"
    } else if d < h {
        "LT"
    } else if d == h {
        "UNDEF"
    } else {
        "GT"
    }
}

/// RFC 1982 addition at `bits` bits; None where the library documents a panic
/// (addend outside 0 ..= 2^(bits-1) - 1).
pub fn ref_add(bits: u32, a: u64, n: u64) -> Option<u64> {
    let m: u64 = 1u64 << bits;
    if n > (m >> 1) - 1 {
        None
    } else {
        Some((a + n) % m)
    }
}

pub fn limbs(x: u32) -> [u32; 2] {
    [x >> 16, x & 0xFFFF]
}

pub fn lib_cmp(a: u32, b: u32) -> &'static str {
    ord_str(Serial(a).partial_cmp(&Serial(b)))
}

pub fn lib_ts_cmp(a: u32, b: u32) -> &'static str {
    ord_str(Timestamp::from(a).partial_cmp(&Timestamp::from(b)))
}

pub fn lib_new_cmp(a: u32, b: u32) -> &'static str {
    use domain::new::base::Serial as NewSerial;
    ord_str(NewSerial::new(a).partial_cmp(&NewSerial::new(b)))
}

/// `Serial::add`; a panic is an observation (None).
pub fn lib_add(a: u32, n: u32) -> Option<u32> {
    catch_unwind(AssertUnwindSafe(|| Serial(a).add(n).into_int())).ok()
}

/// `new::base::Serial::inc(i32)`; addends above 2^31-1 are not expressible
/// as a non-negative i32 and are documented to panic.
pub fn lib_new_inc(a: u32, n: u32) -> Option<u32> {
    use domain::new::base::Serial as NewSerial;
    catch_unwind(AssertUnwindSafe(|| NewSerial::new(a).inc(n as i32).get())).ok()
}

//------------ zonetree sites -------------------------------------------------

use bytes::Bytes;
use domain::base::iana::{Class, Rtype};
use domain::base::{Name, Ttl};
use domain::rdata::{Soa, ZoneRecordData};
use domain::zonetree::{
    AnswerContent, InMemoryZoneDiffBuilder, Rrset, SharedRrset, ZoneBuilder,
};
use std::str::FromStr;

fn soa_rrset(serial: u32) -> SharedRrset {
    let mname = Name::<Bytes>::from_str("ns.example.").unwrap();
    let rname = Name::<Bytes>::from_str("host.example.").unwrap();
    let soa = Soa::new(
        mname,
        rname,
        Serial(serial),
        Ttl::from_secs(3600),
        Ttl::from_secs(600),
        Ttl::from_secs(86400),
        Ttl::from_secs(60),
    );
    let mut rrset = Rrset::new(Rtype::SOA, Ttl::from_secs(3600));
    rrset.push_data(ZoneRecordData::Soa(soa));
    SharedRrset::new(rrset)
}

/// `InMemoryZoneDiffBuilder::build()` for a diff that removes an SOA with
/// serial `start` and adds one with serial `end`: "accept" (and the diff
/// reports exactly these serials) or "reject" (InvalidSerialRange).
pub fn diff_decision(start: u32, end: u32) -> &'static str {
    let apex = Name::<Bytes>::from_str("example.").unwrap();
    let mut b = InMemoryZoneDiffBuilder::new();
    b.remove(apex.clone(), Rtype::SOA, soa_rrset(start));
    b.add(apex, Rtype::SOA, soa_rrset(end));
    match b.build() {
        Ok(d) => {
            if d.start_serial.into_int() == start && d.end_serial.into_int() == end {
                "accept"
            } else {
                "accept_but_serials_changed"
            }
        }
        Err(_) => "reject",
    }
}

/// An in-memory zone whose SOA serial is `serial` is opened for writing and
/// committed with `bump_soa_serial = true`.  Returns the SOA serial a reader
/// sees afterwards and the (start, end) serials of the produced diff.
pub fn zone_commit_bump(
    rt: &tokio::runtime::Runtime,
    serial: u32,
) -> Result<(u32, Option<(u32, u32)>), String> {
    let apex = Name::<Bytes>::from_str("example.").unwrap();
    let mut zb = ZoneBuilder::new(apex.clone(), Class::IN);
    zb.insert_rrset(&apex, soa_rrset(serial)).map_err(|_| "out of zone".to_string())?;
    let zone = zb.build();
    let diff = rt.block_on(async {
        let mut w = zone.write().await;
        // the write node shares the diff under construction: it has to be
        // dropped before commit() can take the diff
        drop(w.open(true).await.map_err(|e| e.to_string())?);
        w.commit(true).await.map_err(|e| e.to_string())
    })?;
    let ans = zone.read().query(apex, Rtype::SOA).map_err(|_| "out of zone".to_string())?;
    let new = match ans.content() {
        AnswerContent::Data(rrset) => match rrset.data().first() {
            Some(ZoneRecordData::Soa(soa)) => soa.serial().into_int(),
            _ => return Err("no SOA data".into()),
        },
        _ => return Err("no SOA answer".into()),
    };
    Ok((new, diff.map(|d| (d.start_serial.into_int(), d.end_serial.into_int()))))
}
