//! Width-generic reference for RFC 1982 serial arithmetic plus the helpers
//! shared by the C17 executors (limb encoding, library observation).
//!
//! `ref_cmp` / `ref_add` are written in the modular-difference form (not the
//! clause-by-clause form of Serial.tla, not the branch structure of the
//! library), for any width 1..=32.  They are *bound to the specification* by
//! TLC: every generated k-bit case (replay_serial) and every recorded 32-bit
//! limb event (record_serial -> Trace_Serial.tla) carries their result next
//! to the library's.  Only after that binding are they used to sweep all
//! 2^32 differences (sweep_serial), which TLC cannot enumerate.
#![allow(dead_code)]

use domain::base::Serial;
use domain::rdata::dnssec::Timestamp;
use std::cmp::Ordering;
use std::panic::{catch_unwind, AssertUnwindSafe};

/// The signature time `x` as the new API hands it out: the `Timestamp`
/// returned by `domain::new::rdata::Rrsig::expiration()` (the type itself is
/// not exported, so it is only ever reached through the accessor).
macro_rules! new_ts {
    ($x:expr) => {{
        let x: u32 = $x;
        domain::new::rdata::Rrsig {
            rtype: domain::new::base::RType::A,
            algorithm: domain::new::rdata::SecAlg::RSA_SHA1,
            labels: 1,
            ttl: domain::new::base::TTL::from(3600),
            expiration: domain::new::base::Serial::new(x),
            inception: domain::new::base::Serial::new(x.wrapping_sub(86400)),
            keytag: 4711.into(),
            signer: domain::new::base::name::Name::ROOT,
            signature: &[],
        }
        .expiration()
    }};
}

pub fn ord_str(o: Option<Ordering>) -> &'static str {
    match o {
        Some(Ordering::Less) => "LT",
        Some(Ordering::Equal) => "EQ",
        Some(Ordering::Greater) => "GT",
        None => "UNDEF",
    }
}

/// RFC 1982 comparison at `bits` bits: by the difference (b - a) mod 2^bits.
pub fn ref_cmp(bits: u32, a: u64, b: u64) -> &'static str {
    let m: u64 = 1u64 << bits;
    let h: u64 = m >> 1;
    let d = (b + m - a) % m;
    if d == 0 {
        "EQ"
    } else if d < h {
        "LT"
    } else if d == h {
        "UNDEF"
    } else {
        "GT"
    }
}

/// RFC 1982 addition at `bits` bits; None where the library documents a panic
/// (addend outside 0 ..= 2^(bits-1) - 1).
pub fn ref_add(bits: u32, a: u64, n: u64) -> Option<u64> {
    let m: u64 = 1u64 << bits;
    if n > (m >> 1) - 1 {
        None
    } else {
        Some((a + n) % m)
    }
}

pub fn limbs(x: u32) -> [u32; 2] {
    [x >> 16, x & 0xFFFF]
}

pub fn lib_cmp(a: u32, b: u32) -> &'static str {
    ord_str(Serial(a).partial_cmp(&Serial(b)))
}

pub fn lib_ts_cmp(a: u32, b: u32) -> &'static str {
    ord_str(Timestamp::from(a).partial_cmp(&Timestamp::from(b)))
}

pub fn lib_new_cmp(a: u32, b: u32) -> &'static str {
    use domain::new::base::Serial as NewSerial;
    ord_str(NewSerial::new(a).partial_cmp(&NewSerial::new(b)))
}

/// `Serial::add`; a panic is an observation (None).
pub fn lib_add(a: u32, n: u32) -> Option<u32> {
    catch_unwind(AssertUnwindSafe(|| Serial(a).add(n).into_int())).ok()
}

/// `new::base::Serial::inc(i32)`; addends above 2^31-1 are not expressible
/// as a non-negative i32 and are documented to panic.
pub fn lib_new_inc(a: u32, n: u32) -> Option<u32> {
    use domain::new::base::Serial as NewSerial;
    catch_unwind(AssertUnwindSafe(|| NewSerial::new(a).inc(n as i32).get())).ok()
}

/// `Timestamp::to_system_time` relative to the reference time `reference`
/// (seconds since the epoch); the result in seconds since the epoch, None for
/// a panic or a time before the epoch.
pub fn lib_place(ts: u32, reference: u64) -> Option<u64> {
    use std::time::{Duration, UNIX_EPOCH};
    catch_unwind(AssertUnwindSafe(|| {
        Timestamp::from(ts)
            .to_system_time(UNIX_EPOCH + Duration::from_secs(reference))
            .duration_since(UNIX_EPOCH)
            .ok()
            .map(|d| d.as_secs())
    }))
    .ok()
    .flatten()
}

//------------ zonetree sites -------------------------------------------------

use bytes::Bytes;
use domain::base::iana::{Class, Rtype};
use domain::base::{Name, Ttl};
use domain::rdata::{Soa, ZoneRecordData};
use domain::zonetree::{
    AnswerContent, InMemoryZoneDiffBuilder, Rrset, SharedRrset, ZoneBuilder,
};
use std::str::FromStr;

fn soa_rrset(serial: u32) -> SharedRrset {
    let mname = Name::<Bytes>::from_str("ns.example.").unwrap();
    let rname = Name::<Bytes>::from_str("host.example.").unwrap();
    let soa = Soa::new(
        mname,
        rname,
        Serial(serial),
        Ttl::from_secs(3600),
        Ttl::from_secs(600),
        Ttl::from_secs(86400),
        Ttl::from_secs(60),
    );
    let mut rrset = Rrset::new(Rtype::SOA, Ttl::from_secs(3600));
    rrset.push_data(ZoneRecordData::Soa(soa));
    SharedRrset::new(rrset)
}

/// `InMemoryZoneDiffBuilder::build()` for a diff that removes an SOA with
/// serial `start` and adds one with serial `end`: "accept" (and the diff
/// reports exactly these serials) or "reject" (InvalidSerialRange).
pub fn diff_decision(start: u32, end: u32) -> &'static str {
    let apex = Name::<Bytes>::from_str("example.").unwrap();
    let mut b = InMemoryZoneDiffBuilder::new();
    b.remove(apex.clone(), Rtype::SOA, soa_rrset(start));
    b.add(apex, Rtype::SOA, soa_rrset(end));
    match b.build() {
        Ok(d) => {
            if d.start_serial.into_int() == start && d.end_serial.into_int() == end {
                "accept"
            } else {
                "accept_but_serials_changed"
            }
        }
        Err(_) => "reject",
    }
}

/// An in-memory zone whose SOA serial is `serial` is opened for writing and
/// committed with `bump_soa_serial = true`.  Returns the SOA serial a reader
/// sees afterwards and the (start, end) serials of the produced diff.
pub fn zone_commit_bump(
    rt: &tokio::runtime::Runtime,
    serial: u32,
) -> Result<(u32, Option<(u32, u32)>), String> {
    let apex = Name::<Bytes>::from_str("example.").unwrap();
    let mut zb = ZoneBuilder::new(apex.clone(), Class::IN);
    zb.insert_rrset(&apex, soa_rrset(serial)).map_err(|_| "out of zone".to_string())?;
    let zone = zb.build();
    let diff = rt.block_on(async {
        let mut w = zone.write().await;
        // the write node shares the diff under construction: it has to be
        // dropped before commit() can take the diff
        drop(w.open(true).await.map_err(|e| e.to_string())?);
        w.commit(true).await.map_err(|e| e.to_string())
    })?;
    let ans = zone.read().query(apex, Rtype::SOA).map_err(|_| "out of zone".to_string())?;
    let new = match ans.content() {
        AnswerContent::Data(rrset) => match rrset.data().first() {
            Some(ZoneRecordData::Soa(soa)) => soa.serial().into_int(),
            _ => return Err("no SOA data".into()),
        },
        _ => return Err("no SOA answer".into()),
    };
    Ok((new, diff.map(|d| (d.start_serial.into_int(), d.end_serial.into_int()))))
}

//------------ XFR middleware: the IXFR "client is up to date" decision --------

use domain::base::{Message, MessageBuilder};
use domain::net::server::message::{
    NonUdpTransportContext, Request, TransportSpecificContext,
};
use domain::net::server::middleware::xfr::{
    XfrData, XfrDataProvider, XfrDataProviderError, XfrMiddlewareSvc,
};
use domain::net::server::service::{
    CallResult, Service, ServiceError, ServiceFeedback, ServiceResult,
};
use domain::zonetree::{InMemoryZoneDiff, Zone};
use futures_util::stream::Once;
use futures_util::StreamExt;
use std::future::{ready, Future, Ready};
use std::ops::ControlFlow;
use std::pin::Pin;
use std::sync::Arc;
use tokio::sync::Semaphore;

#[derive(Clone)]
struct NoNextSvc;
impl Service<Vec<u8>, ()> for NoNextSvc {
    type Target = Vec<u8>;
    type Stream = Once<Ready<ServiceResult<Self::Target>>>;
    type Future = Ready<Self::Stream>;
    fn call(&self, _request: Request<Vec<u8>, ()>) -> Self::Future {
        unreachable!()
    }
}

/// A data provider that always has a diff to offer (with no diffs the
/// middleware falls back to AXFR before it ever compares serials).
#[derive(Clone)]
struct DiffProvider {
    zone: Zone,
    diffs: Vec<Arc<InMemoryZoneDiff>>,
}

impl XfrDataProvider<()> for DiffProvider {
    type Diff = Arc<InMemoryZoneDiff>;
    fn request<Octs>(
        &self,
        _req: &Request<Octs, ()>,
        _diff_from: Option<Serial>,
    ) -> Pin<
        Box<
            dyn Future<Output = Result<XfrData<Self::Diff>, XfrDataProviderError>>
                + Sync
                + Send
                + '_,
        >,
    >
    where
        Octs: octseq::Octets + Send + Sync,
    {
        Box::pin(ready(Ok(XfrData::new(self.zone.clone(), self.diffs.clone(), false))))
    }
}

fn soa_diff(start: u32, end: u32) -> Option<InMemoryZoneDiff> {
    let apex = Name::<Bytes>::from_str("example.").unwrap();
    let mut b = InMemoryZoneDiffBuilder::new();
    b.remove(apex.clone(), Rtype::SOA, soa_rrset(start));
    b.add(apex, Rtype::SOA, soa_rrset(end));
    b.build().ok()
}

/// An IXFR request from a client holding serial `client` is put to the real
/// `XfrMiddlewareSvc` serving a zone whose SOA serial is `zone_serial` and
/// for which diffs are available.  RFC 1995 section 2: a client with the same
/// or a newer version gets a single SOA, an older client gets a transfer.
/// Returns "single" | "transfer" | a description of anything else.
pub fn ixfr_decision(rt: &tokio::runtime::Runtime, client: u32, zone_serial: u32) -> String {
    ixfr_decision_with(rt, client, zone_serial, true)
}

/// The same request when the data provider has no diffs to offer
/// (`with_diffs = false`): the middleware's `ixfr_client_is_current` decides
/// between the single SOA and the fallback to a transfer of the whole zone.
pub fn ixfr_decision_with(
    rt: &tokio::runtime::Runtime,
    client: u32,
    zone_serial: u32,
    with_diffs: bool,
) -> String {
    let apex = Name::<Bytes>::from_str("example.").unwrap();
    let mut zb = ZoneBuilder::new(apex.clone(), Class::IN);
    if zb.insert_rrset(&apex, soa_rrset(zone_serial)).is_err() {
        return "harness: out of zone".into();
    }
    let zone = zb.build();
    // the diff client -> zone where the diff builder accepts it, otherwise
    // (client not older) the always valid diff zone-1 -> zone
    let diff = match soa_diff(client, zone_serial)
        .or_else(|| soa_diff(zone_serial.wrapping_sub(1), zone_serial))
    {
        Some(d) => d,
        None => return "harness: no diff".into(),
    };
    let provider = DiffProvider {
        zone,
        diffs: if with_diffs { vec![Arc::new(diff)] } else { vec![] },
    };

    let mut b = MessageBuilder::new_vec();
    b.header_mut().set_id(0x1234);
    let mut q = b.question();
    q.push((apex.clone(), Rtype::IXFR)).unwrap();
    let mut a = q.authority();
    let client_soa = match soa_rrset(client).data().first() {
        Some(ZoneRecordData::Soa(soa)) => soa.clone(),
        _ => return "harness: no soa".into(),
    };
    a.push((apex, Class::IN, Ttl::from_secs(3600), client_soa)).unwrap();
    let req = Request::new(
        "127.0.0.1:12345".parse().unwrap(),
        tokio::time::Instant::now(),
        a.into_message(),
        TransportSpecificContext::NonUdp(NonUdpTransportContext::new(None)),
        (),
    );

    let msgs: Result<Vec<Message<Bytes>>, String> = rt.block_on(async {
        let res = XfrMiddlewareSvc::<Vec<u8>, NoNextSvc, (), DiffProvider>::preprocess(
            Arc::new(Semaphore::new(1)),
            Arc::new(Semaphore::new(1)),
            &req,
            provider,
        )
        .await;
        let mut stream = match res {
            Ok(ControlFlow::Break(s)) => s,
            Ok(ControlFlow::Continue(())) => return Err("not handled".to_string()),
            Err(rc) => return Err(format!("rcode {rc}")),
        };
        let mut out = vec![];
        loop {
            let next = tokio::time::timeout(std::time::Duration::from_secs(30), stream.next());
            let item = match next.await {
                Ok(Some(item)) => item,
                Ok(None) => break,
                Err(_) => return Err("the response stream does not end".to_string()),
            };
            let item: Result<CallResult<Vec<u8>>, ServiceError> = item;
            let cr = item.map_err(|e| format!("service error {e}"))?;
            let end = matches!(cr.feedback(), Some(ServiceFeedback::EndTransaction));
            if let Some(b) = cr.into_inner().0 {
                let octets: Vec<u8> = b.as_message().as_slice().to_vec();
                out.push(
                    Message::from_octets(Bytes::from(octets))
                        .map_err(|_| "short message".to_string())?,
                );
            }
            if end {
                break;
            }
        }
        Ok(out)
    });
    let msgs = match msgs {
        Ok(m) => m,
        Err(e) => return format!("error: {e}"),
    };
    let mut serials: Vec<u32> = vec![];
    let mut n_rr = 0usize;
    for m in &msgs {
        if m.header().rcode() != domain::base::iana::Rcode::NOERROR {
            return format!("error: rcode {}", m.header().rcode());
        }
        let Ok(sec) = m.answer() else { return "error: unparsable answer".into() };
        for r in sec.limit_to::<ZoneRecordData<Bytes, domain::base::ParsedName<Bytes>>>() {
            match r {
                Ok(r) => {
                    n_rr += 1;
                    if let ZoneRecordData::Soa(soa) = r.data() {
                        serials.push(soa.serial().into_int());
                    }
                }
                Err(_) => return "error: unparsable record".into(),
            }
        }
    }
    if serials.first() != Some(&zone_serial) {
        return format!("error: first SOA {:?} is not the zone's {}", serials.first(), zone_serial);
    }
    if n_rr == 1 {
        "single".into()
    } else {
        "transfer".into()
    }
}

//------------ text entry points of signature times ---------------------------

use domain::base::scan::IterScanner;
use domain::base::zonefile_fmt::{DisplayKind, ZonefileFmt};
use domain::zonefile::inplace::{Entry, Zonefile};

/// `YYYYMMDDHHmmSS` (UTC) of the time `t` seconds after the epoch: proleptic
/// Gregorian calendar by the days-to-civil algorithm, no library involved.
pub fn civil(t: u64) -> String {
    let days = (t / 86400) as i64;
    let rem = t % 86400;
    let z = days + 719468;
    let era = z.div_euclid(146097);
    let doe = z.rem_euclid(146097);
    let yoe = (doe - doe / 1460 + doe / 36524 - doe / 146096) / 365;
    let doy = doe - (365 * yoe + yoe / 4 - yoe / 100);
    let mp = (5 * doy + 2) / 153;
    let d = doy - (153 * mp + 2) / 5 + 1;
    let m = if mp < 10 { mp + 3 } else { mp - 9 };
    let y = yoe + era * 400 + if m <= 2 { 1 } else { 0 };
    format!("{:04}{:02}{:02}{:02}{:02}{:02}", y, m, d, rem / 3600, rem % 3600 / 60, rem % 60)
}

fn scan_token(tok: &str) -> Result<u32, String> {
    let mut sc = IterScanner::<_, Vec<u8>>::new([tok]);
    Timestamp::scan(&mut sc).map(|t| t.into_int()).map_err(|e| format!("{e}"))
}

fn fromstr_token(tok: &str) -> Result<u32, String> {
    Timestamp::from_str(tok).map(|t| t.into_int()).map_err(|e| format!("{e}"))
}

/// expiration and inception of the one RRSIG record in a zone-file text
fn zonefile_times(text: &str) -> Result<(u32, u32), String> {
    let mut zone = Zonefile::from(text);
    match zone.next_entry() {
        Ok(Some(Entry::Record(r))) => match r.data() {
            ZoneRecordData::Rrsig(sig) => {
                Ok((sig.expiration().into_int(), sig.inception().into_int()))
            }
            _ => Err("not an RRSIG".into()),
        },
        Ok(_) => Err("no record".into()),
        Err(e) => Err(format!("{e}")),
    }
}

fn rrsig_line(exp: &str, inc: &str) -> String {
    format!("example. 3600 IN RRSIG A 15 2 3600 {exp} {inc} 4711 example. AAAAAAAAAAA=\n")
}

/// Two signature times (seconds since the epoch, any era) through every text
/// entry point, in date form and in integer form (the integer form can only
/// express the 32-bit field value).  Ok((v1, v2)) when all entry points
/// accept and agree, Err(description) otherwise.
pub fn text_entry_points(t1: u64, t2: u64) -> Result<(u32, u32), String> {
    let forms = [
        ("date", civil(t1), civil(t2)),
        ("int", format!("{}", t1 as u32), format!("{}", t2 as u32)),
    ];
    let mut seen: Vec<(String, (u32, u32))> = vec![];
    for (form, a, b) in forms.iter() {
        seen.push((format!("fromstr/{form}"), (fromstr_token(a)?, fromstr_token(b)?)));
        seen.push((format!("scan/{form}"), (scan_token(a)?, scan_token(b)?)));
        seen.push((format!("zonefile/{form}"), zonefile_times(&rrsig_line(a, b))?));
    }
    let first = seen[0].1;
    for (name, v) in &seen {
        if *v != first {
            return Err(format!("entry points disagree: {} {:?} vs {} {:?} (tokens {:?})",
                               seen[0].0, first, name, v, forms));
        }
    }
    Ok(first)
}

/// Writing: Display and the zone-file formatter write the integer form of the
/// field, and reading the written record back yields the same fields.
pub fn text_written_ok(v1: u32, v2: u32) -> Result<(), String> {
    let (d1, d2) = (format!("{}", Timestamp::from(v1)), format!("{}", Timestamp::from(v2)));
    if d1 != format!("{v1}") || d2 != format!("{v2}") {
        return Err(format!("Display wrote {d1:?} {d2:?} for {v1} {v2}"));
    }
    let mut zone = Zonefile::from(rrsig_line(&d1, &d2).as_str());
    let rec = match zone.next_entry() {
        Ok(Some(Entry::Record(r))) => r,
        other => return Err(format!("cannot read the record back: {:?}", other.is_ok())),
    };
    for kind in [DisplayKind::Simple, DisplayKind::Tabbed, DisplayKind::Multiline] {
        let mut text = format!("{}", rec.display_zonefile(kind));
        text.push('\n');
        if !text.split_whitespace().any(|t| t == d1) || !text.split_whitespace().any(|t| t == d2) {
            return Err(format!("zone-file text lacks the integer tokens: {text:?}"));
        }
        match zonefile_times(&text) {
            Ok(v) if v == (v1, v2) => {}
            other => return Err(format!("written text {text:?} reads back as {other:?}")),
        }
    }
    Ok(())
}

//------------ instants: a clock value converted into a serial ----------------

/// `Serial::from(jiff::Timestamp)` for the instant `t` seconds relative to
/// the epoch (negative: before it).  The jiff timestamp is made in several
/// ways (from seconds, from milliseconds, from a `SystemTime`); all routes
/// must give the same serial.
pub fn lib_instant(t: i64) -> Result<u32, String> {
    use std::time::{Duration, UNIX_EPOCH};
    let mut seen: Vec<(&'static str, u32)> = vec![];
    let a = jiff::Timestamp::from_second(t).map_err(|e| format!("from_second: {e}"))?;
    seen.push(("from_second", Serial::from(a).into_int()));
    let b = jiff::Timestamp::from_millisecond(t * 1000)
        .map_err(|e| format!("from_millisecond: {e}"))?;
    seen.push(("from_millisecond", Serial::from(b).into_int()));
    let st = if t >= 0 {
        UNIX_EPOCH + Duration::from_secs(t as u64)
    } else {
        UNIX_EPOCH - Duration::from_secs(t.unsigned_abs())
    };
    let c = jiff::Timestamp::try_from(st).map_err(|e| format!("from SystemTime: {e}"))?;
    seen.push(("from_system_time", Serial::from(c).into_int()));
    let d = jiff::Timestamp::UNIX_EPOCH
        .checked_add(jiff::SignedDuration::from_secs(t))
        .map_err(|e| format!("epoch + duration: {e}"))?;
    seen.push(("epoch_plus", Serial::from(d).into_int()));
    let first = seen[0].1;
    for (name, v) in &seen {
        if *v != first {
            return Err(format!("routes disagree at t={t}: from_second {first} vs {name} {v}"));
        }
    }
    Ok(first)
}

//------------ validity windows -----------------------------------------------

fn sipround(v: &mut [u64; 4]) {
    v[0] = v[0].wrapping_add(v[1]);
    v[1] = v[1].rotate_left(13);
    v[1] ^= v[0];
    v[0] = v[0].rotate_left(32);
    v[2] = v[2].wrapping_add(v[3]);
    v[3] = v[3].rotate_left(16);
    v[3] ^= v[2];
    v[0] = v[0].wrapping_add(v[3]);
    v[3] = v[3].rotate_left(21);
    v[3] ^= v[0];
    v[2] = v[2].wrapping_add(v[1]);
    v[1] = v[1].rotate_left(17);
    v[1] ^= v[2];
    v[2] = v[2].rotate_left(32);
}

/// SipHash-2-4 (Aumasson & Bernstein), output as the reference
/// implementation's little-endian octets; independent of the siphasher crate.
fn siphash24(key: &[u8; 16], data: &[u8]) -> [u8; 8] {
    let k0 = u64::from_le_bytes(key[0..8].try_into().unwrap());
    let k1 = u64::from_le_bytes(key[8..16].try_into().unwrap());
    let mut v = [
        k0 ^ 0x736f6d6570736575,
        k1 ^ 0x646f72616e646f6d,
        k0 ^ 0x6c7967656e657261,
        k1 ^ 0x7465646279746573,
    ];
    let mut chunks = data.chunks_exact(8);
    for c in &mut chunks {
        let m = u64::from_le_bytes(c.try_into().unwrap());
        v[3] ^= m;
        sipround(&mut v);
        sipround(&mut v);
        v[0] ^= m;
    }
    let rem = chunks.remainder();
    let mut last = [0u8; 8];
    last[..rem.len()].copy_from_slice(rem);
    last[7] = data.len() as u8;
    let m = u64::from_le_bytes(last);
    v[3] ^= m;
    sipround(&mut v);
    sipround(&mut v);
    v[0] ^= m;
    v[2] ^= 0xff;
    for _ in 0..4 {
        sipround(&mut v);
    }
    (v[0] ^ v[1] ^ v[2] ^ v[3]).to_le_bytes()
}

const COOKIE_SECRET: [u8; 16] = [
    0xe5, 0xe9, 0x73, 0xe5, 0xa6, 0xb2, 0xa4, 0x3f, 0x48, 0xe7, 0xdc, 0x84, 0x9e, 0x37, 0xbf,
    0xcf,
];

/// A correctly hashed 24-octet version-1 interoperable cookie (RFC 9018
/// section 4) carrying the given timestamp.
fn make_cookie(timestamp: u32, addr: std::net::IpAddr) -> [u8; 24] {
    let mut bytes = [0u8; 24];
    bytes[0..8].copy_from_slice(&[0x24, 0x64, 0xc4, 0xab, 0xcf, 0x10, 0xc9, 0x57]);
    bytes[8..12].copy_from_slice(&[1, 0, 0, 0]);
    bytes[12..16].copy_from_slice(&timestamp.to_be_bytes());
    let mut data = bytes[..16].to_vec();
    match addr {
        std::net::IpAddr::V4(a) => data.extend_from_slice(&a.octets()),
        std::net::IpAddr::V6(a) => data.extend_from_slice(&a.octets()),
    }
    let hash = siphash24(&COOKIE_SECRET, &data);
    bytes[16..24].copy_from_slice(&hash);
    bytes
}

fn yes_no(b: bool) -> &'static str {
    if b {
        "accept"
    } else {
        "reject"
    }
}

/// `new::edns::Cookie::verify` of a correctly hashed cookie made at `x` by a
/// verifier whose validity window is [lo, hi), for an IPv4 and an IPv6
/// client.  (Self-check: the same cookie with one hash bit flipped must be
/// refused whatever the window, otherwise the hash is not what decides.)
pub fn cookie_decision(lo: u32, hi: u32, x: u32) -> String {
    use domain::new::base::wire::ParseBytesZC;
    use domain::new::base::Serial as NewSerial;
    use domain::new::edns::Cookie;
    let addrs: [std::net::IpAddr; 2] = [
        std::net::IpAddr::V4(std::net::Ipv4Addr::new(198, 51, 100, 100)),
        std::net::IpAddr::V6(std::net::Ipv6Addr::new(0x2001, 0xdb8, 0, 0, 0, 0, 0, 0x53)),
    ];
    let mut first: Option<bool> = None;
    for addr in addrs {
        let bytes = make_cookie(x, addr);
        let Ok(cookie) = Cookie::parse_bytes_by_ref(&bytes[..]) else {
            return "harness: cookie does not parse".into();
        };
        if cookie.timestamp().get() != x {
            return format!("cookie timestamp reads {} for {}", cookie.timestamp().get(), x);
        }
        let ok = cookie
            .verify(addr, &COOKIE_SECRET, NewSerial::new(lo)..NewSerial::new(hi))
            .is_ok();
        let mut bad = bytes;
        bad[23] ^= 1;
        if let Ok(c) = Cookie::parse_bytes_by_ref(&bad[..]) {
            if c.verify(addr, &COOKIE_SECRET, NewSerial::new(lo)..NewSerial::new(hi)).is_ok() {
                return "harness: a cookie with a wrong hash verifies".into();
            }
        }
        match first {
            None => first = Some(ok),
            Some(f) if f != ok => return "v4 and v6 clients are judged differently".into(),
            _ => {}
        }
    }
    yes_no(first.unwrap_or(false)).into()
}

/// Every site that decides "x lies in the window [lo, hi)".
pub fn window_sites(lo: u32, hi: u32, x: u32) -> serde_json::Value {
    use domain::new::base::Serial as NewSerial;
    let cookie = catch_unwind(AssertUnwindSafe(|| cookie_decision(lo, hi, x)))
        .unwrap_or_else(|_| "panic".to_string());
    serde_json::json!({
        "cookie": cookie,
        "newrange": yes_no((NewSerial::new(lo)..NewSerial::new(hi)).contains(&NewSerial::new(x))),
        "range": yes_no((Serial(lo)..Serial(hi)).contains(&Serial(x))),
        "tsrange": yes_no((Timestamp::from(lo)..Timestamp::from(hi)).contains(&Timestamp::from(x))),
        "newtsrange": yes_no((new_ts!(lo)..new_ts!(hi)).contains(&new_ts!(x))),
    })
}

//------------ conversion routes that carry a serial / signature times ---------

use domain::base::name::{FlattenInto, ParsedName};
use domain::base::rdata::ComposeRecordData;
use domain::base::Record;
use domain::rdata::dnssec::ProtoRrsig;
use domain::rdata::Rrsig;
use octseq::octets::OctetsFrom;
use octseq::parse::Parser;

fn all_same<T: PartialEq + Copy + std::fmt::Debug>(
    what: &str,
    seen: &[(&'static str, T)],
) -> Result<T, String> {
    let first = seen[0].1;
    for (name, v) in seen {
        if *v != first {
            return Err(format!(
                "{what}: route {} gives {:?}, route {} gives {:?}",
                seen[0].0, first, name, v
            ));
        }
    }
    Ok(first)
}

/// The 32-bit value `x` made into a `Serial` and taken out again through
/// every constructor / accessor pair of the type.
pub fn serial_routes(x: u32) -> Result<u32, String> {
    let mut seen: Vec<(&'static str, u32)> = vec![("tuple", Serial(x).0)];
    seen.push(("from_u32/into_int", Serial::from(x).into_int()));
    seen.push(("from_be_bytes/u32::from", u32::from(Serial::from_be_bytes(x.to_be_bytes()))));
    let text = format!("{}", Serial(x));
    seen.push(("display/from_str", Serial::from_str(&text).map_err(|e| e.to_string())?.0));
    let mut sc = IterScanner::<_, Vec<u8>>::new([text.as_str()]);
    seen.push(("display/scan", Serial::scan(&mut sc).map_err(|e| format!("{e}"))?.0));
    let mut buf: Vec<u8> = Vec::new();
    Serial(x).compose(&mut buf).map_err(|_| "compose".to_string())?;
    if buf != x.to_be_bytes() {
        return Err(format!("compose wrote {buf:?} for {x}"));
    }
    let mut p = Parser::from_ref(buf.as_slice());
    seen.push(("compose/parse", Serial::parse(&mut p).map_err(|e| e.to_string())?.0));
    all_same("Serial", &seen)
}

fn soa_with(serial: Serial) -> Soa<Name<Vec<u8>>> {
    Soa::new(
        Name::<Vec<u8>>::from_str("ns.example.").unwrap(),
        Name::<Vec<u8>>::from_str("host.example.").unwrap(),
        serial,
        Ttl::from_secs(3600),
        Ttl::from_secs(600),
        Ttl::from_secs(86400),
        Ttl::from_secs(60),
    )
}

fn zonefile_soa_serial(text: &str) -> Result<u32, String> {
    let mut zone = Zonefile::from(text);
    match zone.next_entry() {
        Ok(Some(Entry::Record(r))) => match r.data() {
            ZoneRecordData::Soa(soa) => Ok(soa.serial().into_int()),
            _ => Err("not an SOA".into()),
        },
        Ok(_) => Err("no record".into()),
        Err(e) => Err(format!("{e}")),
    }
}

/// The serial of an SOA record after each conversion route: wire round
/// trip, octets conversion (record data and the `ZoneRecordData` enum),
/// flattening of the parsed form, and -- with `text` -- the zone-file
/// formatter in its three layouts read back by the zone-file reader.
pub fn soa_serial_routes(x: u32, text: bool) -> Result<u32, String> {
    let soa = soa_with(Serial(x));
    let mut seen: Vec<(&'static str, u32)> = vec![("new", soa.serial().into_int())];
    let mut buf: Vec<u8> = Vec::new();
    soa.compose_rdata(&mut buf).map_err(|_| "compose".to_string())?;
    let mut p = Parser::from_ref(buf.as_slice());
    let parsed = Soa::parse(&mut p).map_err(|e| e.to_string())?;
    seen.push(("wire", parsed.serial().into_int()));
    let flat: Soa<Name<Vec<u8>>> =
        parsed.clone().try_flatten_into().map_err(|_| "flatten".to_string())?;
    seen.push(("flatten_into", flat.serial().into_int()));
    let conv = Soa::<Name<Bytes>>::try_octets_from(soa.clone()).map_err(|_| "octets_from")?;
    seen.push(("octets_from", conv.serial().into_int()));
    let zrd: ZoneRecordData<Vec<u8>, Name<Vec<u8>>> = ZoneRecordData::Soa(soa.clone());
    let zrd2 = ZoneRecordData::<Bytes, Name<Bytes>>::try_octets_from(zrd)
        .map_err(|_| "enum octets_from".to_string())?;
    match &zrd2 {
        ZoneRecordData::Soa(s) => seen.push(("enum_octets_from", s.serial().into_int())),
        _ => return Err("enum conversion changed the type".into()),
    }
    let zparsed: ZoneRecordData<&[u8], ParsedName<&[u8]>> = ZoneRecordData::Soa(parsed);
    let zflat: ZoneRecordData<Vec<u8>, Name<Vec<u8>>> =
        zparsed.try_flatten_into().map_err(|_| "enum flatten".to_string())?;
    match &zflat {
        ZoneRecordData::Soa(s) => seen.push(("enum_flatten_into", s.serial().into_int())),
        _ => return Err("enum flattening changed the type".into()),
    }
    if text {
        let rec = Record::new(
            Name::<Vec<u8>>::from_str("example.").unwrap(),
            Class::IN,
            Ttl::from_secs(3600),
            soa.clone(),
        );
        for (name, kind) in [
            ("zonefile_simple", DisplayKind::Simple),
            ("zonefile_tabbed", DisplayKind::Tabbed),
            ("zonefile_multiline", DisplayKind::Multiline),
        ] {
            let mut t = format!("{}", rec.display_zonefile(kind));
            t.push('\n');
            seen.push((name, zonefile_soa_serial(&t).map_err(|e| format!("{name}: {e}: {t:?}"))?));
        }
        let shown = format!("example. 3600 IN SOA {}\n", soa);
        seen.push(("display", zonefile_soa_serial(&shown).map_err(|e| format!("display: {e}"))?));
    }
    all_same("SOA serial", &seen)
}

/// (expiration, inception) of an RRSIG after each conversion route: wire
/// round trip, octets conversion and flattening of `Rrsig`, of the
/// `ZoneRecordData` enum and of `ProtoRrsig` (then `into_rrsig`).
pub fn rrsig_times_routes(exp: u32, inc: u32) -> Result<(u32, u32), String> {
    use domain::base::iana::SecurityAlgorithm;
    let times = |r: (Timestamp, Timestamp)| (r.0.into_int(), r.1.into_int());
    let signer = Name::<Vec<u8>>::from_str("example.").unwrap();
    let rrsig: Rrsig<Vec<u8>, Name<Vec<u8>>> = Rrsig::new(
        Rtype::A,
        SecurityAlgorithm::ED25519,
        2,
        Ttl::from_secs(300),
        Timestamp::from(exp),
        Timestamp::from(inc),
        4711,
        signer.clone(),
        vec![0u8; 8],
    )
    .map_err(|_| "long record".to_string())?;
    let mut seen: Vec<(&'static str, (u32, u32))> =
        vec![("new", times((rrsig.expiration(), rrsig.inception())))];
    let mut buf: Vec<u8> = Vec::new();
    rrsig.compose_rdata(&mut buf).map_err(|_| "compose".to_string())?;
    let mut p = Parser::from_ref(buf.as_slice());
    let parsed = Rrsig::parse(&mut p).map_err(|e| e.to_string())?;
    seen.push(("wire", times((parsed.expiration(), parsed.inception()))));
    let flat: Rrsig<Vec<u8>, Name<Vec<u8>>> =
        parsed.clone().try_flatten_into().map_err(|_| "flatten".to_string())?;
    seen.push(("flatten_into", times((flat.expiration(), flat.inception()))));
    let conv = Rrsig::<Bytes, Name<Bytes>>::try_octets_from(rrsig.clone())
        .map_err(|_| "octets_from".to_string())?;
    seen.push(("octets_from", times((conv.expiration(), conv.inception()))));
    let zrd: ZoneRecordData<Vec<u8>, Name<Vec<u8>>> = ZoneRecordData::Rrsig(rrsig.clone());
    match ZoneRecordData::<Bytes, Name<Bytes>>::try_octets_from(zrd) {
        Ok(ZoneRecordData::Rrsig(r)) => {
            seen.push(("enum_octets_from", times((r.expiration(), r.inception()))))
        }
        _ => return Err("enum conversion failed or changed the type".into()),
    }
    let zparsed: ZoneRecordData<&[u8], ParsedName<&[u8]>> = ZoneRecordData::Rrsig(parsed);
    let zflat: Result<ZoneRecordData<Vec<u8>, Name<Vec<u8>>>, _> = zparsed.try_flatten_into();
    match zflat {
        Ok(ZoneRecordData::Rrsig(r)) => {
            seen.push(("enum_flatten_into", times((r.expiration(), r.inception()))))
        }
        _ => return Err("enum flattening failed or changed the type".into()),
    }
    // ProtoRrsig: the RDATA head that is signed; its composed octets carry
    // the times at offsets 8..12 and 12..16
    let proto = ProtoRrsig::new(
        Rtype::A,
        SecurityAlgorithm::ED25519,
        2,
        Ttl::from_secs(300),
        Timestamp::from(exp),
        Timestamp::from(inc),
        4711,
        signer.clone(),
    );
    let mut head: Vec<u8> = Vec::new();
    proto.compose(&mut head).map_err(|_| "proto compose".to_string())?;
    if head.len() < 16 {
        return Err("ProtoRrsig composed too short".into());
    }
    seen.push((
        "proto_compose",
        (
            u32::from_be_bytes(head[8..12].try_into().unwrap()),
            u32::from_be_bytes(head[12..16].try_into().unwrap()),
        ),
    ));
    let pconv = ProtoRrsig::<Name<Bytes>>::try_octets_from(proto.clone())
        .map_err(|_| "proto octets_from".to_string())?;
    let r = pconv.into_rrsig(vec![0u8; 8]).map_err(|_| "into_rrsig".to_string())?;
    seen.push(("proto_octets_from", times((r.expiration(), r.inception()))));
    let mut p2 = Parser::from_ref(&head[18..]);
    let pname = ParsedName::parse(&mut p2).map_err(|e| e.to_string())?;
    let pparsed = ProtoRrsig::new(
        Rtype::A,
        SecurityAlgorithm::ED25519,
        2,
        Ttl::from_secs(300),
        Timestamp::from(exp),
        Timestamp::from(inc),
        4711,
        pname,
    );
    let pflat: ProtoRrsig<Name<Vec<u8>>> =
        pparsed.try_flatten_into().map_err(|_| "proto flatten".to_string())?;
    let r = pflat.into_rrsig(vec![0u8; 8]).map_err(|_| "into_rrsig".to_string())?;
    seen.push(("proto_flatten_into", times((r.expiration(), r.inception()))));
    all_same("RRSIG times", &seen)
}

//------------ the new API's signature time ------------------------------------

/// `partial_cmp` of the new API's signature time.  Its comparison operators
/// and `==` must agree with it, `into_int` must return the field, and the
/// conversion into the old API's `Timestamp` must carry the value (then the
/// old type's comparison is the same question again).
pub fn lib_newts_cmp(a: u32, b: u32) -> String {
    let (ta, tb) = (new_ts!(a), new_ts!(b));
    let r = ord_str(ta.partial_cmp(&tb));
    let ops_ok = (ta < tb) == (r == "LT")
        && (ta > tb) == (r == "GT")
        && (ta <= tb) == (r == "LT" || r == "EQ")
        && (ta >= tb) == (r == "GT" || r == "EQ")
        && (ta == tb) == (r == "EQ");
    if !ops_ok {
        return "OPS_INCONSISTENT".into();
    }
    if ta.into_int() != a || tb.into_int() != b {
        return format!("into_int gives {} {} for {a} {b}", ta.into_int(), tb.into_int());
    }
    if format!("{ta}") != format!("{a}") {
        return format!("Display writes {ta} for {a}");
    }
    let (oa, ob): (Timestamp, Timestamp) = (ta.into(), tb.into());
    if oa.into_int() != a || ob.into_int() != b {
        return format!("conversion gives {} {} for {a} {b}", oa.into_int(), ob.into_int());
    }
    r.into()
}

/// `to_system_time` of the new API's signature time (cf. `lib_place`).
pub fn lib_newts_place(ts: u32, reference: u64) -> Option<u64> {
    use std::time::{Duration, UNIX_EPOCH};
    catch_unwind(AssertUnwindSafe(|| {
        new_ts!(ts)
            .to_system_time(UNIX_EPOCH + Duration::from_secs(reference))
            .duration_since(UNIX_EPOCH)
            .ok()
            .map(|d| d.as_secs())
    }))
    .ok()
    .flatten()
}

//------------ freshness: the server cookies middleware -------------------------

#[path = "cookies.rs"]
pub mod cookies;

pub const PAST: u32 = 3600;
pub const FUTURE: u32 = 300;

pub struct FreshRig {
    rt: tokio::runtime::Runtime,
    svc: cookies::RecSvc,
    plain: cookies::Mw,
    denying: cookies::Mw,
    id: u16,
}

const FRESH_SECRET: &str = "s1";
const FRESH_CC: &str = "c1";

impl FreshRig {
    pub fn new() -> Self {
        let svc = cookies::RecSvc::new();
        let secret = cookies::secret_of(FRESH_SECRET);
        FreshRig {
            rt: cookies::runtime(),
            plain: cookies::new_mw(&svc, secret),
            denying: cookies::new_mw(&svc, secret)
                .with_denied_ips(vec![cookies::ip_of("a"), cookies::ip_of("c")]),
            svc,
            id: 1,
        }
    }

    /// Does the clock interposition work and is the harness's hash the
    /// library's?
    pub fn selftest(&self) -> bool {
        cookies::clock_selftest() && cookies::hash_selftest()
    }

    fn call(&mut self, denying: bool, now: u32, spec: &cookies::CallSpec) -> serde_json::Value {
        self.id = self.id.wrapping_add(1);
        let secret = cookies::secret_of(FRESH_SECRET);
        let mw = if denying { &self.denying } else { &self.plain };
        cookies::do_call(&self.rt, mw, &self.svc, 0, &secret, now, self.id, spec).obs
    }

    /// Every site that decides "the cookie timestamp `ts` is fresh at clock
    /// value `now`", put to the real `CookiesMiddlewareSvc` with a correctly
    /// hashed server cookie and the system clock set to `now`:
    ///  * mwprefetch: a cookie prefetch request (QDCOUNT 0, TCP, IPv6 client):
    ///    NOERROR = accept, BADCOOKIE = reject;
    ///  * mwdenied: a UDP query from a deny-listed IPv4 address: passed on to
    ///    the service = accept, BADCOOKIE = reject;
    ///  * optcookie: `base::opt::Cookie::check_server_hash` with the window as
    ///    a `Range<Serial>` applied to the timestamp the library hands over.
    /// Guard: the same cookie with one hash bit flipped must be refused
    /// whatever the times, otherwise the timestamp is not what decides.
    pub fn sites(&mut self, now: u32, ts: u32) -> serde_json::Value {
        use serde_json::json;
        let secret = cookies::secret_of(FRESH_SECRET);
        let cc = cookies::cc_of(FRESH_CC);
        let mut out = serde_json::Map::new();
        for (site, ipn, udp, qd, denying) in
            [("mwprefetch", "c", false, 0u16, false), ("mwdenied", "a", true, 1u16, true)]
        {
            let ip = cookies::ip_of(ipn);
            let h = cookies::term_hash(&secret, &cc, 1, [0; 3], ts, ip);
            let mut decisions = vec![];
            for flip in [false, true] {
                let mut hh = h;
                if flip {
                    hh[7] ^= 1;
                }
                let spec = cookies::CallSpec {
                    udp,
                    ip,
                    qd,
                    opt: "ok".into(),
                    cookies: vec![cookies::std_cookie(&cc, 1, [0; 3], ts, &hh)],
                };
                let obs = self.call(denying, now, &spec);
                let d = match (obs["act"].as_str(), obs["rcode"].as_str()) {
                    (Some("reply"), Some("NOERROR")) if qd == 0 => "accept".to_string(),
                    (Some("pass"), _) if qd != 0 => "accept".to_string(),
                    (Some("reply"), Some("BADCOOKIE")) => "reject".to_string(),
                    _ => format!("unexpected: {obs}"),
                };
                decisions.push(d);
            }
            let d = if decisions[1] != "reject" {
                format!("harness: a cookie with a wrong hash gives {}", decisions[1])
            } else {
                decisions[0].clone()
            };
            out.insert(site.into(), json!(d));
        }
        // old-API option type: the library parses the cookie, hands its
        // timestamp to the caller's test, then checks the hash
        let ip = cookies::ip_of("b");
        let h = cookies::term_hash(&secret, &cc, 1, [0; 3], ts, ip);
        let bytes = cookies::std_cookie(&cc, 1, [0; 3], ts, &h);
        let mut p = Parser::from_ref(bytes.as_slice());
        let d = match domain::base::opt::Cookie::parse(&mut p) {
            Ok(c) => {
                let mut seen: Option<u32> = None;
                let lo = Serial(now.wrapping_sub(PAST));
                let hi = Serial(now.wrapping_add(FUTURE + 1));
                let ok = c.check_server_hash(ip, &secret, |t| {
                    seen = Some(t.into_int());
                    (lo..hi).contains(&t)
                });
                if seen != Some(ts) {
                    format!("timestamp handed over: {seen:?}, cookie carries {ts}")
                } else {
                    yes_no(ok).to_string()
                }
            }
            Err(e) => format!("harness: cookie does not parse: {e}"),
        };
        out.insert("optcookie".into(), json!(d));
        serde_json::Value::Object(out)
    }
}
