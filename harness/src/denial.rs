//! C13: executors' and recorder's code for Denial.tla / MC_ZoneBuild.tla --
//! JSON <-> wire helpers, the term evaluator (`ring::digest` only), the
//! generators driven through every public route, the collection workflow,
//! the random-zone recorder.  Used by bin/replay_denial.rs and
//! bin/record_denial.rs.
#![allow(dead_code)]

use bytes::Bytes;
use domain::base::iana::{Class, Rtype};
use domain::base::message::Message;
use domain::base::message_builder::MessageBuilder;
use domain::base::name::{FlattenInto, Name, ParsedName, ToName};
use domain::base::{Record, Ttl};
use domain::rdata::ZoneRecordData;
use serde_json::{json, Value};

pub type SName = Name<Bytes>;
pub type SData = ZoneRecordData<Bytes, SName>;
pub type SRecord = Record<SName, SData>;

//------------ JSON <-> wire ----------------------------------------------------

pub fn bytes_of(v: &Value) -> Vec<u8> {
    v.as_array()
        .map(|a| a.iter().map(|x| x.as_u64().unwrap_or(0) as u8).collect())
        .unwrap_or_default()
}

pub fn jbytes(b: &[u8]) -> Value {
    Value::Array(b.iter().map(|x| json!(*x)).collect())
}

/// `[[l1 octets], [l2 octets], ...]` (root implicit) -> uncompressed wire
pub fn name_wire(v: &Value) -> Vec<u8> {
    let mut out = vec![];
    if let Some(a) = v.as_array() {
        for l in a {
            let l = bytes_of(l);
            out.push(l.len() as u8);
            out.extend_from_slice(&l);
        }
    }
    out.push(0);
    out
}

pub fn name_of(v: &Value) -> SName {
    Name::from_octets(Bytes::from(name_wire(v))).expect("valid name in case")
}

/// library name -> `[[label octets]...]` without the root label
pub fn jname<N: ToName>(n: &N) -> Value {
    let mut out = vec![];
    for l in n.iter_labels() {
        if l.is_root() {
            continue;
        }
        out.push(jbytes(l.as_slice()));
    }
    Value::Array(out)
}

pub fn jname_lower<N: ToName>(n: &N) -> Value {
    let mut out = vec![];
    for l in n.iter_labels() {
        if l.is_root() {
            continue;
        }
        let v: Vec<u8> = l.as_slice().iter().map(|b| b.to_ascii_lowercase()).collect();
        out.push(jbytes(&v));
    }
    Value::Array(out)
}

/// field sequence `[{k:"raw",o:[..]},{k:"name",n:[[..]]}]` -> uncompressed RDATA
pub fn rd_wire(v: &Value) -> Vec<u8> {
    let mut out = vec![];
    if let Some(a) = v.as_array() {
        for f in a {
            if f["k"] == "name" {
                out.extend_from_slice(&name_wire(&f["n"]));
            } else {
                out.extend_from_slice(&bytes_of(&f["o"]));
            }
        }
    }
    out
}

/// An uncompressed DNS message with the RRs `[{owner, type, class, ttl, rd}]`
/// in the answer section, parsed into owned zone records (the library's own
/// parsers build the typed record data).
pub fn records_of(rrs: &Value) -> Result<Vec<SRecord>, String> {
    let rrs = rrs.as_array().cloned().unwrap_or_default();
    let mut out = vec![];
    // several messages if need be: 65535 octets each at most
    for chunk in rrs.chunks(100) {
        let mut m = vec![0, 0, 0x80, 0, 0, 0];
        m.extend_from_slice(&(chunk.len() as u16).to_be_bytes());
        m.extend_from_slice(&[0, 0, 0, 0]);
        for v in chunk {
            m.extend_from_slice(&name_wire(&v["owner"]));
            m.extend_from_slice(&(v["type"].as_u64().unwrap_or(0) as u16).to_be_bytes());
            m.extend_from_slice(&(v["class"].as_u64().unwrap_or(1) as u16).to_be_bytes());
            m.extend_from_slice(&(v["ttl"].as_u64().unwrap_or(0) as u32).to_be_bytes());
            let rd = rd_wire(&v["rd"]);
            m.extend_from_slice(&(rd.len() as u16).to_be_bytes());
            m.extend_from_slice(&rd);
        }
        let msg = Message::from_octets(Bytes::from(m)).map_err(|e| format!("{e}"))?;
        for r in msg.answer().map_err(|e| format!("{e}"))? {
            let r = r.map_err(|e| format!("{e}"))?;
            let r = r
                .into_record::<ZoneRecordData<Bytes, ParsedName<Bytes>>>()
                .map_err(|e| format!("{e}"))?
                .ok_or_else(|| "record type not parsed".to_string())?;
            let r: SRecord = r.flatten_into();
            out.push(r);
        }
    }
    Ok(out)
}

pub fn rtype(v: u16) -> Rtype {
    Rtype::from_int(v)
}

/// `{"op":"oct","o":[..]}` | `{"op":"cat","of":[t..]}` | `{"op":"sha1","of":[t]}` |
/// `{"op":"rep","k":k,"salt":[..],"of":[t]}` (k times x -> SHA-1(x || salt))
pub fn eval_term(t: &Value) -> Vec<u8> {
    let sha1 = |x: &[u8]| ring::digest::digest(&ring::digest::SHA1_FOR_LEGACY_USE_ONLY, x).as_ref().to_vec();
    match t["op"].as_str().unwrap_or("") {
        "oct" => bytes_of(&t["o"]),
        "cat" => {
            let mut out = vec![];
            for x in t["of"].as_array().cloned().unwrap_or_default() {
                out.extend_from_slice(&eval_term(&x));
            }
            out
        }
        "sha1" => sha1(&eval_term(&t["of"][0])),
        "rep" => {
            let salt = bytes_of(&t["salt"]);
            let mut h = eval_term(&t["of"][0]);
            for _ in 0..t["k"].as_u64().unwrap_or(0) {
                h.extend_from_slice(&salt);
                h = sha1(&h);
            }
            h
        }
        op => panic!("unknown term operator {op}"),
    }
}

//------------ the generators ----------------------------------------------------

use domain::base::iana::Nsec3HashAlgorithm;
use domain::base::name::ToLabelIter;
use domain::dnssec::sign::denial::nsec::{generate_nsecs, GenerateNsecConfig};
use domain::dnssec::common::{nsec3_default_hash, nsec3_hash};
use domain::dnssec::sign::denial::nsec3::{generate_nsec3s, mk_hashed_nsec3_owner_name, GenerateNsec3Config,
                                          Nsec3ParamTtlMode};
use domain::dnssec::sign::records::{DefaultSorter, RecordsIter, SliceRefsOrOwned, SortedRecords};
use domain::rdata::dnssec::{RtypeBitmap, RtypeBitmapBuilder};
use domain::rdata::nsec3::{Nsec3Salt, OwnerHash};
use domain::rdata::{Nsec, Nsec3, Nsec3param};
use domain::utils::base32;

fn raw(o: &[u8]) -> Value {
    json!({"k": "raw", "o": jbytes(o), "n": []})
}
fn nm(labels: &[&[u8]]) -> Value {
    json!({"k": "name", "o": [], "n": labels.iter().map(|l| jbytes(l)).collect::<Vec<_>>()})
}

/// some well-formed record data for a type (the content is irrelevant
/// to denial of existence, except the SOA TTL / MINIMUM)
pub fn rd_for(t: u16, soa_min: u32) -> Value {
    match t {
        1 => json!([raw(&[192, 0, 2, 1])]),
        2 => json!([nm(&[b"ns", b"example"])]),
        6 => {
            let mut tail = vec![0, 0, 0, 1, 0, 0, 14, 16, 0, 0, 3, 132, 0, 9, 58, 128];
            tail.extend_from_slice(&soa_min.to_be_bytes());
            json!([nm(&[b"ns", b"example"]), nm(&[b"h", b"example"]), raw(&tail)])
        }
        16 => json!([raw(&[1, b'x'])]),
        28 => json!([raw(&[32, 1, 13, 184, 0, 0, 0, 0, 0, 0, 0, 0, 0, 0, 0, 1])]),
        43 => {
            let mut v = vec![0, 1, 13, 2];
            v.extend_from_slice(&[7u8; 32]);
            json!([raw(&v)])
        }
        48 => {
            let mut v = vec![1, 0, 3, 13];
            v.extend_from_slice(&[9u8; 64]);
            json!([raw(&v)])
        }
        257 => json!([raw(&[0, 5, b'i', b's', b's', b'u', b'e', b'x'])]),
        15 => json!([raw(&[0, 10]), nm(&[b"mx", b"example"])]),
        33 => json!([raw(&[0, 1, 0, 1, 0, 80]), nm(&[b"h", b"example"])]),
        _ => json!([raw(&[1, 2, 3])]),
    }
}

/// zone records from `[{n, t}]` (+ SOA ttl/min)
pub fn zone_records(input: &Value) -> Result<Vec<SRecord>, String> {
    let soa_ttl = input["soa"]["ttl"].as_u64().unwrap_or(3600) as u32;
    let soa_min = input["soa"]["min"].as_u64().unwrap_or(300) as u32;
    let rrs: Vec<Value> = input["recs"]
        .as_array()
        .cloned()
        .unwrap_or_default()
        .iter()
        .map(|r| {
            let t = r["t"].as_u64().unwrap_or(1) as u16;
            let mut rd = rd_for(t, soa_min);
            if let Some(v) = r.get("v").and_then(|v| v.as_u64()) {
                // a further record of the same owner and type: other data
                // (last octet of the last raw field)
                if let Some(f) = rd.as_array_mut().and_then(|a| a.iter_mut().rev().find(|f| f["k"] == "raw")) {
                    if let Some(o) = f["o"].as_array_mut() {
                        let n = o.len();
                        o[n - 1] = json!(v);
                    }
                }
            }
            json!({"owner": r["n"], "type": t, "class": 1,
                   "ttl": if t == 6 { soa_ttl } else { 3600 }, "rd": rd})
        })
        .collect();
    records_of(&Value::Array(rrs))
}

pub fn types_of<O: AsRef<[u8]>>(bm: &RtypeBitmap<O>) -> Vec<u16> {
    let mut v: Vec<u16> = bm.iter().map(|t| t.to_int()).collect();
    v.sort();
    v
}

pub type NsecRec = Record<SName, Nsec<Bytes, SName>>;
pub type Nsec3Rec = Record<SName, Nsec3<Bytes>>;
type VName = Name<Vec<u8>>;

/// Every public way to hand sorted records to a generator: the
/// collection built by From<Vec> or FromIterator and owner_rrs(), a
/// RecordsIter over the owned slice, a RecordsIter over references.
pub fn with_routes<T, F>(recs: &[SRecord], all: bool, f: F) -> Vec<(&'static str, T)>
where
    F: for<'a> Fn(RecordsIter<'a, SName, SData>) -> T,
{
    let sorted: SortedRecords<SName, SData> = SortedRecords::from(recs.to_vec());
    let mut out = vec![("owner_rrs", f(sorted.owner_rrs()))];
    if all {
        let s2: SortedRecords<SName, SData> = recs.iter().cloned().collect();
        out.push(("from_iter", f(s2.owner_rrs())));
        let slice: &[SRecord] = &sorted;
        out.push(("iter_new", f(RecordsIter::new(SliceRefsOrOwned::new_from_owned(slice)))));
        let refs: Vec<&SRecord> = sorted.iter().collect();
        out.push(("iter_refs", f(RecordsIter::new_from_refs(&refs))));
    }
    out
}

fn nsec_cfg(assume: bool, ctor: &str) -> GenerateNsecConfig {
    let cfg = if ctor == "default" { GenerateNsecConfig::default() } else { GenerateNsecConfig::new() };
    if assume { cfg } else { cfg.without_assuming_dnskeys_will_be_added() }
}

/// Records composed into an (uncompressed) message and parsed back as D.
fn via_wire<D, P>(recs: &[Record<SName, D>], conv: impl Fn(P) -> Result<D, String>)
                  -> Result<Vec<Record<SName, D>>, String>
where
    D: Clone + domain::base::rdata::ComposeRecordData,
    P: for<'a> domain::base::rdata::ParseRecordData<'a, Bytes>,
{
    let mut ab = MessageBuilder::new_vec().answer();
    for r in recs {
        ab.push(r.clone()).map_err(|e| format!("push: {e}"))?;
    }
    let msg = Message::from_octets(Bytes::from(ab.finish())).map_err(|e| format!("{e}"))?;
    let mut out = vec![];
    for r in msg.answer().map_err(|e| format!("{e}"))? {
        let r = r.map_err(|e| format!("{e}"))?;
        let r = r.into_record::<P>().map_err(|e| format!("{e}"))?.ok_or("record type not parsed")?;
        let owner: SName = r.owner().clone().try_flatten_into().map_err(|_| "flatten owner")?;
        let (class, ttl) = (r.class(), r.ttl());
        let data: D = conv(r.into_data())?;
        out.push(Record::new(owner, class, ttl, data));
    }
    Ok(out)
}

/// The generated NSEC records after a representation conversion.
fn convert_nsecs(conv: &str, recs: &[NsecRec], apex: &SName) -> Result<Vec<NsecRec>, String> {
    use octseq::OctetsFrom;
    match conv {
        "wire" => via_wire::<Nsec<Bytes, SName>, Nsec<Bytes, ParsedName<Bytes>>>(
            recs, |d| d.try_flatten_into().map_err(|_| "flatten data".to_string())),
        "octets" => recs.iter().map(|r| {
            let v: Record<VName, Nsec<Vec<u8>, VName>> =
                Record::try_octets_from(r.clone()).map_err(|_| "octets_from".to_string())?;
            Record::try_octets_from(v).map_err(|_| "octets_from".to_string())
        }).collect(),
        "setters" => Ok(recs.iter().map(|r| {
            let mut d = Nsec::new(apex.clone(), r.data().types().clone());
            d.set_next_name(r.data().next_name().clone());
            Record::new(r.owner().clone(), r.class(), r.ttl(), d)
        }).collect()),
        "serde" => recs.iter().map(|r| {
            let j = serde_json::to_value(r.data().types()).map_err(|e| format!("ser: {e}"))?;
            let bm: RtypeBitmap<Bytes> = serde_json::from_value(j).map_err(|e| format!("de: {e}"))?;
            if bm.as_octets().as_ref() != r.data().types().as_slice() {
                return Err("as_octets differs from as_slice".to_string());
            }
            Ok(Record::new(r.owner().clone(), r.class(), r.ttl(), Nsec::new(r.data().next_name().clone(), bm)))
        }).collect(),
        _ => Ok(recs.to_vec()),
    }
}

fn nsec_obs(out: &[NsecRec]) -> Result<(Value, u32, u16), String> {
    let mut chain = vec![];
    let (mut ttl, mut class) = (None, None);
    for r in out {
        chain.push(json!({"owner": jname_lower(r.owner()), "next": jname_lower(r.data().next_name()),
                          "types": types_of(r.data().types())}));
        let (t, c) = (r.ttl().as_secs(), r.class().to_int());
        if ttl.map(|x| x != t).unwrap_or(false) || class.map(|x| x != c).unwrap_or(false) {
            return Err("ttl/class differ between NSEC RRs".into());
        }
        ttl = Some(t);
        class = Some(c);
    }
    Ok((Value::Array(chain), ttl.unwrap_or(0), class.unwrap_or(0)))
}

pub fn run_nsec(recs: Vec<SRecord>, apex: &SName, assume: bool) -> Result<(Value, u32, u16), String> {
    let sorted: SortedRecords<SName, SData> = SortedRecords::from(recs);
    run_nsec_on(&sorted, apex, assume)
}

pub fn run_nsec_on(sorted: &SortedRecords<SName, SData>, apex: &SName, assume: bool) -> Result<(Value, u32, u16), String> {
    let cfg = nsec_cfg(assume, "new");
    let out = generate_nsecs(apex, sorted.owner_rrs(), &cfg).map_err(|e| format!("{e}"))?;
    nsec_obs(&out)
}

const CONVS: [&str; 5] = ["none", "wire", "octets", "setters", "serde"];

pub fn nsec_case(input: &Value) -> Value {
    let recs = match zone_records(input) {
        Ok(r) => r,
        Err(e) => return json!({"bad_zone": e}),
    };
    let apex = name_of(&input["apex"]);
    let cfg = nsec_cfg(input["assume"] == true, input["ctor"].as_str().unwrap_or("new"));
    let all = input["allroutes"] == true;
    let runs = with_routes(&recs, all, |it| generate_nsecs(&apex, it, &cfg).map_err(|e| format!("{e}")));
    let mut obs: Vec<(String, Value)> = vec![];
    for (i, (route, res)) in runs.iter().enumerate() {
        let convs: &[&str] = if i == 0 && all { &CONVS } else { &CONVS[..1] };
        for conv in convs {
            let o = match res {
                Err(_) => json!({"err": true}),
                Ok(out) => match convert_nsecs(conv, out, &apex).and_then(|c| nsec_obs(&c)) {
                    Ok((chain, ttl, class)) => json!({"chain": chain, "ttl": ttl, "class": class}),
                    Err(e) => json!({"conversion_failed": e}),
                },
            };
            obs.push((format!("{route}/{conv}"), o));
        }
    }
    agree(obs)
}

/// all routes must give the same observation
fn agree(obs: Vec<(String, Value)>) -> Value {
    for (name, o) in &obs[1..] {
        if *o != obs[0].1 {
            return json!({"routes_disagree": [obs[0].0.clone(), name.clone()], "a": obs[0].1.clone(), "b": o.clone()});
        }
    }
    obs.into_iter().next().unwrap().1
}

/// per record: (owner hash, next hash, types, flags, iterations, salt, ttl)
pub type N3Row = (Vec<u8>, Vec<u8>, Vec<u16>, u8, u16, Vec<u8>, u32);
pub struct N3Out {
    pub recs: Vec<N3Row>,
    pub param_ttl: u32,
    pub apex_ok: bool,
    /// NSEC3PARAM: (flags, iterations, salt, owner is the apex, class)
    pub param: (u8, u16, Vec<u8>, bool, u16),
    /// consecutive next-owner hashes ascend under OwnerHash's Ord
    pub ord_ok: bool,
    /// `Nsec3::opt_out()` of every record, `Nsec3param::opt_out_flag()` of the NSEC3PARAM
    pub optbits: Vec<bool>,
    pub param_opt: bool,
}

pub fn run_nsec3(recs: Vec<SRecord>, apex: &SName, assume: bool, optout: &str,
                 salt: &[u8], iters: u16) -> Result<N3Out, String> {
    let sorted: SortedRecords<SName, SData> = SortedRecords::from(recs);
    run_nsec3_on(&sorted, apex, assume, optout, salt, iters, None)
}

/// The configuration: started by `new(params)` or `default()` ("default":
/// only with the default parameters), then exactly the public setter
/// methods of `setters` in this order.
pub fn nsec3_cfg(assume: bool, optout: &str, salt: &[u8], iters: u16, setters: Option<Vec<String>>,
                 ctor: &str, ttlv: u32) -> Result<GenerateNsec3Config<Bytes, DefaultSorter>, String> {
    nsec3_cfg_flags(assume, optout, salt, iters, setters, ctor, ttlv, 0)
}

/// `flags0`: the Flags octet handed to `Nsec3param::new`.
#[allow(clippy::too_many_arguments)]
pub fn nsec3_cfg_flags(assume: bool, optout: &str, salt: &[u8], iters: u16, setters: Option<Vec<String>>,
                       ctor: &str, ttlv: u32, flags0: u8) -> Result<GenerateNsec3Config<Bytes, DefaultSorter>, String> {
    let mut cfg: GenerateNsec3Config<Bytes, DefaultSorter> = if ctor == "default" {
        if !salt.is_empty() || iters != 0 || flags0 != 0 {
            return Err("default() with other parameters".into());
        }
        GenerateNsec3Config::default()
    } else {
        let salt = Nsec3Salt::from_octets(Bytes::copy_from_slice(salt)).map_err(|e| format!("{e}"))?;
        GenerateNsec3Config::new(Nsec3param::new(Nsec3HashAlgorithm::SHA1, flags0, iters, salt))
    };
    let order: Vec<String> = match setters {
        Some(v) => v,
        None => {
            let mut v = vec![];
            if !assume {
                v.push("no_dnskey".to_string());
            }
            if optout != "none" {
                v.push("opt_out".to_string());
            }
            if optout == "flagonly" {
                v.push("no_exclude".to_string());
            }
            v
        }
    };
    for st in &order {
        cfg = match st.as_str() {
            "no_dnskey" => cfg.without_assuming_dnskeys_will_be_added(),
            "opt_out" => cfg.with_opt_out(),
            "no_exclude" => cfg.without_opt_out_excluding_owner_names_of_unsigned_delegations(),
            "ttl_soa" => cfg.with_ttl_mode(Nsec3ParamTtlMode::soa()),
            "ttl_soa_min" => cfg.with_ttl_mode(Nsec3ParamTtlMode::soa_minimum()),
            "ttl_fixed" => cfg.with_ttl_mode(Nsec3ParamTtlMode::fixed(Ttl::from_secs(ttlv))),
            _ => return Err("unknown setter".into()),
        };
    }
    Ok(cfg)
}

pub fn run_nsec3_on(sorted: &SortedRecords<SName, SData>, apex: &SName, assume: bool, optout: &str,
                    salt: &[u8], iters: u16, setters: Option<Vec<String>>) -> Result<N3Out, String> {
    let cfg = nsec3_cfg(assume, optout, salt, iters, setters, "new", 0)?;
    let out = generate_nsec3s(apex, sorted.owner_rrs(), &cfg).map_err(|e| format!("{e}"))?;
    n3_rows(&out.nsec3s, &out.nsec3param, apex)
}

fn n3_rows(nsec3s: &[Nsec3Rec], param: &Record<SName, Nsec3param<Bytes>>, apex: &SName) -> Result<N3Out, String> {
    let mut v = vec![];
    let mut apex_ok = true;
    let mut ord_ok = true;
    let optbits: Vec<bool> = nsec3s.iter().map(|r| r.data().opt_out()).collect();
    for (i, r) in nsec3s.iter().enumerate() {
        let first = r.owner().iter_labels().next().unwrap();
        let text = String::from_utf8_lossy(first.as_slice()).to_string();
        let h: Vec<u8> = base32::decode_hex::<Vec<u8>>(&text).map_err(|_| "owner label is not base32hex")?;
        // the rest of the owner name is the apex
        let rest = r.owner().parent().ok_or("no parent")?;
        if !rest.name_eq(apex) {
            apex_ok = false;
        }
        if i + 2 < nsec3s.len()
            && r.data().next_owner().cmp(nsec3s[i + 1].data().next_owner()) != std::cmp::Ordering::Less {
            ord_ok = false;
        }
        v.push((h, r.data().next_owner().as_slice().to_vec(), types_of(r.data().types()),
                r.data().flags(), r.data().iterations(), r.data().salt().as_slice().to_vec(),
                r.ttl().as_secs()));
    }
    let p = param.data();
    Ok(N3Out { recs: v, param_ttl: param.ttl().as_secs(), apex_ok, ord_ok, optbits, param_opt: p.opt_out_flag(),
               param: (p.flags(), p.iterations(), p.salt().as_slice().to_vec(),
                       param.owner().name_eq(apex), param.class().to_int()) })
}

/// The generated NSEC3 records (and the NSEC3PARAM) after a representation conversion.
#[allow(clippy::type_complexity)]
fn convert_nsec3s(conv: &str, recs: &[Nsec3Rec], param: &Record<SName, Nsec3param<Bytes>>)
                  -> Result<(Vec<Nsec3Rec>, Record<SName, Nsec3param<Bytes>>), String> {
    use octseq::OctetsFrom;
    match conv {
        "wire" => {
            let p = via_wire::<Nsec3param<Bytes>, Nsec3param<Bytes>>(std::slice::from_ref(param), Ok)?;
            Ok((via_wire::<Nsec3<Bytes>, Nsec3<Bytes>>(recs, Ok)?, p.into_iter().next().ok_or("no NSEC3PARAM")?))
        }
        "octets" => {
            let rs: Result<Vec<Nsec3Rec>, String> = recs.iter().map(|r| {
                let v: Record<VName, Nsec3<Vec<u8>>> =
                    Record::try_octets_from(r.clone()).map_err(|_| "octets_from".to_string())?;
                Record::try_octets_from(v).map_err(|_| "octets_from".to_string())
            }).collect();
            let v: Record<VName, Nsec3param<Vec<u8>>> =
                Record::try_octets_from(param.clone()).map_err(|_| "octets_from".to_string())?;
            // into_salt gives the salt the accessor shows
            if v.data().clone().into_salt().as_slice() != param.data().salt().as_slice() {
                return Err("into_salt differs".into());
            }
            Ok((rs?, Record::try_octets_from(v).map_err(|_| "octets_from".to_string())?))
        }
        "setters" => Ok((recs.iter().map(|r| {
            let d = r.data();
            let mut n = Nsec3::new(d.hash_algorithm(), d.flags(), d.iterations(), d.salt().clone(),
                                   OwnerHash::from_octets(Bytes::new()).expect("empty hash"),
                                   RtypeBitmap::<Bytes>::builder().finalize());
            n.set_types(d.types().clone());
            n.set_next_owner(d.next_owner().clone());
            Record::new(r.owner().clone(), r.class(), r.ttl(), n)
        }).collect(), param.clone())),
        "serde" => {
            let rs: Result<Vec<Nsec3Rec>, String> = recs.iter().map(|r| {
                let d = r.data();
                let salt: Nsec3Salt<Bytes> = serde_json::from_value(
                    serde_json::to_value(d.salt()).map_err(|e| format!("ser: {e}"))?).map_err(|e| format!("de salt: {e}"))?;
                let next: OwnerHash<Bytes> = serde_json::from_value(
                    serde_json::to_value(d.next_owner()).map_err(|e| format!("ser: {e}"))?).map_err(|e| format!("de hash: {e}"))?;
                let types: RtypeBitmap<Bytes> = serde_json::from_value(
                    serde_json::to_value(d.types()).map_err(|e| format!("ser: {e}"))?).map_err(|e| format!("de types: {e}"))?;
                Ok(Record::new(r.owner().clone(), r.class(), r.ttl(),
                               Nsec3::new(d.hash_algorithm(), d.flags(), d.iterations(), salt, next, types)))
            }).collect();
            Ok((rs?, param.clone()))
        }
        _ => Ok((recs.to_vec(), param.clone())),
    }
}

pub fn nsec3_case(input: &Value) -> Value {
    let recs = match zone_records(input) {
        Ok(r) => r,
        Err(e) => return json!({"bad_zone": e}),
    };
    let apex = name_of(&input["apex"]);
    let salt = bytes_of(&input["salt"]);
    let iters = input["iters"].as_u64().unwrap_or(0) as u16;
    let setters = input.get("setters").and_then(|v| v.as_array()).map(|a| {
        a.iter().map(|x| x.as_str().unwrap_or("").to_string()).collect::<Vec<_>>()
    });
    let flags0 = input["flags0"].as_u64().unwrap_or(0);
    if flags0 > 255 {
        return json!({"bad_case": "flags0"});
    }
    // (Flags octet, Opt-Out bit) pairs the specification admits on the NSEC3PARAM RR
    let pallowed: Option<Vec<(u64, bool)>> = input.get("paramflags").and_then(|v| v.as_array()).map(|a| {
        a.iter().map(|x| (x["f"].as_u64().unwrap_or(999), x["opt"] == true)).collect()
    });
    let cfg = match nsec3_cfg_flags(input["assume"] == true, input["optout"].as_str().unwrap_or("none"), &salt, iters,
                              setters, input["ctor"].as_str().unwrap_or("new"),
                              input["ttlv"].as_u64().unwrap_or(0) as u32, flags0 as u8) {
        Ok(c) => c,
        Err(e) => return json!({"bad_case": e}),
    };
    // independent hashes of the names the specification expects (in
    // canonical name order), from the specification's terms; where the
    // abbreviated form of the term is given too, both must agree
    let names = input["names"].as_array().cloned().unwrap_or_default();
    let hashes: Vec<Vec<u8>> = names.iter().map(|n| eval_term(&n["term"])).collect();
    for (n, h) in names.iter().zip(hashes.iter()) {
        if n.get("rep").is_some() && iters <= 300 && eval_term(&n["rep"]) != *h {
            return json!({"term_forms_disagree": n["n"]});
        }
    }
    let all = input["allroutes"] == true;
    let runs = with_routes(&recs, all, |it| generate_nsec3s(&apex, it, &cfg).map_err(|e| format!("{e}")));
    let mut obs: Vec<(String, Value)> = vec![];
    for (i, (route, res)) in runs.iter().enumerate() {
        let convs: &[&str] = if i == 0 && all { &CONVS } else { &CONVS[..1] };
        for conv in convs {
            let o = match res {
                Err(_) => json!({"err": true}),
                Ok(out) => match convert_nsec3s(conv, &out.nsec3s, &out.nsec3param)
                    .and_then(|(rs, p)| n3_rows(&rs, &p, &apex)) {
                    Ok(rows) => nsec3_obs(&rows, &names, &hashes, &salt, iters, pallowed.as_deref()),
                    Err(e) => json!({"conversion_failed": e}),
                },
            };
            obs.push((format!("{route}/{conv}"), o));
        }
    }
    agree(obs)
}

fn nsec3_obs(out: &N3Out, names: &[Value], hashes: &[Vec<u8>], salt: &[u8], iters: u16,
             pallowed: Option<&[(u64, bool)]>) -> Value {
    let mut entries: Vec<(usize, Value)> = vec![];
    let mut unknown = vec![];
    for r in &out.recs {
        match hashes.iter().position(|h| *h == r.0) {
            Some(i) => entries.push((i, json!({"n": names[i]["n"], "types": r.2}))),
            None => unknown.push(jbytes(&r.0)),
        }
    }
    if !unknown.is_empty() {
        return json!({"hash_not_of_an_expected_name": unknown});
    }
    // order and closure against the independent hashes: library order is
    // strictly ascending by hash (also under OwnerHash's own Ord), every
    // next = the following owner, the last points to the first
    let n = out.recs.len();
    let mut linked = n > 0 && out.apex_ok && out.ord_ok;
    for i in 0..n {
        if i + 1 < n && out.recs[i].0 >= out.recs[i + 1].0 {
            linked = false;
        }
        if out.recs[i].1 != out.recs[(i + 1) % n].0 {
            linked = false;
        }
    }
    let flags = out.recs.iter().map(|r| r.3).collect::<std::collections::BTreeSet<_>>();
    let ttls = out.recs.iter().map(|r| r.6).collect::<std::collections::BTreeSet<_>>();
    // every NSEC3 RR and the NSEC3PARAM RR (at the apex, class IN) carry
    // the configured iterations and salt
    let params_ok = out.recs.iter().all(|r| r.4 == iters && r.5 == salt)
        && out.param.1 == iters && out.param.2 == salt && out.param.3 && out.param.4 == 1;
    let opts = out.optbits.iter().collect::<std::collections::BTreeSet<_>>();
    if flags.len() != 1 || ttls.len() != 1 || !params_ok || opts.len() != 1 {
        return json!({"records_differ_in_flags_ttl_or_params": true});
    }
    entries.sort_by_key(|e| e.0);
    let mut o = json!({"entries": entries.into_iter().map(|e| e.1).collect::<Vec<_>>(), "linked": linked,
           "flags": flags.into_iter().next().unwrap(), "ttl": ttls.into_iter().next().unwrap(),
           "paramttl": out.param_ttl});
    if let Some(allowed) = pallowed {
        // what every NSEC3 RR's opt_out() says; the NSEC3PARAM RR's Flags
        // octet with its opt_out_flag() is one of the admitted pairs
        o["optbit"] = json!(**opts.iter().next().unwrap());
        o["paramflags_ok"] = json!(allowed.contains(&(out.param.0 as u64, out.param_opt)));
    }
    o
}

fn base32hex_lower(b: &[u8]) -> Vec<u8> {
    const A: &[u8; 32] = b"0123456789abcdefghijklmnopqrstuv";
    let (mut out, mut acc, mut bits) = (vec![], 0u32, 0);
    for x in b {
        acc = (acc << 8) | *x as u32;
        bits += 8;
        while bits >= 5 {
            out.push(A[((acc >> (bits - 5)) & 31) as usize]);
            bits -= 5;
        }
    }
    if bits > 0 {
        out.push(A[((acc << (5 - bits)) & 31) as usize]);
    }
    out
}

/// Every public route to the hash of one name under one parameter set.
pub fn n3hash_case(input: &Value) -> Value {
    use octseq::OctetsFrom;
    use std::str::FromStr;
    let name = name_of(&input["n"]);
    let apex = name_of(&input["apex"]);
    let salt = bytes_of(&input["salt"]);
    let iters = input["iters"].as_u64().unwrap_or(0) as u16;
    let want = eval_term(&input["term"]);
    if input.get("rep").is_some() && eval_term(&input["rep"]) != want {
        return json!({"term_forms_disagree": true});
    }
    // the salt through every constructor
    let hex: String = if salt.is_empty() { "-".into() } else { salt.iter().map(|b| format!("{b:02X}")).collect() };
    let s0 = match Nsec3Salt::from_octets(Bytes::copy_from_slice(&salt)) {
        Ok(s) => s,
        Err(_) => return json!({"salt_refused": true}),
    };
    let mut salts: Vec<Nsec3Salt<Bytes>> = vec![s0.clone()];
    let mut salts_ok = true;
    match Nsec3Salt::from_bytes(Bytes::copy_from_slice(&salt)) { Ok(s) => salts.push(s), Err(_) => salts_ok = false }
    match Nsec3Salt::<Bytes>::from_str(&hex) { Ok(s) => salts.push(s), Err(_) => salts_ok = false }
    match Nsec3Salt::<Bytes>::from_str(&hex.to_ascii_lowercase()) { Ok(s) => salts.push(s), Err(_) => salts_ok = false }
    match Nsec3Salt::from_slice(&salt) {
        Ok(s) => salts_ok &= s.as_slice() == &salt[..] && format!("{s}") == format!("{s0}"),
        Err(_) => salts_ok = false,
    }
    match Nsec3Salt::from_octets(salt.clone()) {
        Ok(v) => {
            salts_ok &= v.clone().into_octets() == salt;
            match Nsec3Salt::<Bytes>::try_octets_from(v) { Ok(s) => salts.push(s), Err(_) => salts_ok = false }
        }
        Err(_) => salts_ok = false,
    }
    match serde_json::to_value(&s0).map_err(|_| ()).and_then(|j| serde_json::from_value::<Nsec3Salt<Bytes>>(j).map_err(|_| ())) {
        Ok(s) => salts.push(s),
        Err(_) => salts_ok = false,
    }
    if salt.is_empty() {
        salts.push(Nsec3Salt::empty());
    }
    let mut hash_ok = true;
    for s in &salts {
        salts_ok &= s.as_slice() == &salt[..] && *s == s0;
        match nsec3_hash::<_, _, Vec<u8>>(&name, Nsec3HashAlgorithm::SHA1, iters, s) {
            Ok(h) => hash_ok &= h.as_slice() == &want[..],
            Err(_) => hash_ok = false,
        }
    }
    // OwnerHash through its constructors
    let text = String::from_utf8(base32hex_lower(&want)).unwrap();
    let h0 = OwnerHash::from_octets(Bytes::copy_from_slice(&want));
    match &h0 {
        Ok(h0) => {
            hash_ok &= OwnerHash::from_bytes(Bytes::copy_from_slice(&want)).map(|h| h == *h0).unwrap_or(false);
            hash_ok &= OwnerHash::from_slice(&want).map(|h| h.as_slice() == &want[..]).unwrap_or(false);
            hash_ok &= OwnerHash::<Bytes>::from_str(&text).map(|h| h == *h0).unwrap_or(false);
            hash_ok &= OwnerHash::<Bytes>::from_str(&text.to_ascii_uppercase()).map(|h| h == *h0).unwrap_or(false);
            hash_ok &= serde_json::to_value(h0).ok()
                .and_then(|j| serde_json::from_value::<OwnerHash<Bytes>>(j).ok()).map(|h| h == *h0).unwrap_or(false);
            hash_ok &= format!("{h0}").to_ascii_lowercase() == text;
        }
        Err(_) => hash_ok = false,
    }
    // nsec3_default_hash: RFC 9276 parameters
    let default = if salt.is_empty() && iters == 0 {
        match nsec3_default_hash::<_, Vec<u8>>(&name) {
            Ok(h) if h.as_slice() == &want[..] => json!(true),
            _ => json!("mismatch"),
        }
    } else {
        json!(false)
    };
    // the hashed owner name: lower-case base32hex label in front of the apex
    let owner = match mk_hashed_nsec3_owner_name::<SName, Bytes, _>(&name, Nsec3HashAlgorithm::SHA1, iters, &s0, &apex) {
        Ok(o) => {
            let first = o.iter_labels().next().map(|l| l.as_slice().to_vec()).unwrap_or_default();
            first == text.as_bytes() && o.parent().map(|p| p.name_eq(&apex)).unwrap_or(false)
                && o.iter_labels().count() == apex.iter_labels().count() + 1
        }
        Err(_) => false,
    };
    json!({"hash": hash_ok, "owner": owner, "salts": salts_ok, "default": default})
}

/// Which octet strings are salts (RFC 5155 3.1.5: at most 255 octets):
/// every constructor gives the same answer.
/// The accessor pair and the setter on one Flags octet, through every route
/// to an `Nsec3param` / `Nsec3` that carries it.
pub fn n3flags_case(input: &Value) -> Value {
    use octseq::OctetsFrom;
    let f = match input["flags"].as_u64() {
        Some(f) if f <= 255 => f as u8,
        _ => return json!({"bad_case": true}),
    };
    let owner = name_of(&json!([[101, 120]]));
    let salt = || Nsec3Salt::from_octets(Bytes::from_static(&[0xab])).expect("salt");
    let p0: Nsec3param<Bytes> = Nsec3param::new(Nsec3HashAlgorithm::SHA1, f, 1, salt());
    let n0: Nsec3<Bytes> = Nsec3::new(Nsec3HashAlgorithm::SHA1, f, 1, salt(),
                                      OwnerHash::from_octets(Bytes::from(vec![7u8; 20])).expect("hash"),
                                      RtypeBitmap::<Bytes>::builder().finalize());
    let mut ps: Vec<(&str, Nsec3param<Bytes>)> = vec![("new", p0.clone())];
    let mut ns: Vec<(&str, Nsec3<Bytes>)> = vec![("new", n0.clone())];
    let prec = Record::new(owner.clone(), Class::IN, Ttl::from_secs(5), p0.clone());
    let nrec = Record::new(owner.clone(), Class::IN, Ttl::from_secs(5), n0.clone());
    match via_wire::<Nsec3param<Bytes>, Nsec3param<Bytes>>(std::slice::from_ref(&prec), Ok) {
        Ok(v) if v.len() == 1 => ps.push(("wire", v[0].data().clone())),
        _ => return json!({"wire_failed": "nsec3param"}),
    }
    match via_wire::<Nsec3<Bytes>, Nsec3<Bytes>>(std::slice::from_ref(&nrec), Ok) {
        Ok(v) if v.len() == 1 => ns.push(("wire", v[0].data().clone())),
        _ => return json!({"wire_failed": "nsec3"}),
    }
    match Nsec3param::<Vec<u8>>::try_octets_from(p0.clone()).ok()
        .and_then(|v| Nsec3param::<Bytes>::try_octets_from(v).ok()) {
        Some(p) => ps.push(("octets", p)),
        None => return json!({"octets_failed": "nsec3param"}),
    }
    match Nsec3::<Vec<u8>>::try_octets_from(n0.clone()).ok()
        .and_then(|v| Nsec3::<Bytes>::try_octets_from(v).ok()) {
        Some(n) => ns.push(("octets", n)),
        None => return json!({"octets_failed": "nsec3"}),
    }
    match serde_json::to_value(&p0).ok().and_then(|v| serde_json::from_value::<Nsec3param<Bytes>>(v).ok()) {
        Some(p) => ps.push(("serde", p)),
        None => return json!({"serde_failed": "nsec3param"}),
    }
    // as the record data of a generated chain hands it back (ZoneRecordData)
    if let ZoneRecordData::Nsec3param(p) = ZoneRecordData::<Bytes, SName>::from(p0.clone()) {
        ps.push(("zonedata", p));
    }
    if let ZoneRecordData::Nsec3(n) = ZoneRecordData::<Bytes, SName>::from(n0.clone()) {
        ns.push(("zonedata", n));
    }
    let mut obs: Vec<(String, Value)> = vec![];
    for (route, p) in &ps {
        let mut q = p.clone();
        q.set_opt_out_flag();
        let cfg: GenerateNsec3Config<Bytes, DefaultSorter> = GenerateNsec3Config::new(p.clone()).with_opt_out();
        for (nroute, n) in &ns {
            obs.push((format!("{route}/{nroute}"),
                      json!({"flags": if p.flags() == n.flags() { json!(p.flags()) } else { json!("differ") },
                             "param_opt": p.opt_out_flag(), "nsec3_opt": n.opt_out(),
                             "set": q.flags(), "set_opt": q.opt_out_flag(), "cfg": cfg.params.flags()})));
        }
    }
    agree(obs)
}

pub fn salt_case(input: &Value) -> Value {
    use std::str::FromStr;
    let salt: Vec<u8> = (0..input["len"].as_u64().unwrap_or(0)).map(|i| (i * 13 % 256) as u8).collect();
    let hex: String = if salt.is_empty() { "-".into() } else { salt.iter().map(|b| format!("{b:02x}")).collect() };
    let answers = [
        Nsec3Salt::from_octets(salt.clone()).is_ok(),
        Nsec3Salt::from_octets(Bytes::copy_from_slice(&salt)).is_ok(),
        Nsec3Salt::from_bytes(Bytes::copy_from_slice(&salt)).is_ok(),
        Nsec3Salt::from_slice(&salt).is_ok(),
        Nsec3Salt::<Vec<u8>>::from_str(&hex).is_ok(),
    ];
    if answers.iter().any(|a| *a != answers[0]) {
        return json!({"constructors_disagree": answers.to_vec()});
    }
    json!({"accepted": answers[0]})
}

fn coll_json(sorted: &SortedRecords<SName, SData>) -> Value {
    Value::Array(sorted.iter().map(|r| json!({"n": jname(r.owner()), "t": r.rtype().to_int()})).collect())
}

/// NSEC chain of a collection; Ok((chain json with owner names as they
/// stand, generated records as zone records))
fn nsec_on(sorted: &SortedRecords<SName, SData>, apex: &SName) -> Result<(Value, Vec<SRecord>), String> {
    let cfg = GenerateNsecConfig::new();
    let out = generate_nsecs(apex, sorted.owner_rrs(), &cfg).map_err(|e| format!("{e}"))?;
    let chain: Vec<Value> = out.iter().map(|r| json!({"owner": jname(r.owner()),
        "next": jname(r.data().next_name()), "types": types_of(r.data().types())})).collect();
    let recs: Vec<SRecord> = out.into_iter()
        .map(|r| Record::new(r.owner().clone(), r.class(), r.ttl(), ZoneRecordData::Nsec(r.data().clone())))
        .collect();
    Ok((Value::Array(chain), recs))
}

/// The sign-zone workflow on one SortedRecords: assemble in batches
/// through From<Vec> / extend / insert, generate, extend with the
/// generated NSEC records, generate again.  After every step: the
/// collection (owner, type) and the chain.
pub fn zonebuild_case(input: &Value) -> Value {
    let apex = name_of(&input["apex"]);
    let mut sorted: SortedRecords<SName, SData> = SortedRecords::new();
    let mut steps = vec![];
    for op in input["ops"].as_array().cloned().unwrap_or_default() {
        let batch = match zone_records(&json!({"recs": op["batch"], "soa": {"ttl": 3600, "min": 300}})) {
            Ok(b) => b,
            Err(e) => return json!({"bad_batch": e}),
        };
        let mut chain = json!([]);
        let mut found = false;
        let sel = &op["sel"];
        let sel_name = name_of(&sel["n"]);
        let sel_class = match sel["class"].as_u64().unwrap_or(0) {
            0 => None,
            c => Some(Class::from_int(c as u16)),
        };
        let sel_type = match sel["t"].as_u64().unwrap_or(0) {
            0 => None,
            t => Some(rtype(t as u16)),
        };
        match op["op"].as_str().unwrap_or("") {
            "remove_all" => found = sorted.remove_all_by_name_class_rtype(&sel_name, sel_class, sel_type),
            "remove_first" => found = sorted.remove_first_by_name_class_rtype(&sel_name, sel_class, sel_type),
            "update" => {
                // other data of the same type for the first record of that
                // owner (any spelling), class and type
                let t = sel_type.map(|t| t.to_int()).unwrap_or(1);
                let fresh = match zone_records(&json!({"recs": [{"n": sel["n"], "t": t, "v": 9}],
                                                       "soa": {"ttl": 3600, "min": 300}})) {
                    Ok(b) => b[0].data().clone(),
                    Err(e) => return json!({"bad_update": e}),
                };
                let hit = |r: &SRecord| r.owner().name_eq(&sel_name) && Some(r.class()) == sel_class
                    && Some(r.rtype()) == sel_type;
                sorted.update_data(hit, fresh.clone());
                found = sorted.iter().any(|r| hit(r) && *r.data() == fresh);
            }
            "strip_nsec" => {
                let owners: Vec<SName> = sorted.owner_rrs().map(|o| o.owner().clone()).collect();
                for o in owners {
                    found |= sorted.remove_all_by_name_class_rtype(&o, None, Some(Rtype::NSEC));
                }
            }
            "from" => sorted = SortedRecords::from(batch),
            "extend" => sorted.extend(batch),
            "insert" => {
                for r in batch {
                    let _ = sorted.insert(r);
                }
            }
            "gen_extend" => match nsec_on(&sorted, &apex) {
                Ok((c, recs)) => {
                    chain = c;
                    sorted.extend(recs);
                }
                Err(e) => {
                    steps.push(json!({"err": e}));
                    continue;
                }
            },
            "gen" => match nsec_on(&sorted, &apex) {
                Ok((c, _)) => chain = c,
                Err(e) => {
                    steps.push(json!({"err": e}));
                    continue;
                }
            },
            _ => return json!({"bad_op": true}),
        }
        let obs = json!({"len": sorted.len(), "empty": sorted.is_empty(), "soa": sorted.find_soa().is_some(),
                         "apexns": sorted.find_apex_rtype(&apex, Rtype::NS).is_some()});
        steps.push(json!({"coll": coll_json(&sorted), "chain": chain, "found": found, "obs": obs}));
    }
    json!({"steps": steps})
}

pub fn bitmap_case(input: &Value) -> Value {
    let adds = input["adds"].as_array().cloned().unwrap_or_default();
    // the builder from new_vec() / Default::default() / RtypeBitmap::builder()
    let mut bs = [RtypeBitmapBuilder::<Vec<u8>>::new_vec(), RtypeBitmapBuilder::<Vec<u8>>::default(),
                  RtypeBitmap::<Vec<u8>>::builder()];
    let mut obs = vec![];
    for (i, b) in bs.iter_mut().enumerate() {
        for t in &adds {
            if b.add(rtype(t.as_u64().unwrap_or(0) as u16)).is_err() {
                return json!({"err": true});
            }
        }
        let bm: RtypeBitmap<Vec<u8>> = b.clone().finalize();
        obs.push((format!("builder{i}"), json!({"octets": jbytes(bm.as_slice()), "types": types_of(&bm)})));
        if i == 0 {
            // the serde form and back; the octets through every accessor
            let back: Result<RtypeBitmap<Vec<u8>>, String> = serde_json::to_value(&bm).map_err(|e| format!("{e}"))
                .and_then(|j| serde_json::from_value(j).map_err(|e| format!("{e}")));
            obs.push(("serde".to_string(), match back {
                Ok(b2) => json!({"octets": jbytes(b2.as_octets()), "types": types_of(&b2)}),
                Err(e) => json!({"serde_failed": e}),
            }));
            let r: &Vec<u8> = bm.as_ref();
            obs.push(("as_ref".to_string(), json!({"octets": jbytes(r), "types": types_of(&bm)})));
        }
    }
    agree(obs)
}

/// One of the public ways to hand the collection's records to a generator.
pub fn drive<T, F>(sorted: &SortedRecords<SName, SData>, route: &str, f: F) -> T
where
    F: for<'a> FnOnce(RecordsIter<'a, SName, SData>) -> T,
{
    match route {
        "iter_new" => {
            let slice: &[SRecord] = sorted;
            f(RecordsIter::new(SliceRefsOrOwned::new_from_owned(slice)))
        }
        "iter_refs" => {
            let refs: Vec<&SRecord> = sorted.iter().collect();
            f(RecordsIter::new_from_refs(&refs))
        }
        _ => f(sorted.owner_rrs()),
    }
}

/// independent NSEC3 hash (RFC 5155 5) with ring
pub fn indep_hash(lower_wire: &[u8], salt: &[u8], iters: u16) -> Vec<u8> {
    let mut x = lower_wire.to_vec();
    x.extend_from_slice(salt);
    let mut h = ring::digest::digest(&ring::digest::SHA1_FOR_LEGACY_USE_ONLY, &x).as_ref().to_vec();
    for _ in 0..iters {
        let mut y = h.clone();
        y.extend_from_slice(salt);
        h = ring::digest::digest(&ring::digest::SHA1_FOR_LEGACY_USE_ONLY, &y).as_ref().to_vec();
    }
    h
}

fn lower_labels(n: &[Vec<u8>]) -> Vec<Vec<u8>> {
    n.iter().map(|l| l.iter().map(|b| b.to_ascii_lowercase()).collect()).collect()
}
fn jl(n: &[Vec<u8>]) -> Value {
    Value::Array(n.iter().map(|l| jbytes(l)).collect())
}
fn wire(n: &[Vec<u8>]) -> Vec<u8> {
    name_wire(&jl(n))
}

/// I->S: random zones, one event per zone with both generated chains.
pub fn record(out: &str, seed: u64, zones: u64, max_names: u64) {
    use verif_harness::common::{Rng, TraceWriter};
    let mut w = TraceWriter::create(out);
    let mut rng = Rng::new(seed);
    let alphabet: [&[u8]; 8] = [b"a", b"b", b"c", b"d", b"A", b"B", b"*", b"x1"];
    // labels whose place among their siblings depends on how octets are
    // folded and compared: 0x5B-0x60, around the digits, NUL, >= 0x80
    let edge: [&[u8]; 14] = [b"_", b"[", b"`", b"{", b"-", b"\0", b"\xC1", b"\xE1", b"@", b"Z", b"z", b"a_", b"aB", b"_a"];
    // [2, 6, 15]: the collection also holds the delegated child's apex
    // data (SOA, MX) at the delegation point
    let menus: [&[u16]; 11] = [&[1], &[1, 28], &[16], &[15, 16, 257], &[2], &[2, 43], &[2, 1], &[33], &[2],
                               &[2, 6, 15], &[2, 43, 6]];
    let thorough = verif_harness::common::tier_thorough();
    let mut z = 0;
    while z < zones {
        let mut apex: Vec<Vec<u8>> = if rng.chance(1, 2) { vec![b"ex".to_vec()] } else { vec![b"Zone".to_vec(), b"ex".to_vec()] };
        if rng.chance(1, 4) {
            // an apex at the length limit: 220..222 wire octets leave just
            // room for the 33-octet hash label
            let w = 220 + rng.below(3) as usize;
            let l63 = |c: u8| -> Vec<u8> { (0..63).map(|i| c + (i % 5) as u8).collect() };
            apex = vec![(0..(w - 194)).map(|i| b'0' + (i % 10) as u8).collect(), l63(b'a'), l63(b'A'), l63(b'k')];
        }
        // the name tree
        let mut names: Vec<Vec<Vec<u8>>> = vec![apex.clone()];
        let target = 2 + rng.below(max_names);
        let mut recs: Vec<(Vec<Vec<u8>>, u16)> = vec![];
        let mut seen = std::collections::BTreeSet::new();
        let mut apex_types = vec![6u16, 2];
        if rng.chance(1, 2) {
            apex_types.extend([48, 1]);
        }
        for t in apex_types {
            seen.insert((lower_labels(&apex), t));
            recs.push((apex.clone(), t));
        }
        for _ in 0..target {
            let base = names[rng.below(names.len() as u64) as usize].clone();
            if base.len() >= apex.len() + 4 {
                continue;
            }
            let mut n = vec![if rng.chance(1, 4) { edge[rng.below(14) as usize].to_vec() }
                             else { alphabet[rng.below(8) as usize].to_vec() }];
            if rng.chance(1, 3) {
                n.push(alphabet[rng.below(6) as usize].to_vec()); // skips a level: an ENT
            }
            n.extend(base.iter().cloned());
            names.push(n.clone());
            for t in menus[rng.below(11) as usize] {
                if seen.insert((lower_labels(&n), *t)) {
                    recs.push((n.clone(), *t));
                }
            }
        }
        // limit shapes: an owner name of wire length 253..255 made of
        // 63-octet labels; (thorough) the maximum number of labels
        let apex_wire: usize = apex.iter().map(|l| l.len() + 1).sum::<usize>() + 1;
        if rng.chance(1, 2) {
            let total = 253 + rng.below(3) as usize;
            let mut room = total - apex_wire;
            let mut n: Vec<Vec<u8>> = vec![];
            while room > 0 {
                let l = std::cmp::min(63, room - 1);
                if l == 0 {
                    break;
                }
                n.push((0..l).map(|i| if rng.chance(1, 4) { b'A' + (i % 7) as u8 } else { b'a' + (i % 7) as u8 }).collect());
                room -= l + 1;
            }
            if room == 0 {
                n.reverse();
                n.extend(apex.iter().cloned());
                if seen.insert((lower_labels(&n), 1)) {
                    recs.push((n.clone(), 1));
                    names.push(n);
                }
            }
        }
        if thorough && rng.chance(1, 4) {
            let mut room = 254 + rng.below(2) as usize - apex_wire;
            let mut n: Vec<Vec<u8>> = vec![];
            if room % 2 == 1 {
                n.push(b"xy".to_vec());
                room -= 3;
            }
            while room >= 2 {
                n.push(vec![b'a' + (room % 3) as u8]);
                room -= 2;
            }
            n.extend(apex.iter().cloned());
            if seen.insert((lower_labels(&n), 16)) {
                recs.push((n.clone(), 16));
            }
        }
        if rng.chance(1, 3) {
            recs.push((vec![b"a".to_vec()], 1));
        }
        if rng.chance(1, 3) {
            recs.push((vec![b"zz".to_vec()], 1));
        }
        // the zone suffix of an owner name is spelled independently of the
        // apex records and of the apex name handed to the generators
        let recase = |rng: &mut Rng, n: &mut Vec<Vec<u8>>, from: usize| {
            for l in n.iter_mut().skip(from) {
                for b in l.iter_mut() {
                    if b.is_ascii_alphabetic() && rng.chance(1, 2) {
                        *b ^= 0x20;
                    }
                }
            }
        };
        for (n, _) in recs.iter_mut() {
            if rng.chance(1, 4) && n.len() >= apex.len() && lower_labels(&n[n.len() - apex.len()..]) == lower_labels(&apex) {
                let from = n.len() - apex.len();
                recase(&mut rng, n, from);
            }
        }
        if rng.chance(1, 2) {
            recase(&mut rng, &mut apex, 0);
        }
        let assume = rng.chance(1, 2);
        let optout = *rng.pick(&["none", "exclude", "flagonly"]);
        let nsalt = match rng.below(12) { 0 => 255, 1 => 254, 2 => 8, _ => rng.below(5) as usize };
        let salt = rng.bytes(nsalt);
        let iters = match rng.below(16) {
            0 => 150, 1 => 2500, 2 => 2501, 3 => 5000, 4 => 256,
            5 if max_names <= 40 => *rng.pick(&[65535u16, 32768]),
            _ => rng.below(4) as u16,
        };
        let ttlmode = *rng.pick(&["default", "soa", "soa_min", "fixed"]);
        let ttlv = rng.below(100000) as u32;
        let (soa_ttl, soa_min) = if rng.chance(1, 2) { (3600, 300) } else { (60, 86400) };
        let input = json!({"recs": recs.iter().map(|(n, t)| json!({"n": jl(n), "t": t})).collect::<Vec<_>>(),
                           "soa": {"ttl": soa_ttl, "min": soa_min}});
        let lib = match zone_records(&input) {
            Ok(r) => r,
            Err(_) => continue,
        };
        let apex_name = name_of(&jl(&apex));
        // the collection is assembled the way a caller might: at once, or
        // in batches that repeat records (extend / insert)
        let assembly = *rng.pick(&["from", "extend2", "insert+extend"]);
        let mut sorted: SortedRecords<SName, SData> = match assembly {
            "from" => SortedRecords::from(lib.clone()),
            "extend2" => {
                let k = rng.below(lib.len() as u64 + 1) as usize;
                let mut s = SortedRecords::new();
                let mut b1 = lib[..k].to_vec();
                b1.push(lib[0].clone());
                s.extend(b1);
                let mut b2 = lib[k..].to_vec();
                b2.reverse();
                b2.push(lib[0].clone());
                b2.extend(lib[..k.min(3)].iter().cloned());
                s.extend(b2);
                s
            }
            _ => {
                let mut s = SortedRecords::new();
                for r in lib.iter().rev() {
                    let _ = s.insert(r.clone());
                }
                s.extend(lib.iter().take(4).cloned().collect::<Vec<_>>());
                s
            }
        };
        let sorted_j: Vec<Value> = sorted.iter().map(|r| json!({"n": jname(r.owner()), "t": r.rtype().to_int()})).collect();
        // a panic of the generators is an outcome (the trace
        // specification rejects it), never a crash of the recorder
        use std::panic::{catch_unwind, AssertUnwindSafe};
        // how the records reach the generators, how the configuration starts
        let route = *rng.pick(&["owner_rrs", "iter_new", "iter_refs"]);
        let ctor = if rng.chance(1, 2) { "default" } else { "new" };
        let nsec = match catch_unwind(AssertUnwindSafe(|| {
            let cfg = nsec_cfg(assume, ctor);
            drive(&sorted, route, |it| generate_nsecs(&apex_name, it, &cfg)).map_err(|e| format!("{e}"))
                .and_then(|out| nsec_obs(&out))
        })) {
            Ok(Ok((c, ttl, _))) => json!({"chain": c, "ttl": ttl}),
            Ok(Err(e)) => json!({"chain": [], "ttl": 0, "err": e}),
            Err(_) => json!({"chain": [], "ttl": 0, "err": "panic"}),
        };
        // the NSEC3 configuration through the public setters, in a random order
        let mut setters: Vec<String> = vec![];
        if !assume {
            setters.push("no_dnskey".into());
        }
        if optout != "none" {
            setters.push("opt_out".into());
        }
        if optout == "flagonly" {
            setters.push("no_exclude".into());
        }
        if ttlmode != "default" {
            setters.push(format!("ttl_{ttlmode}"));
        }
        for i in (1..setters.len()).rev() {
            setters.swap(i, rng.below(i as u64 + 1) as usize);
        }
        let ctor3 = if salt.is_empty() && iters == 0 { ctor } else { "new" };
        // the Flags octet handed to Nsec3param::new: any value (the
        // setters only ever add the Opt-Out bit)
        let flags0: u8 = if ctor3 == "default" || rng.chance(1, 3) { 0 } else { rng.below(256) as u8 };
        let n3 = match catch_unwind(AssertUnwindSafe(|| {
            let cfg = nsec3_cfg_flags(assume, optout, &salt, iters, Some(setters.clone()), ctor3, ttlv, flags0)?;
            let out = drive(&sorted, route, |it| generate_nsec3s(&apex_name, it, &cfg)).map_err(|e| format!("{e}"))?;
            n3_rows(&out.nsec3s, &out.nsec3param, &apex_name)
        })) {
            Ok(r) => r,
            Err(_) => Err("panic".to_string()),
        };
        // the workflow: extend the collection with the generated NSEC
        // records (twice), generate again
        let again = catch_unwind(AssertUnwindSafe(|| {
            let s2 = &mut sorted;
            for _ in 0..2 {
                let (_, recs) = nsec_on(s2, &apex_name)?;
                s2.extend(recs);
            }
            let cfg = if assume { GenerateNsecConfig::new() } else { GenerateNsecConfig::new().without_assuming_dnskeys_will_be_added() };
            let out = generate_nsecs(&apex_name, s2.owner_rrs(), &cfg).map_err(|e| format!("{e}"))?;
            let chain: Vec<Value> = out.iter().map(|r| json!({"owner": jname_lower(r.owner()),
                "next": jname_lower(r.data().next_name()), "types": types_of(r.data().types())})).collect();
            Ok::<(Value, Value), String>((Value::Array(chain), coll_json(s2)))
        }));
        let (nsec_again, recs2, again_err) = match again {
            Ok(Ok((c, r))) => (c, r, false),
            _ => (json!([]), json!([]), true),
        };
        // a record (not the SOA) is taken out again, selected by its
        // lower-cased owner, class IN and type, after the generated NSEC
        // records were stripped owner by owner; the chain is generated afresh
        let pool: Vec<&(Vec<Vec<u8>>, u16)> = recs.iter().filter(|(_, t)| *t != 6).collect();
        let victim = pool[rng.below(pool.len() as u64) as usize].clone();
        let after = catch_unwind(AssertUnwindSafe(|| {
            let s3 = &mut sorted;
            let owners: Vec<SName> = s3.owner_rrs().map(|o| o.owner().clone()).collect();
            for o in owners {
                s3.remove_all_by_name_class_rtype(&o, None, Some(Rtype::NSEC));
            }
            let found = s3.remove_first_by_name_class_rtype(&name_of(&jl(&lower_labels(&victim.0))),
                                                            Some(Class::IN), Some(rtype(victim.1)));
            let cfg = nsec_cfg(assume, "new");
            let out = generate_nsecs(&apex_name, s3.owner_rrs(), &cfg).map_err(|e| format!("{e}"))?;
            Ok::<(Value, Value, bool, usize), String>((nsec_obs(&out)?.0, coll_json(s3), found, s3.len()))
        }));
        let (nsec_rm, recs3, rm_found, rm_len, rm_err) = match after {
            Ok(Ok((c, r, f, l))) => (c, r, f, l, false),
            _ => (json!([]), json!([]), false, 0, true),
        };
        // candidate names: owners and all their ancestors down to the apex
        let mut cands = std::collections::BTreeSet::new();
        for (n, _) in &recs {
            let l = lower_labels(n);
            for k in 0..l.len() {
                cands.insert(l[k..].to_vec());
            }
        }
        let mut hashed: Vec<(Vec<u8>, Vec<Vec<u8>>)> =
            cands.iter().map(|n| (indep_hash(&wire(n), &salt, iters), n.clone())).collect();
        hashed.sort();
        let ranks: Vec<Value> = hashed.iter().enumerate().map(|(i, (_, n))| json!({"n": jl(n), "r": i + 1})).collect();
        let lookup = |h: &[u8]| -> Value {
            match hashed.iter().find(|(x, _)| x == h) {
                Some((_, n)) => jl(n),
                None => json!([[63]]),
            }
        };
        let n3j = match &n3 {
            Ok(o) => json!({"chain": o.recs.iter().map(|r| json!({"owner": lookup(&r.0), "next": lookup(&r.1), "types": r.2})).collect::<Vec<_>>(),
                            "flags": o.recs.iter().map(|r| r.3).max().unwrap_or(0),
                            "flagsmin": o.recs.iter().map(|r| r.3).min().unwrap_or(0),
                            "opt_all": o.optbits.iter().all(|b| *b), "opt_any": o.optbits.iter().any(|b| *b),
                            "pflags": o.param.0, "popt": o.param_opt,
                            "ttl": o.recs.first().map(|r| r.6).unwrap_or(0),
                            "paramttl": o.param_ttl,
                            // every NSEC3 RR and the NSEC3PARAM RR (at the apex, class IN)
                            // carry the configured iterations and salt
                            "params_ok": o.recs.iter().all(|r| r.4 == iters && r.5 == salt) && o.ord_ok && o.apex_ok
                                && o.param.1 == iters && o.param.2 == salt && o.param.3 && o.param.4 == 1}),
            Err(e) => json!({"chain": [], "flags": 0, "flagsmin": 0, "opt_all": false, "opt_any": true, "pflags": 999, "popt": false, "ttl": 0, "paramttl": 0, "params_ok": false, "err": e}),
        };
        // probes: absent and present names with a few types
        let mut probes = vec![];
        for _ in 0..30 {
            let base = names[rng.below(names.len() as u64) as usize].clone();
            let mut q = lower_labels(&base);
            match rng.below(4) {
                0 => q.insert(0, b"q".to_vec()),
                1 => q.insert(0, b"*".to_vec()),
                2 if q.len() > apex.len() => { q[0] = b"qq".to_vec(); }
                _ => {}
            }
            probes.push(json!({"q": jl(&q), "t": *rng.pick(&[1u16, 2, 16, 43, 99])}));
        }
        w.event(json!({"ev": "zone", "apex": jl(&apex), "recs": sorted_j, "assume": assume,
                       "flags0": flags0, "n3opt_all": n3j["opt_all"], "n3opt_any": n3j["opt_any"],
                       "pflags": n3j["pflags"], "popt": n3j["popt"],
                       "soattl": std::cmp::min(soa_ttl, soa_min),
                       "assembly": assembly, "setters": setters, "route": route, "ctor": ctor,
                       "soa": {"ttl": soa_ttl, "min": soa_min}, "salt": jbytes(&salt), "iters": iters,
                       "ttlmode": {"m": if ttlmode == "default" { "soa" } else { ttlmode },
                                   "v": if ttlmode == "fixed" { ttlv } else { 0 }},
                       "paramttl": n3j["paramttl"], "params_ok": n3j["params_ok"],
                       "removed": {"n": jl(&lower_labels(&victim.0)), "t": victim.1}, "rm_found": rm_found,
                       "rm_len": rm_len, "rm_err": rm_err, "recs3": recs3, "nsec_rm": nsec_rm,
                       "nsec_again": nsec_again, "recs2": recs2, "again_err": again_err,
                       "nsec": nsec["chain"], "nsecttl": nsec["ttl"], "nsecerr": nsec.get("err").is_some(),
                       "nsec3": n3j["chain"], "n3flags": n3j["flags"], "n3flagsmin": n3j["flagsmin"],
                       "n3ttl": n3j["ttl"], "n3err": n3j.get("err").is_some(),
                       "ranks": ranks, "probes": probes}));
        z += 1;
    }
    w.finish();
}
