//! C01, MsgPair.tla: every public read-side operation that takes a SECOND
//! message (or a builder started for one), performed on a pair of arbitrary
//! octet strings.  `pair_projection(a, b)` is the implementation side of the
//! spec's `PairProj(a, b)`: one component per operation, both orders of every
//! ordered operation, each component observed on its own (a panic is the
//! observation `{"panic": true}` of that component) and by every octets
//! route the library offers (`Message<&[u8]>`, `Message<Vec<u8>>`,
//! `&Message<[u8]>`, `Message<Bytes>`); a route that disagrees with the first
//! one shows as `{"routes_differ": ..}`.
use bytes::Bytes;
use domain::base::iana::Rcode;
use domain::base::name::ParsedName;
use domain::base::rdata::UnknownRecordData;
use domain::base::{Message, MessageBuilder, Question, StaticCompressor, TreeCompressor};
use domain::net::client::request::{ComposeRequest, ComposeRequestMulti, RequestMessage, RequestMessageMulti};
use domain::net::xfr::protocol::XfrResponseInterpreter;
use serde_json::{json, Map, Value};
use std::panic::{catch_unwind, AssertUnwindSafe};
use verif_harness::common::*;

fn labels(n: &ParsedName<&[u8]>) -> Value {
    Value::Array(n.iter().filter(|l| !l.is_root()).map(|l| json_bytes(l.as_slice())).collect())
}

fn q_json(q: &Question<ParsedName<&[u8]>>) -> Value {
    json!([labels(q.qname()), q.qtype().to_int(), q.qclass().to_int()])
}

fn tri(b: bool) -> i64 {
    if b {
        1
    } else {
        0
    }
}

/// one value by several routes: the first is reported unless one differs
fn agree(vs: Vec<Value>) -> Value {
    if vs.iter().all(|v| *v == vs[0]) {
        vs[0].clone()
    } else {
        json!({ "routes_differ": vs })
    }
}

/// Message::is_answer(resp, req) by every combination of octets types, twice
fn is_answer_routes(resp: &[u8], req: &[u8]) -> Value {
    let r1 = Message::from_octets(resp).unwrap();
    let q1 = Message::from_octets(req).unwrap();
    let r2 = Message::from_octets(resp.to_vec()).unwrap();
    let q2 = Message::from_octets(req.to_vec()).unwrap();
    let r3 = Message::from_octets(Bytes::copy_from_slice(resp)).unwrap();
    let q3 = Message::from_octets(Bytes::copy_from_slice(req)).unwrap();
    let mut vs = vec![];
    for _ in 0..2 {
        vs.push(json!(r1.is_answer(&q1)));
        vs.push(json!(r1.is_answer(&q2)));
        vs.push(json!(r2.is_answer(&q1)));
        vs.push(json!(r2.is_answer(q1.for_slice())));
        vs.push(json!(r2.for_slice().is_answer(q2.for_slice())));
        vs.push(json!(r3.is_answer(&q3)));
        vs.push(json!(r3.for_slice_ref().is_answer(&q3.for_slice_ref())));
        vs.push(json!(r1.is_answer(&q3)));
        vs.push(json!(Message::from_slice(resp).unwrap().is_answer(Message::from_slice(req).unwrap())));
    }
    agree(vs)
}

fn qsec_eq(a: &[u8], b: &[u8]) -> Value {
    let a1 = Message::from_octets(a).unwrap();
    let b1 = Message::from_octets(b).unwrap();
    let a2 = Message::from_octets(a.to_vec()).unwrap();
    let b3 = Message::from_octets(Bytes::copy_from_slice(b)).unwrap();
    agree(vec![
        json!(a1.question() == b1.question()),
        json!(b1.question() == a1.question()),
        json!(a2.question() == b3.question()),
        json!(b3.question() == a2.for_slice().question()),
        json!(a1.question() == b1.question()),
    ])
}

/// first_question() / sole_question() of the two messages compared:
/// -1 one of them has none, 0 different, 1 the same
fn first_sole(a: &[u8], b: &[u8], sole: bool) -> Value {
    let a1 = Message::from_octets(a).unwrap();
    let b1 = Message::from_octets(b).unwrap();
    let a2 = Message::from_octets(a.to_vec()).unwrap();
    let b2 = Message::from_octets(Bytes::copy_from_slice(b)).unwrap();
    let one = |x: Option<Question<ParsedName<&[u8]>>>, y: Option<Question<ParsedName<&[u8]>>>| match (x, y) {
        (Some(x), Some(y)) => {
            let e = x == y;
            assert_eq!(e, y == x, "question comparison is not symmetric");
            // the parts compared by hand (qname ignoring case, type, class)
            let by_parts = x.qname() == y.qname() && x.qtype() == y.qtype() && x.qclass() == y.qclass();
            assert_eq!(e, by_parts, "Question == differs from comparing its parts");
            tri(e)
        }
        _ => -1,
    };
    let (sa, sb) = (a2.for_slice_ref(), b2.for_slice_ref());
    if sole {
        agree(vec![
            json!(one(a1.sole_question().ok(), b1.sole_question().ok())),
            json!(one(sa.sole_question().ok(), sb.sole_question().ok())),
        ])
    } else {
        agree(vec![
            json!(one(a1.first_question(), b1.first_question())),
            json!(one(sa.first_question(), sb.first_question())),
        ])
    }
}

/// RequestMessage::new(a)?.is_answer(b): -1 refused, 0 / 1
fn req_ans(a: &[u8], b: &[u8]) -> Value {
    let bm = Message::from_octets(b.to_vec()).unwrap();
    let by_vec = match RequestMessage::new(Message::from_octets(a.to_vec()).unwrap()) {
        Err(_) => -1,
        Ok(r) => {
            let v = r.is_answer(bm.for_slice());
            assert_eq!(v, r.is_answer(bm.for_slice()), "not the same twice");
            tri(v)
        }
    };
    let by_bytes = match RequestMessage::new(Message::from_octets(Bytes::copy_from_slice(a)).unwrap()) {
        Err(_) => -1,
        Ok(r) => tri(r.is_answer(bm.for_slice())),
    };
    agree(vec![json!(by_vec), json!(by_bytes)])
}

fn reqm_ans(a: &[u8], b: &[u8]) -> Value {
    let bm = Message::from_octets(b.to_vec()).unwrap();
    let by_vec = match RequestMessageMulti::new(Message::from_octets(a.to_vec()).unwrap()) {
        Err(_) => -1,
        Ok(r) => {
            let v = r.is_answer(bm.for_slice());
            assert_eq!(v, r.is_answer(bm.for_slice()), "not the same twice");
            tri(v)
        }
    };
    let by_bytes = match RequestMessageMulti::new(Message::from_octets(Bytes::copy_from_slice(a)).unwrap()) {
        Err(_) => -1,
        Ok(r) => tri(r.is_answer(bm.for_slice())),
    };
    agree(vec![json!(by_vec), json!(by_bytes)])
}

/// what is read back from a started reply, held against `other`
fn read_started(built: &[u8], other: &Message<&[u8]>) -> Value {
    let m = Message::from_octets(built).unwrap();
    let h = m.header();
    let mut items = vec![];
    for q in m.question() {
        match q {
            Ok(q) => items.push(q_json(&q)),
            Err(_) => {
                items.push(json!("unreadable"));
                break;
            }
        }
    }
    json!({
        "hdr": [h.id(), h.opcode().to_int(), tri(h.rd()), h.rcode().to_int(), m.header_counts().qdcount()],
        "items": items,
        "answers": m.is_answer(other),
    })
}

/// MessageBuilder::start_answer / start_error for the (hostile) message m
/// by four targets; the reply held against `other`
fn started_for(m: &[u8], rcode: Rcode, other: &[u8]) -> Value {
    let src = Message::from_octets(m).unwrap();
    let src_vec = Message::from_octets(m.to_vec()).unwrap();
    let oth = Message::from_octets(other).unwrap();
    let mut vs = vec![];
    match MessageBuilder::new_vec().start_answer(&src, rcode) {
        Ok(b) => vs.push(read_started(b.as_slice(), &oth)),
        Err(_) => vs.push(json!("push error")),
    }
    vs.push(read_started(MessageBuilder::new_vec().start_error(&src, rcode).as_slice(), &oth));
    match MessageBuilder::new_bytes().start_answer(src_vec.for_slice(), rcode) {
        Ok(b) => vs.push(read_started(b.as_slice(), &oth)),
        Err(_) => vs.push(json!("push error")),
    }
    // compressing targets: a name may be replaced by a pointer to an
    // earlier name that differs in letter case only, so the questions read
    // back are compared ignoring case
    let mut cs = vec![];
    match MessageBuilder::from_target(StaticCompressor::new(Vec::new())).unwrap().start_answer(&src, rcode) {
        Ok(b) => cs.push(read_started(b.as_slice(), &oth)),
        Err(_) => cs.push(json!("push error")),
    }
    cs.push(read_started(
        MessageBuilder::from_target(TreeCompressor::new(Vec::new())).unwrap().start_error(&src_vec, rcode).as_slice(),
        &oth,
    ));
    let plain = agree(vs);
    let folded = fold_case(&plain);
    for c in cs {
        if fold_case(&c) != folded {
            return json!({ "routes_differ": [plain, c] });
        }
    }
    plain
}

/// the labels of the questions of a started reply in lower case
fn fold_case(v: &Value) -> Value {
    let mut v = v.clone();
    if let Some(items) = v.get_mut("items").and_then(|i| i.as_array_mut()) {
        for it in items {
            if let Some(labels) = it.get_mut(0).and_then(|l| l.as_array_mut()) {
                for l in labels {
                    if let Some(os) = l.as_array_mut() {
                        for o in os {
                            if let Some(x) = o.as_u64() {
                                if (65..=90).contains(&x) {
                                    *o = json!(x + 32);
                                }
                            }
                        }
                    }
                }
            }
        }
    }
    v
}

type OwnedRecord = domain::base::Record<domain::base::Name<Vec<u8>>, UnknownRecordData<Vec<u8>>>;

/// the closure of copy_records that keeps every record as it is
fn keep_record(rr: domain::base::ParsedRecord<'_, &[u8]>) -> Option<OwnedRecord> {
    use domain::base::name::ToName;
    let r = rr.to_record::<UnknownRecordData<_>>().ok().flatten();
    assert!(r.is_some(), "a record that the section handed out cannot be read as raw RDATA");
    let r = r?;
    let data = UnknownRecordData::from_octets(r.rtype(), r.data().data().to_vec()).ok()?;
    Some(domain::base::Record::new(r.owner().to_name::<Vec<u8>>(), r.class(), r.ttl(), data))
}

/// src.copy_records(start_answer(dst)): <<0>> if refused, else
/// <<1, id, qdcount, ancount, nscount, arcount>> read back from the result
fn copy_into(src: &[u8], dst: &[u8]) -> Value {
    let s = Message::from_octets(src).unwrap();
    let d = Message::from_octets(dst).unwrap();
    let run = |compress: bool| -> Value {
        let op = keep_record;
        let out: Vec<u8> = if compress {
            let t = MessageBuilder::from_target(StaticCompressor::new(Vec::new())).unwrap().start_error(&d, Rcode::NOERROR);
            match s.copy_records(t, op) {
                Ok(b) => b.finish().into_target(),
                Err(_) => return json!([0]),
            }
        } else {
            let t = MessageBuilder::new_vec().start_error(&d, Rcode::NOERROR);
            match s.copy_records(t, op) {
                Ok(b) => b.finish(),
                Err(_) => return json!([0]),
            }
        };
        let m = Message::from_octets(&out[..]).unwrap();
        let c = m.header_counts();
        // what the counts promise can be read back
        let walked: Vec<usize> = match m.sections() {
            Ok((_, an, ns, ar)) => vec![
                an.filter(|r| r.is_ok()).count(),
                ns.filter(|r| r.is_ok()).count(),
                ar.filter(|r| r.is_ok()).count(),
            ],
            Err(_) => vec![usize::MAX; 3],
        };
        if walked != vec![c.ancount() as usize, c.nscount() as usize, c.arcount() as usize] {
            return json!({"copied_counts": [c.ancount(), c.nscount(), c.arcount()], "readable": walked});
        }
        json!([1, m.header().id(), c.qdcount(), c.ancount(), c.nscount(), c.arcount()])
    };
    agree(vec![run(false), run(true)])
}

fn xfr_seq(a: &[u8], b: &[u8]) -> Value {
    match catch_unwind(AssertUnwindSafe(|| {
        let mut it = XfrResponseInterpreter::new();
        for m in [a, b] {
            let resp = Message::from_octets(Bytes::copy_from_slice(m)).unwrap();
            if let Ok(iter) = it.interpret_response(resp) {
                for x in iter.take(100_000) {
                    let _ = x;
                }
            }
        }
    })) {
        Ok(()) => json!("nopanic"),
        Err(_) => json!("panic"),
    }
}

/// the spec's PairProj(a, b)
pub fn pair_projection(a: &[u8], b: &[u8]) -> Value {
    if a.len() < 12 || b.len() < 12 {
        // a constructor that refuses is the whole observation
        let sa = Message::from_octets(a).is_err();
        let sb = Message::from_octets(b).is_err();
        return json!({"short": [sa, sb]});
    }
    let mut o = Map::new();
    o.insert("short".into(), json!([false, false]));
    let two = |f: &dyn Fn(&[u8], &[u8]) -> Value| -> Value {
        let x = observe(|| f(a, b));
        let y = observe(|| f(b, a));
        json!([x, y])
    };
    o.insert("ans".into(), two(&is_answer_routes));
    o.insert("qeq".into(), observe(|| qsec_eq(a, b)));
    o.insert("first".into(), observe(|| first_sole(a, b, false)));
    o.insert("sole".into(), observe(|| first_sole(a, b, true)));
    o.insert("req".into(), two(&req_ans));
    o.insert("reqm".into(), two(&reqm_ans));
    o.insert(
        "start".into(),
        json!([
            observe(|| started_for(a, Rcode::NXDOMAIN, a)),
            observe(|| started_for(b, Rcode::FORMERR, b))
        ]),
    );
    // the reply started for the second message, held against the first
    o.insert(
        "cross".into(),
        two(&|x: &[u8], y: &[u8]| started_for(y, Rcode::NOERROR, x)["answers"].clone()),
    );
    o.insert("copy".into(), two(&copy_into));
    o.insert("xfrseq".into(), xfr_seq(a, b));
    Value::Object(o)
}

/// twice: the same pair yields the same observation
pub fn pair_projection_twice(a: &[u8], b: &[u8]) -> Value {
    let v = pair_projection(a, b);
    let w = pair_projection(a, b);
    if v != w {
        return json!({"not_repeatable": [v, w]});
    }
    v
}

/// For the recorder: an observation that is not a value of the projection's
/// shape (a panic, a hang, routes that disagree, a started reply that cannot
/// be read back) is logged as `{"anomaly": component, "obs": ..}` so that the
/// trace specification rejects the event by its shape.
pub fn lift_anomalies(v: Value) -> Value {
    fn odd(v: &Value) -> bool {
        match v {
            Value::Object(o) => {
                ["panic", "hang", "routes_differ", "copied_counts", "not_repeatable", "not_executed_after_hangs"]
                    .iter()
                    .any(|k| o.contains_key(*k))
                    || o.values().any(odd)
            }
            Value::Array(a) => a.iter().any(odd),
            Value::String(s) => s == "unreadable" || s == "push error",
            _ => false,
        }
    }
    let comp = match v.as_object() {
        Some(o) => {
            if ["panic", "hang", "not_repeatable", "not_executed_after_hangs"].iter().any(|k| o.contains_key(*k)) {
                Some("<whole>".to_string())
            } else {
                o.iter().find(|(k, x)| *k != "xfrseq" && odd(x)).map(|(k, _)| k.clone())
            }
        }
        None => Some("<whole>".to_string()),
    };
    match comp {
        Some(c) => json!({"anomaly": c, "obs": v}),
        None => v,
    }
}
