//! Shared code of the zonetree executors (replay_zone, record_zone):
//! the mapping between the vocabulary of spec/ZoneStore.tla and the real
//! `domain::zonetree` API, a `ZoneHarness` that performs the model's actions
//! on a real `Zone`, and the projection of `Answer` (through
//! `Answer::to_message`) to the model's answer record.
//!
//! Model vocabulary (JSON): a name is an array of labels (each an array of
//! octets), leftmost label first, relative to the apex `example.`; a record
//! is `[name, type, value]`; an answer is
//! `{"rcode","aa","ans":[rec..],"auth":[rec..],"add":[rec..]}` with sorted
//! record lists.
#![allow(dead_code)]

use bytes::Bytes;
use domain::base::iana::{Class, DigestAlgorithm, Rcode, Rtype, SecurityAlgorithm};
use domain::base::name::{Label, ToLabelIter};
use domain::base::{Message, MessageBuilder, Name, NameBuilder, Record, Serial, ToName, Ttl};
use domain::rdata::{Aaaa, Cname, Ds, Ns, Soa, Txt, ZoneRecordData, A};
use domain::zonetree::parsed::Zonefile;
use domain::zonetree::types::{StoredName, StoredRecord, ZoneCut, ZoneUpdate};
use domain::zonetree::update::ZoneUpdater;
use domain::zonetree::{
    Answer, AnswerContent, ReadableZone, Rrset, SharedRr, SharedRrset, WritableZone, WritableZoneNode, Zone,
    ZoneBuilder, ZoneTree,
};
use serde_json::{json, Value};
use std::collections::BTreeMap;
use std::str::FromStr;
use std::sync::{Arc, Mutex};

pub const APEX: &str = "example.";
pub const TTL: u32 = 3600;

pub type Data = ZoneRecordData<Bytes, StoredName>;

pub fn apex() -> StoredName {
    Name::from_str(APEX).unwrap()
}

/// model name -> absolute name below the apex
pub fn name_of(v: &Value) -> StoredName {
    let mut b = NameBuilder::new_bytes();
    if let Some(labels) = v.as_array() {
        for l in labels {
            let octs: Vec<u8> = l
                .as_array()
                .map(|a| a.iter().map(|x| x.as_u64().unwrap_or(0) as u8).collect())
                .unwrap_or_default();
            b.append_label(&octs).unwrap();
        }
    }
    b.append_origin(&apex()).unwrap()
}

/// absolute name as spelled by the model: an array of labels (root implicit)
pub fn abs_name(v: &Value) -> StoredName {
    let mut b = NameBuilder::new_bytes();
    if let Some(labels) = v.as_array() {
        for l in labels {
            let octs: Vec<u8> = l
                .as_array()
                .map(|a| a.iter().map(|x| x.as_u64().unwrap_or(0) as u8).collect())
                .unwrap_or_default();
            b.append_label(&octs).unwrap();
        }
    }
    b.into_name().unwrap()
}

/// the name an operation / query is performed with: the spelling the model
/// chose (`key`, absolute) if it gave one, else the canonical spelling of `n`
pub fn spelled(op: &Value, key: &str, n: &Value) -> StoredName {
    if op[key].is_array() {
        abs_name(&op[key])
    } else {
        name_of(n)
    }
}

/// absolute name -> model name (relative to the apex, lower case: the bindings
/// compare owner names case-insensitively, RFC 4343); names outside the
/// zone are rendered with a leading marker label so that they never compare
/// equal to a model name
pub fn model_name(n: &impl ToName) -> Value {
    let ap = apex();
    let full: Vec<&Label> = n.iter_labels().collect();
    let apl: Vec<&Label> = ap.iter_labels().collect();
    if full.len() >= apl.len() && full[full.len() - apl.len()..].iter().zip(apl.iter()).all(|(a, b)| a == b) {
        Value::Array(
            full[..full.len() - apl.len()]
                .iter()
                .map(|l| Value::Array(l.as_slice().iter().map(|o| json!(o.to_ascii_lowercase())).collect()))
                .collect(),
        )
    } else {
        json!([[33], format!("{}", n.to_name::<Bytes>())])
    }
}

/// NsTarget of MC_ZoneStore.tla
pub fn ns_target(x: u64) -> StoredName {
    Name::from_str(match x {
        1 => "a.a.example.",
        2 => "o.example.",
        _ => "b.example.",
    })
    .unwrap()
}

pub fn rtype_of(t: &str) -> Rtype {
    match t {
        "SOA" => Rtype::SOA,
        "NS" => Rtype::NS,
        "A" => Rtype::A,
        "AAAA" => Rtype::AAAA,
        "CNAME" => Rtype::CNAME,
        "DS" => Rtype::DS,
        "TXT" => Rtype::TXT,
        "ANY" => Rtype::ANY,
        _ => Rtype::NULL,
    }
}

pub fn data_of(t: &str, x: u64) -> Data {
    match t {
        "SOA" => ZoneRecordData::Soa(Soa::new(
            Name::from_str("mname.example.").unwrap(),
            Name::from_str("rname.example.").unwrap(),
            Serial(x as u32),
            Ttl::from_secs(10),
            Ttl::from_secs(10),
            Ttl::from_secs(10),
            Ttl::from_secs(10),
        )),
        "NS" => ZoneRecordData::Ns(Ns::new(ns_target(x))),
        "A" => ZoneRecordData::A(A::from_octets(192, 0, 2, x as u8)),
        "AAAA" => ZoneRecordData::Aaaa(Aaaa::new(std::net::Ipv6Addr::new(0x2001, 0xdb8, 0, 0, 0, 0, 0, x as u16))),
        "CNAME" => ZoneRecordData::Cname(Cname::new(
            Name::from_str(&format!("t{}.example.", x)).unwrap(),
        )),
        "DS" => ZoneRecordData::Ds(
            Ds::new(
                x as u16,
                SecurityAlgorithm::ED25519,
                DigestAlgorithm::SHA256,
                Bytes::from(vec![x as u8; 4]),
            )
            .unwrap(),
        ),
        _ => ZoneRecordData::Txt(Txt::build_from_slice(format!("t{}", x).as_bytes()).unwrap()),
    }
}

/// inverse of data_of; unknown data maps to type "?" so that it never matches
pub fn model_data<O: AsRef<[u8]>, N: ToName>(d: &ZoneRecordData<O, N>) -> (String, i64) {
    match d {
        ZoneRecordData::Soa(s) => ("SOA".into(), s.serial().into_int() as i64),
        ZoneRecordData::Ns(ns) => {
            let n: StoredName = ns.nsdname().to_name();
            for x in 1..=3u64 {
                if ns_target(x) == n {
                    return ("NS".into(), x as i64);
                }
            }
            ("NS".into(), -1)
        }
        ZoneRecordData::A(a) => ("A".into(), a.addr().octets()[3] as i64),
        ZoneRecordData::Aaaa(a) => ("AAAA".into(), a.addr().segments()[7] as i64),
        ZoneRecordData::Cname(c) => {
            let n: StoredName = c.cname().to_name();
            for x in 1..=3i64 {
                if Name::<Bytes>::from_str(&format!("t{}.example.", x)).unwrap() == n {
                    return ("CNAME".into(), x);
                }
            }
            ("CNAME".into(), -1)
        }
        ZoneRecordData::Ds(ds) => ("DS".into(), ds.key_tag() as i64),
        ZoneRecordData::Txt(t) => {
            let s: Vec<u8> = t.text::<Vec<u8>>();
            let x = std::str::from_utf8(&s).ok().and_then(|s| s[1..].parse::<i64>().ok()).unwrap_or(-1);
            ("TXT".into(), x)
        }
        _ => ("?".into(), -1),
    }
}

pub fn record_of(n: &Value, t: &str, x: u64) -> StoredRecord {
    Record::new(name_of(n), Class::IN, Ttl::from_secs(TTL), data_of(t, x))
}

pub fn record_at(owner: StoredName, class: Class, t: &str, x: u64) -> StoredRecord {
    Record::new(owner, class, Ttl::from_secs(TTL), data_of(t, x))
}

pub fn rrset_of(t: &str, xs: &[u64]) -> SharedRrset {
    let mut r = Rrset::new(rtype_of(t), Ttl::from_secs(TTL));
    for x in xs {
        r.push_data(data_of(t, *x));
    }
    SharedRrset::new(r)
}

pub fn u64s(v: &Value) -> Vec<u64> {
    v.as_array().map(|a| a.iter().filter_map(|x| x.as_u64()).collect()).unwrap_or_default()
}

fn sort_recs(mut v: Vec<Value>) -> Value {
    v.sort_by_key(|x| x.to_string());
    v.dedup();
    Value::Array(v)
}

/// Project an `Answer` through `Answer::to_message` (the anchored
/// observation point) to the model's answer record.
pub fn project(answer: &Answer, qname: &StoredName, qtype: Rtype) -> Value {
    let mut q = MessageBuilder::new_vec().question();
    q.push((qname, qtype)).unwrap();
    let query: Message<Vec<u8>> = q.into();
    let msg: Message<Bytes> = answer.to_message(&query, MessageBuilder::new_bytes()).into();
    let mut secs: Vec<Vec<Value>> = vec![vec![], vec![], vec![]];
    let sections = [msg.answer().unwrap(), msg.authority().unwrap(), msg.additional().unwrap()];
    for (i, sec) in sections.into_iter().enumerate() {
        for rec in sec.limit_to::<ZoneRecordData<_, _>>() {
            match rec {
                Ok(rec) => {
                    let (t, x) = model_data(rec.data());
                    let ttl_ok = rec.ttl() == Ttl::from_secs(TTL);
                    secs[i].push(json!([model_name(rec.owner()), if ttl_ok { t } else { format!("{}!ttl", t) }, x]));
                }
                Err(_) => secs[i].push(json!("unparsable")),
            }
        }
    }
    let rcode = match msg.header().rcode() {
        Rcode::NOERROR => "NOERROR".to_string(),
        Rcode::NXDOMAIN => "NXDOMAIN".to_string(),
        r => format!("{}", r),
    };
    let mut it = secs.into_iter();
    json!({
        "rcode": rcode,
        "aa": msg.header().aa(),
        "ans": sort_recs(it.next().unwrap()),
        "auth": sort_recs(it.next().unwrap()),
        "add": sort_recs(it.next().unwrap()),
    })
}

/// The same answer observed through the getters (`rcode()`, `content()`,
/// `AnswerContent::first()`, `authority()`): "for complete control use the getter
/// functions".  What the getters cannot give (AA, the authority and additional
/// records) is taken from the message view.
pub fn project_getters(answer: &Answer, qname: &StoredName, qtype: Rtype) -> Value {
    let mut v = project(answer, qname, qtype);
    let rec = |d: &Data, ttl: Ttl| {
        let (t, x) = model_data(d);
        json!([model_name(qname), if ttl == Ttl::from_secs(TTL) { t } else { format!("{}!ttl", t) }, x])
    };
    let mut ans: Vec<Value> = match answer.content() {
        AnswerContent::Data(rrset) => rrset.data().iter().map(|d| rec(d, rrset.ttl())).collect(),
        AnswerContent::Cname(rr) => vec![rec(rr.data(), rr.ttl())],
        AnswerContent::NoData => vec![],
    };
    match (answer.content().first(), ans.first()) {
        (None, None) => {}
        (Some((ttl, d)), Some(f)) if &rec(&d, ttl) == f => {}
        _ => ans.push(json!("first() is not the first record of content()")),
    }
    if answer.authority().is_some() != !v["auth"].as_array().map(|a| a.is_empty()).unwrap_or(true) {
        ans.push(json!("authority() disagrees with the authority section"));
    }
    v["ans"] = sort_recs(ans);
    v["rcode"] = json!(match answer.rcode() {
        Rcode::NOERROR => "NOERROR".to_string(),
        Rcode::NXDOMAIN => "NXDOMAIN".to_string(),
        r => format!("{}", r),
    });
    v
}

pub fn query(reader: &dyn ReadableZone, qn: &Value, qt: &str) -> Value {
    let name = name_of(qn);
    match reader.query(name.clone(), rtype_of(qt)) {
        Ok(a) => project(&a, &name, rtype_of(qt)),
        Err(_) => json!({"out_of_zone": true}),
    }
}

/// One query as the model put it: `c.sq` the spelled absolute name (else the
/// canonical `c.qn`), `c.ob` the observation route.
pub fn query_as(reader: &dyn ReadableZone, c: &Value) -> Value {
    let name = spelled(c, "sq", &c["qn"]);
    let qt = rtype_of(c["qt"].as_str().unwrap_or(""));
    match reader.query(name.clone(), qt) {
        Ok(a) if c["ob"] == "get" => project_getters(&a, &name, qt),
        Ok(a) => project(&a, &name, qt),
        Err(_) => json!({"out_of_zone": true}),
    }
}

/// The zones a server holds besides the zone under test (none of them encloses a
/// name the model asks for).
pub const DECOYS: [&str; 4] = ["org.", "sub.example.org.", "examples.", "example."];   // the last one of class CH

/// Query route "tree": the zone is found in a ZoneTree first (find_zone: longest
/// enclosing apex of the class; get_zone: exactly that apex); a name no zone
/// encloses is answered with Answer::refused().
pub fn query_via_tree(tree: &ZoneTree, c: &Value) -> Value {
    let name = spelled(c, "sq", &c["qn"]);
    let qt = rtype_of(c["qt"].as_str().unwrap_or(""));
    match tree.find_zone(&name, Class::IN) {
        None => project(&Answer::refused(), &name, qt),
        Some(zone) => {
            if zone.class() != Class::IN || zone.apex_name() != &apex() {
                return json!({"found_zone": format!("{}", zone.apex_name())});
            }
            if tree.get_zone(zone.apex_name(), zone.class()).is_none() {
                return json!({"get_zone": "does not find what find_zone found"});
            }
            query_as(zone.read().as_ref(), c)
        }
    }
}

pub fn tree_with(zone: &Zone) -> ZoneTree {
    let mut tree = ZoneTree::new();
    for (i, d) in DECOYS.iter().enumerate() {
        let b = ZoneBuilder::new(Name::from_str(d).unwrap(), if i == 3 { Class::CH } else { Class::IN });
        tree.insert_zone(b.build()).unwrap();
    }
    tree.insert_zone(zone.clone()).unwrap();
    tree
}

pub fn walk(reader: &dyn ReadableZone) -> Value {
    let out: Arc<Mutex<Vec<Value>>> = Arc::new(Mutex::new(vec![]));
    let o2 = out.clone();
    reader.walk(Box::new(move |owner: StoredName, rrset: &SharedRrset, _cut: bool| {
        let mut g = o2.lock().unwrap();
        for d in rrset.data() {
            let (t, x) = model_data(d);
            g.push(json!([model_name(&owner), t, x]));
        }
    }));
    let v = out.lock().unwrap().clone();
    sort_recs(v)
}

/// The zone a zone file with the given records builds
/// (parsed::Zonefile::insert -> ZoneBuilder::try_from -> build).
pub fn build_zone(recs: &[Value]) -> Result<Zone, String> {
    let mut zf = Zonefile::new(apex(), Class::IN);
    // the SOA comes first, as in a zone file
    let mut recs: Vec<&Value> = recs.iter().collect();
    recs.sort_by_key(|r| if r[1] == "SOA" { 0 } else { 1 });
    for r in recs {
        zf.insert(record_of(&r[0], r[1].as_str().unwrap_or(""), r[2].as_u64().unwrap_or(0)))
            .map_err(|e| format!("zonefile insert: {}", e))?;
    }
    let b = ZoneBuilder::try_from(zf).map_err(|_| "zone builder rejected the zone file".to_string())?;
    Ok(b.build())
}

/// A zone file object created by one of the routes the model names:
/// "new" Zonefile::new(apex, class); "soa" Zonefile::default() (apex and class
/// come from the SOA, the first record); "origin" Zonefile::new(<another name>)
/// followed by set_origin(apex).  The SOA goes in first, as in a zone file.
pub fn new_zonefile(route: &str, apex_sp: &StoredName) -> Result<Zonefile, String> {
    let mut zf = match route {
        "soa" => Zonefile::default(),
        "origin" => {
            let mut z = Zonefile::new(Name::from_str("elsewhere.test.").unwrap(), Class::IN);
            z.set_origin(apex_sp.clone());
            z
        }
        _ => Zonefile::new(apex_sp.clone(), Class::IN),
    };
    zf.insert(record_at(apex_sp.clone(), Class::IN, "SOA", 1)).map_err(|e| format!("zonefile insert (SOA): {}", e))?;
    if zf.origin() != Some(apex_sp) || zf.class() != Some(Class::IN) {
        return Err("zone file origin()/class() are not what the zone was created with".into());
    }
    Ok(zf)
}

/// presentation format of the records (owners spelled `apex_sp`-relative as given)
pub fn zone_text(recs: &[(StoredName, String, u64)]) -> String {
    let mut out = String::new();
    for (owner, t, x) in recs {
        out.push_str(&format!("{} {} IN {} {}\n", owner.fmt_with_dot(), TTL, rtype_of(t), data_of(t, *x)));
    }
    out
}

/// Build route "text": presentation format -> inplace::Zonefile -> Zone::try_from
pub fn build_from_text(text: &str) -> Result<Zone, String> {
    let reader = domain::zonefile::inplace::Zonefile::load(&mut text.as_bytes()).map_err(|e| format!("load: {}", e))?;
    Zone::try_from(reader).map_err(|_| format!("Zone::try_from rejected the zone file:\n{}", text))
}

/// Build route "builder": ZoneBuilder::new and the insert_* functions with the
/// classification the model made (cuts with their glue, CNAMEs, plain RRsets)
pub fn build_from_parts(apex_sp: &StoredName, parts: &Value, sp: &dyn Fn(&Value) -> StoredName) -> Result<Zone, String> {
    let mut b = ZoneBuilder::new(apex_sp.clone(), Class::IN);
    for c in parts["cuts"].as_array().cloned().unwrap_or_default() {
        let ds = u64s(&c["ds"]);
        let glue: Vec<StoredRecord> = c["glue"]
            .as_array()
            .map(|g| g.iter().map(|r| record_at(sp(&r[0]), Class::IN, r[1].as_str().unwrap_or("A"), r[2].as_u64().unwrap_or(0))).collect())
            .unwrap_or_default();
        b.insert_zone_cut(&sp(&c["n"]), rrset_of("NS", &u64s(&c["ns"])), if ds.is_empty() { None } else { Some(rrset_of("DS", &ds)) }, glue)
            .map_err(|e| format!("insert_zone_cut: {:?}", e))?;
    }
    for c in parts["cnames"].as_array().cloned().unwrap_or_default() {
        b.insert_cname(&sp(&c["n"]), SharedRr::new(Ttl::from_secs(TTL), data_of("CNAME", c["x"].as_u64().unwrap_or(0))))
            .map_err(|e| format!("insert_cname: {:?}", e))?;
    }
    for r in parts["plain"].as_array().cloned().unwrap_or_default() {
        b.insert_rrset(&sp(&r["n"]), rrset_of(r["t"].as_str().unwrap_or(""), &u64s(&r["xs"])))
            .map_err(|_| "insert_rrset: out of zone".to_string())?;
    }
    Ok(Zone::from(b))
}

pub enum Session {
    /// a user of the write interface: WritableZone + the open root node
    W { wz: Box<dyn WritableZone>, root: Option<Box<dyn WritableZoneNode>> },
    /// a ZoneUpdater (owns lock, root node and re-opens after each commit)
    U { up: ZoneUpdater<StoredName> },
}

pub struct ZoneHarness {
    pub rt: tokio::runtime::Runtime,
    pub zone: Option<Zone>,
    pub zf: Vec<Value>,
    /// the zone in a ZoneTree among other zones (query route "tree")
    pub tree: Option<ZoneTree>,
    /// the live zone file object (build routes of the model) and the records it holds
    pub zfile: Option<Zonefile>,
    pub zfile_has: Vec<Value>,
    /// the owners as they were spelled when inserted
    pub zf_spelled: Vec<(StoredName, String, u64)>,
    pub writers: BTreeMap<String, Session>,
    pub readers: BTreeMap<String, Box<dyn ReadableZone>>,
}

fn soa_rec(x: u64) -> StoredRecord {
    Record::new(apex(), Class::IN, Ttl::from_secs(TTL), data_of("SOA", x))
}

impl ZoneHarness {
    pub fn new() -> Self {
        ZoneHarness {
            rt: tokio::runtime::Builder::new_current_thread().enable_all().build().unwrap(),
            zone: None,
            zf: vec![json!([[], "SOA", 1])],
            tree: None,
            zfile: None,
            zfile_has: vec![],
            zf_spelled: vec![],
            writers: BTreeMap::new(),
            readers: BTreeMap::new(),
        }
    }

    pub fn from_zone(zone: Zone) -> Self {
        let mut h = Self::new();
        h.tree = Some(tree_with(&zone));
        h.zone = Some(zone);
        h
    }

    pub fn zone(&self) -> &Zone {
        self.zone.as_ref().expect("zone built")
    }

    /// node for the model name `n` below the session's root, creating
    /// missing nodes exactly like a user descending with update_child
    fn descend(rt: &tokio::runtime::Runtime, root: &Box<dyn WritableZoneNode>, name: &StoredName) -> Option<Box<dyn WritableZoneNode>> {
        let ap = apex();
        let labels: Vec<&Label> = name.iter_labels().collect();
        let k = labels.len() - ap.iter_labels().count();
        let mut node: Option<Box<dyn WritableZoneNode>> = None;
        for l in labels[..k].iter().rev() {
            let next = match &node {
                None => rt.block_on(root.update_child(l)).unwrap(),
                Some(nd) => rt.block_on(nd.update_child(l)).unwrap(),
            };
            node = Some(next);
        }
        node
    }

    /// the spelling of the apex the model created the zone with
    fn apex_sp(op: &Value) -> StoredName {
        if op["apx"].is_array() { abs_name(&op["apx"]) } else { apex() }
    }

    fn ensure_zfile(&mut self, op: &Value) -> Result<(), String> {
        if self.zfile.is_none() {
            let route = op["br"].as_str().unwrap_or("new");
            let live = if matches!(route, "soa" | "origin") { route } else { "new" };
            let ap = Self::apex_sp(op);
            self.zfile = Some(new_zonefile(live, &ap)?);
            self.zfile_has = vec![json!([[], "SOA", 1])];
            self.zf_spelled = vec![(ap, "SOA".to_string(), 1)];
        }
        Ok(())
    }

    /// records the model's zone file holds from the start (directed generators)
    fn sync_zfile(&mut self, ap: &StoredName) -> Result<(), String> {
        let todo: Vec<Value> = self.zf.iter().filter(|r| !self.zfile_has.contains(r)).cloned().collect();
        for r in todo {
            let mut b = NameBuilder::new_bytes();
            for l in name_of(&r[0]).iter_labels().take(r[0].as_array().map(|a| a.len()).unwrap_or(0)) {
                b.append_label(l.as_slice()).unwrap();
            }
            let owner: StoredName = b.append_origin(ap).unwrap();
            let (t, x) = (r[1].as_str().unwrap_or("").to_string(), r[2].as_u64().unwrap_or(0));
            self.zfile.as_mut().unwrap().insert(record_at(owner.clone(), Class::IN, &t, x)).map_err(|e| format!("zonefile insert: {}", e))?;
            self.zfile_has.push(r.clone());
            self.zf_spelled.push((owner, t, x));
        }
        Ok(())
    }

    /// "Build" by the route the model names (see Gen_ZoneStore.tla)
    fn build_routed(&mut self, op: &Value) -> Result<Zone, String> {
        self.ensure_zfile(op)?;
        let ap = Self::apex_sp(op);
        self.sync_zfile(&ap)?;
        match op["br"].as_str().unwrap_or("new") {
            "text" => build_from_text(&zone_text(&self.zf_spelled)),
            "builder" => {
                let sp = |n: &Value| -> StoredName {
                    let mut b = NameBuilder::new_bytes();
                    for l in name_of(n).iter_labels().take(n.as_array().map(|a| a.len()).unwrap_or(0)) {
                        b.append_label(l.as_slice()).unwrap();
                    }
                    b.append_origin(&ap).unwrap()
                };
                build_from_parts(&ap, &op["parts"], &sp)
            }
            _ => {
                let zf = self.zfile.take().unwrap();
                // TryFrom<parsed::Zonefile> for Zone (through ZoneBuilder::try_from)
                Zone::try_from(zf).map_err(|_| "Zone::try_from rejected the zone file".to_string())
            }
        }
    }

    /// Perform one model action.  Returns the observation the action makes
    /// (`null` for actions that observe nothing).
    pub fn apply(&mut self, op: &Value) -> Value {
        let a = op["a"].as_str().unwrap_or("");
        let w = op["w"].as_str().unwrap_or("").to_string();
        let r = op["r"].as_str().unwrap_or("").to_string();
        let t = op["t"].as_str().unwrap_or("");
        match a {
            "ZfInsert" | "ZfReject" => {
                let rec3 = json!([op["n"], op["t"], op["x"]]);
                if !op["br"].is_string() {
                    // recorder-style event without routes: collected, built at "Build"
                    if a == "ZfInsert" {
                        self.zf.push(rec3);
                    }
                    return Value::Null;
                }
                if let Err(e) = self.ensure_zfile(op) {
                    return json!({"build_error": e});
                }
                if let Some(z) = op["zf"].as_array() {
                    // the zone file the model holds at this point (directed generators
                    // start from a populated one)
                    self.zf = z.clone();
                    let ap = Self::apex_sp(op);
                    if let Err(e) = self.sync_zfile(&ap) {
                        return json!({"build_error": e});
                    }
                }
                let owner = spelled(op, "sn", &op["n"]);
                let class = if op["cls"] == "CH" { Class::CH } else { Class::IN };
                let res = self.zfile.as_mut().unwrap().insert(record_at(owner.clone(), class, t, op["x"].as_u64().unwrap_or(0)));
                match (a, res) {
                    ("ZfInsert", Ok(())) => {
                        self.zf.push(rec3.clone());
                        self.zfile_has.push(rec3);
                        self.zf_spelled.push((owner, t.to_string(), op["x"].as_u64().unwrap_or(0)));
                        Value::Null
                    }
                    ("ZfInsert", Err(e)) => json!({"zonefile_insert_error": e.to_string()}),
                    (_, Err(_)) => Value::Null, // rejected, as the model says
                    (_, Ok(())) => json!({"not_rejected": rec3}),
                }
            }
            "Build" => {
                // the generator's Build carries the whole zone file
                if let Some(z) = op["zf"].as_array() {
                    self.zf = z.clone();
                }
                let built = if op["br"].is_string() { self.build_routed(op) } else { build_zone(&self.zf) };
                match built {
                    Ok(z) => {
                        self.tree = Some(tree_with(&z));
                        self.zone = Some(z);
                        Value::Null
                    }
                    Err(e) => json!({"build_error": e}),
                }
            }
            "AcquireWriteLock" => {
                let zone = self.zone().clone();
                let s = if op["kind"] == "U" {
                    Session::U { up: self.rt.block_on(ZoneUpdater::new(zone)).unwrap() }
                } else {
                    Session::W { wz: self.rt.block_on(zone.write()), root: None }
                };
                self.writers.insert(w, s);
                Value::Null
            }
            "Open" => {
                if let Some(Session::W { wz, root }) = self.writers.get_mut(&w) {
                    // diff = open(true): the session also collects a zone diff
                    *root = Some(self.rt.block_on(wz.open(op["diff"] == true)).unwrap());
                }
                // a ZoneUpdater opened in new() and re-opens after each commit
                Value::Null
            }
            "CommitUpdateCurrent" => {
                match self.writers.get_mut(&w) {
                    Some(Session::W { wz, root }) => {
                        *root = None;
                        // bump = commit(true): automatic SOA serial bump
                        self.rt.block_on(wz.commit(op["bump"] == true)).unwrap();
                    }
                    Some(Session::U { up }) => {
                        // commits the batch and re-opens the zone
                        self.rt.block_on(up.apply(ZoneUpdate::BeginBatchDelete(soa_rec(1)))).unwrap();
                    }
                    None => {}
                }
                Value::Null
            }
            "CommitPushVersion" => Value::Null, // second half of the same commit() call
            "DropWriter" => {
                self.writers.remove(&w);
                Value::Null
            }
            "W_UpdateChild" => {
                if let Some(Session::W { root: Some(root), .. }) = self.writers.get(&w) {
                    let _ = Self::descend(&self.rt, root, &spelled(op, "sn", &op["n"]));
                }
                Value::Null
            }
            "W_UpdateRrset" | "W_RemoveRrset" | "W_RemoveAll" | "W_MakeRegular" | "W_MakeCname" | "W_MakeZoneCut" => {
                if let Some(Session::W { root: Some(root), .. }) = self.writers.get(&w) {
                    let child = Self::descend(&self.rt, root, &spelled(op, "sn", &op["n"]));
                    let node: &Box<dyn WritableZoneNode> = child.as_ref().unwrap_or(root);
                    let res = match a {
                        "W_UpdateRrset" => self.rt.block_on(node.update_rrset(rrset_of(t, &u64s(&op["xs"])))),
                        "W_RemoveRrset" => self.rt.block_on(node.remove_rrset(rtype_of(t))),
                        "W_RemoveAll" => self.rt.block_on(node.remove_all()),
                        "W_MakeRegular" => self.rt.block_on(node.make_regular()),
                        "W_MakeCname" => self.rt.block_on(node.make_cname(SharedRr::new(
                            Ttl::from_secs(TTL),
                            data_of("CNAME", op["x"].as_u64().unwrap_or(0)),
                        ))),
                        _ => {
                            let ds = u64s(&op["ds"]);
                            let glue: Vec<StoredRecord> = op["glue"]
                                .as_array()
                                .map(|g| g.iter().map(|r| record_of(&r[0], r[1].as_str().unwrap_or("A"), r[2].as_u64().unwrap_or(0))).collect())
                                .unwrap_or_default();
                            self.rt.block_on(node.make_zone_cut(ZoneCut {
                                name: spelled(op, "sn", &op["n"]),
                                ns: rrset_of("NS", &u64s(&op["ns"])),
                                ds: if ds.is_empty() { None } else { Some(rrset_of("DS", &ds)) },
                                glue,
                            }))
                        }
                    };
                    if let Err(e) = res {
                        return json!({"write_error": e.to_string()});
                    }
                }
                Value::Null
            }
            "U_AddRecord" | "U_DeleteRecord" | "U_DeleteAll" | "U_Soa" => {
                if let Some(Session::U { up }) = self.writers.get_mut(&w) {
                    let upd = match a {
                        "U_AddRecord" => ZoneUpdate::AddRecord(record_at(spelled(op, "sn", &op["n"]), Class::IN, t, op["x"].as_u64().unwrap_or(0))),
                        "U_DeleteRecord" => ZoneUpdate::DeleteRecord(record_at(spelled(op, "sn", &op["n"]), Class::IN, t, op["x"].as_u64().unwrap_or(0))),
                        "U_Soa" => ZoneUpdate::BeginBatchAdd(soa_rec(op["x"].as_u64().unwrap_or(0))),
                        _ => ZoneUpdate::DeleteAllRecords,
                    };
                    if let Err(e) = self.rt.block_on(up.apply(upd)) {
                        return json!({"update_error": format!("{:?}", e)});
                    }
                }
                Value::Null
            }
            "U_Finished" => {
                // ZoneUpdate::Finished(soa): update_soa + commit + close, one call;
                // the model sees it as U_Soa, CommitUpdateCurrent, CommitPushVersion, DropWriter
                if let Some(Session::U { mut up }) = self.writers.remove(&w) {
                    if let Err(e) = self.rt.block_on(up.apply(ZoneUpdate::Finished(soa_rec(op["x"].as_u64().unwrap_or(0))))) {
                        return json!({"update_error": format!("{:?}", e)});
                    }
                    if !up.is_finished() {
                        return json!({"update_error": "not finished"});
                    }
                }
                Value::Null
            }
            "ReaderAcquire" => {
                let rd = self.zone().read();
                self.readers.insert(r, rd);
                Value::Null
            }
            "ReaderRelease" => {
                self.readers.remove(&r);
                Value::Null
            }
            _ => Value::Null,
        }
    }

    pub fn reader_query(&self, r: &str, qn: &Value, qt: &str) -> Value {
        match self.readers.get(r) {
            Some(rd) => query(rd.as_ref(), qn, qt),
            None => json!({"no_reader": r}),
        }
    }

    pub fn reader_walk(&self, r: &str) -> Value {
        match self.readers.get(r) {
            Some(rd) => walk(rd.as_ref()),
            None => json!({"no_reader": r}),
        }
    }

    pub fn fresh_query(&self, qn: &Value, qt: &str) -> Value {
        let rd = self.zone().read();
        query(rd.as_ref(), qn, qt)
    }

    /// a fresh reader's answer to one query as the model put it (spelling, query
    /// route, observation route)
    pub fn fresh_query_as(&self, c: &Value) -> Value {
        if c["rt"] == "tree" {
            match &self.tree {
                Some(t) => query_via_tree(t, c),
                None => json!({"no_tree": true}),
            }
        } else {
            let rd = self.zone().read();
            query_as(rd.as_ref(), c)
        }
    }

    pub fn reader_query_as(&self, r: &str, c: &Value) -> Value {
        match self.readers.get(r) {
            Some(rd) => query_as(rd.as_ref(), c),
            None => json!({"no_reader": r}),
        }
    }

    pub fn fresh_walk(&self) -> Value {
        let rd = self.zone().read();
        walk(rd.as_ref())
    }
}
