"""C15 — client transports deliver each answer to its own request, exactly once
(spec/ClientStream.tla, spec/ClientDgram.tla, spec/ClientCompose.tla, spec/ClientMsg.tla)."""
import json
import os

import vlib

STREAM_ACTIONS = [
    "Submit", "DropHandles", "RecvReq", "WriteChunk", "ReaderFrame", "ReaderEnd",
    "ReaderDone", "Demux", "ResponseTimeout", "IdleTimeout", "AllSendersDropped",
    "Tick", "PeerReply", "WrongQuestion", "NotAResponse", "Duplicate", "WrongId",
    "Close",
]
STREAM_END_ACTIONS = ["WriteError", "Garbage", "CloseInFrame", "PeerStopsReading",
                      "PeerStalls", "PeerResumes"]
DGRAM_ACTIONS = [
    "Submit", "Deliver", "StartAttempt", "GiveUp", "Retry", "RecvAccept",
    "RecvDiscardOther", "RecvDiscardShort", "RecvError", "RecvLate", "DTick",
]
DEV = "D_stream_response_timeout_ignored"

META = {
    "category": "model_checking",
    "text": "TLC explores the stream transport (one action per select! arm of Transport::run, the slot table with ID = slot index, timers, an adversarial peer that may send any message of an alphabet at any time, end the stream or stop reading) and the datagram transport (attempts, random IDs, receive loop, retries) and checks OwnAnswer, AtMostOnce, NoCross, SlotTableSound, NothingLost, the timer/retry budget and completion (liveness under fairness of the task and the clock). Every transition of the explored macro-step state graphs is replayed into the real stream::Connection/Transport and dgram::Connection over in-memory sockets on a paused clock, comparing requests written and the outcome of every get_response() after every step; recorded runs with 50 concurrent requests against a seeded hostile peer are validated by TLC against the specification with the invariants evaluated at every step.",
    "note": "Trusted: TLC, the transcription in ClientStream.tla/ClientDgram.tla, the harness (in-memory sockets, interposed CLOCK_MONOTONIC so that std::time::Instant follows the paused tokio clock). Errors are compared as a class, not by value. ClientCompose.tla models multi_stream (connect phase, close, back-off, re-issue; completion no later than the response timeout after submission) and dgram_stream (TCP iff TC, the truncated answer is never delivered) over abstract stream connections; its macro-step graph is checked by TLC and replayed into the real multi_stream / dgram_stream over a mock connector. The redundant / load_balancer leg (upstream order and probe timer left open, burst limits exact) is model-checked and bound by validating recorded runs of the real balancers over scripted upstreams (0..3 upstreams, all result kinds, burst limits; a panicking request future is an observation no rule accepts). Zone transfers on the stream transport (SubmitMulti, check_stream transcribed, re-insert at the same ID) are modelled and bound (replay and recorded traces). The peer's question is a triple (name, type, class) varied one component at a time, plus letter case and QDCOUNT 0/2. Not covered: response-time estimation / fairness of the balancers, two multi_stream requests whose back-offs end in the same tick (order is random in the code), how many octets a stalled write has taken (stalled and short writes themselves are covered: a second request arriving while the first is half written), more than 65535/2 outstanding requests, real sockets/TLS. demux_reply restarts the response timer for every message, also for unknown IDs: bounded in the model (MaxFrames); see report. Open finding D_stream_response_timeout_ignored: the configured response timeout is never in force for ordinary requests (19 s default is used).",
    "technique": "TLA+ specs (ClientStream.tla, ClientDgram.tla) + TLC exhaustive (safety, liveness); spec->impl behaviour replay on a virtual clock; impl->spec trace validation",
    "design_ref": "DESIGN.md §4 C15",
}


def _head(src, dst, n):
    with open(src) as f, open(dst, "w") as g:
        for i, line in enumerate(f):
            if i >= n:
                break
            g.write(line)


def _stream_model(ctx, thorough):
    # macro-step semantics, all orders of environment steps
    mc = ctx.tlc("MC_ClientStream", "MC_ClientStream_thorough" if thorough else "MC_ClientStream",
                 workers=8, label="mc-stream-macro", timeout=3000, coverage=False)
    ctx.require_ok(mc, "MC_ClientStream (macro)")
    # fine-grained interleavings, named actions (vacuity guard)
    fine = ctx.tlc("MC_ClientStream",
                   "MC_ClientStream_fine_thorough" if thorough else "MC_ClientStream_fine",
                   workers=8, label="mc-stream-fine", timeout=3000)
    ctx.require_ok(fine, "MC_ClientStream (fine)")
    ctx.require_actions(fine, STREAM_ACTIONS)
    ends = ctx.tlc("MC_ClientStream", "MC_ClientStream_ends", workers=4, label="mc-stream-ends")
    ctx.require_ok(ends, "MC_ClientStream (ends)")
    ctx.require_actions(ends, STREAM_END_ACTIONS)
    # zone transfers (multi-response requests, check_stream) mixed with
    # single requests, idle timeout 0
    xfr = ctx.tlc("MC_ClientStream", "MC_ClientStream_xfr_thorough" if thorough else "MC_ClientStream_xfr",
                  workers=8, label="mc-stream-xfr", timeout=3000, coverage=False)
    ctx.require_ok(xfr, "MC_ClientStream (xfr)")
    xf = ctx.tlc("MC_ClientStream", "MC_ClientStream_xfrfine", workers=4, label="mc-stream-xfrfine")
    ctx.require_ok(xf, "MC_ClientStream (xfr, fine)")
    ctx.require_actions(xf, ["SubmitMulti", "Demux"])
    live = ctx.tlc("MC_ClientStream", "MC_ClientStream_live", workers=4, label="mc-stream-live",
                   coverage=False)
    ctx.require_ok(live, "MC_ClientStream (liveness: Completion)")
    # the deviation, documented: with it the timer bound is violated
    dev = ctx.tlc("MC_ClientStream", "MC_ClientStream_dev", workers=1, label="mc-stream-dev",
                  coverage=False, expect_violation="TimerArmed", count=False)
    if not dev.ok:
        raise vlib.ToolError("deviation model does not show the TimerArmed counterexample")
    ctx.exhaustive_flags.append(True)


def _dgram_model(ctx, thorough):
    mc = ctx.tlc("MC_ClientDgram", "MC_ClientDgram_thorough" if thorough else "MC_ClientDgram",
                 workers=8, label="mc-dgram")
    ctx.require_ok(mc, "MC_ClientDgram")
    ctx.require_actions(mc, DGRAM_ACTIONS)
    live = ctx.tlc("MC_ClientDgram", "MC_ClientDgram_live", workers=4, label="mc-dgram-live",
                   coverage=False)
    ctx.require_ok(live, "MC_ClientDgram (liveness: DCompletion)")
    ctx.exhaustive_flags.append(True)


def _replay(ctx, thorough):
    # stream: one case per transition of the abstracted macro graph
    cases = os.path.join(ctx.work, "stream-cases.ndjson")
    # workers=1: which concrete path represents an abstract state must not
    # depend on thread scheduling (reproducible case set)
    gen = ctx.tlc("Gen_ClientStream", "Gen_ClientStream_thorough" if thorough else "Gen_ClientStream",
                  workers=1, label="gen-stream", coverage=False, cases_to=cases, count=False,
                  timeout=3000)
    ctx.require_ok(gen, "Gen_ClientStream")
    if gen.ncases < 5000:
        raise vlib.ToolError("stream generator produced too few cases: %d" % gen.ncases)
    head = os.path.join(ctx.work, "head.ndjson")
    _head(cases, head, 40)
    rc, out, err, _ = ctx.run_bin("replay_client", ["--selftest-perturb"], stdin_path=head)
    ctx.selftest("perturbed expectation is reported by replay_client", "FAIL " in out)
    ctx.replay_cases("replay_client", cases, label="stream")
    # zone transfers: mixed single / multi-response requests
    xcases = os.path.join(ctx.work, "stream-xfr-cases.ndjson")
    xgen = ctx.tlc("Gen_ClientStream",
                   "Gen_ClientStream_xfr_thorough" if thorough else "Gen_ClientStream_xfr",
                   workers=1, label="gen-stream-xfr", coverage=False, cases_to=xcases, count=False,
                   timeout=3000)
    ctx.require_ok(xgen, "Gen_ClientStream (xfr)")
    if xgen.ncases < 5000:
        raise vlib.ToolError("xfr generator produced too few cases: %d" % xgen.ncases)
    ctx.replay_cases("replay_client", xcases, label="stream-xfr")
    if thorough:
        sim = os.path.join(ctx.work, "stream-sim.ndjson")
        g2 = ctx.tlc("Gen_ClientStream", "Gen_ClientStream_sim", workers=1, simulate=1500,
                     depth=14, label="gen-stream-sim", coverage=False, cases_to=sim, count=False)
        ctx.require_ok(g2, "Gen_ClientStream (simulation)")
        ctx.replay_cases("replay_client", sim, label="stream-sim")
    # dgram
    dcases = os.path.join(ctx.work, "dgram-cases.ndjson")
    dgen = ctx.tlc("Gen_ClientDgram", "Gen_ClientDgram_thorough" if thorough else "Gen_ClientDgram",
                   workers=1, label="gen-dgram", coverage=False, cases_to=dcases, count=False)
    ctx.require_ok(dgen, "Gen_ClientDgram")
    if dgen.ncases < 500:
        raise vlib.ToolError("dgram generator produced too few cases: %d" % dgen.ncases)
    ctx.replay_cases("replay_client", dcases, label="dgram")
    # dgram, every behaviour over one datagram per class (timing of junk
    # relative to the attempt's deadline matters, the state graph does not
    # remember it)
    pcases = os.path.join(ctx.work, "dgram-paths.ndjson")
    pgen = ctx.tlc("Gen_ClientDgram",
                   "Gen_ClientDgram_paths_thorough" if thorough else "Gen_ClientDgram_paths",
                   workers=1, label="gen-dgram-paths", coverage=False, cases_to=pcases, count=False)
    ctx.require_ok(pgen, "Gen_ClientDgram (paths)")
    if pgen.ncases < 500:
        raise vlib.ToolError("dgram path generator produced too few cases: %d" % pgen.ncases)
    ctx.replay_cases("replay_client", pcases, label="dgram-paths")


def _compose(ctx, thorough):
    """ClientCompose: TLC checks the invariants on the macro-step graph and
    emits the cases in the same run; the cases run on the real multi_stream /
    dgram_stream over a mock connector and mock datagram sockets."""
    for mode, least in (("multi", 1500), ("dgst", 3000)):
        cases = os.path.join(ctx.work, "compose-%s.ndjson" % mode)
        cfg = "Gen_ClientCompose_%s%s" % (mode, "_thorough" if thorough else "")
        gen = ctx.tlc("Gen_ClientCompose", cfg, workers=1, label="mc+gen-" + mode, coverage=False,
                      cases_to=cases, timeout=3000)
        ctx.require_ok(gen, cfg)
        if gen.ncases < least:
            raise vlib.ToolError("%s generator produced too few cases: %d" % (mode, gen.ncases))
        ctx.replay_cases("replay_client", cases, label="compose-" + mode)


BALANCE_ACTIONS = ["RequestSubmit", "UpstreamAsked", "UpstreamResult", "RequestDone", "ClockTick"]


def _balance(ctx, thorough):
    """redundant / load_balancer leg of ClientCompose: TLC on the spec, then
    recorded runs of the real balancers over scripted upstreams validated
    against it (the order in which upstreams are tried is random in the code,
    so this leg is bound by trace validation, not by replay)."""
    runs = [("MC_ClientBalance_lb_thorough" if thorough else "MC_ClientBalance_lb", True),
            ("MC_ClientBalance_lb1", False), ("MC_ClientBalance_red", False),
            ("MC_ClientBalance_lb0", False)]
    for cfg, cov in runs:
        mc = ctx.tlc("MC_ClientBalance", cfg, workers=8, label="mc-" + cfg[3:], coverage=cov,
                     timeout=3000)
        ctx.require_ok(mc, cfg)
        if cov:
            ctx.require_actions(mc, BALANCE_ACTIONS)
    live = ctx.tlc("MC_ClientBalance", "MC_ClientBalance_live", workers=4, label="mc-balance-live",
                   coverage=False)
    ctx.require_ok(live, "MC_ClientBalance (liveness: BCompletion)")
    n_traces = 4 if thorough else 2
    nscen = 400 if thorough else 120
    for i in range(n_traces):
        tr = os.path.join(ctx.work, "balance-%d.ndjson" % i)
        rc, out, err, _ = ctx.run_bin("record_client", ["balance", tr, str(ctx.seed * 100 + 50 + i),
                                                        str(nscen)])
        if rc != 0:
            raise vlib.ToolError("record_client balance failed: " + (err or out)[-500:])
        ok, res, rej = ctx.validate_trace("Trace_ClientBalance", "Trace_ClientBalance", tr,
                                          label="balance-trace-%d" % i)
        ctx.traces += 1
        if not ok:
            ctx.violation("recorded redundant/load_balancer run is not a behaviour of ClientCompose.tla",
                          rej if rej is not None else {"violated": res.violated})
        if i == 0:
            bad = os.path.join(ctx.work, "balance-bad.ndjson")
            lines = open(tr).read().splitlines()
            for j, l in enumerate(lines):
                o = json.loads(l)
                if o.get("ev") == "done" and o.get("ok") and o.get("src", 0) > 0:
                    o["src"] = o["src"] % 3 + 1
                    lines[j] = json.dumps(o)
                    break
            open(bad, "w").write("\n".join(lines) + "\n")
            ok2, _, _ = ctx.validate_trace("Trace_ClientBalance", "Trace_ClientBalance", bad,
                                           label="balance-trace-selftest")
            ctx.selftest("corrupted balancer trace is rejected by Trace_ClientBalance", not ok2)


def _validate(ctx, path, label):
    """The trace must be a behaviour of the spec under the open deviations,
    or of the ideal spec (the defect may have been repaired)."""
    order = ["dev", "ideal"] if DEV in ctx.open_devs else ["ideal"]
    last = None
    for which in order:
        ok, res, rej = ctx.validate_trace("Trace_ClientStream", "Trace_ClientStream_" + which, path,
                                          label="%s-%s" % (label, which))
        if ok:
            return True, which, None
        last = rej if rej is not None else {"violated": res.violated}
    return False, None, last


def _traces(ctx, thorough):
    n_traces = 6 if thorough else 2
    nev = 4000 if thorough else 1500
    best_conc = 0
    for i in range(n_traces):
        tr = os.path.join(ctx.work, "trace-%d.ndjson" % i)
        rc, out, err, _ = ctx.run_bin(
            "record_client", [tr, str(ctx.seed * 100 + i), str(nev), "3", "2", "150"])
        if rc != 0:
            raise vlib.ToolError("record_client failed: " + (err or out)[-500:])
        info = json.loads(out.strip().splitlines()[-1])
        best_conc = max(best_conc, info.get("max_concurrent", 0))
        ok, which, rej = _validate(ctx, tr, "trace-%d" % i)
        ctx.traces += 1
        if not ok:
            ctx.violation("recorded stream transport run is not a behaviour of ClientStream.tla", rej)
        elif which == "dev" and i == 0:
            # is the deviation really needed for this trace?
            ok2, _, _ = ctx.validate_trace("Trace_ClientStream", "Trace_ClientStream_ideal", tr,
                                           label="trace-%d-ideal" % i)
            if not ok2:
                ctx.known(DEV, {"trace_seed": ctx.seed * 100 + i})
        if i == 0:
            # binding self-test: flip one recorded outcome, TLC must reject
            bad = os.path.join(ctx.work, "trace-bad.ndjson")
            lines = open(tr).read().splitlines()
            for j, l in enumerate(lines):
                o = json.loads(l)
                if o.get("done") and o["done"][0]["ok"] and j > 50:
                    o["done"][0]["f"]["q"] = o["done"][0]["f"]["q"] % 5 + 1
                    lines[j] = json.dumps(o)
                    break
            open(bad, "w").write("\n".join(lines) + "\n")
            ok3, _, _ = _validate(ctx, bad, "trace-selftest")
            ctx.selftest("corrupted trace is rejected by Trace_ClientStream", not ok3)
    # the recorded runs are meant to be large; on a tree that already shows a
    # violation (connections may break early there) this is not a tool error
    if best_conc < 40 and not ctx.violations:
        raise vlib.ToolError("no recorded run had 40 concurrent requests")


def run(ctx):
    thorough = ctx.tier == "thorough"
    ctx.build("replay_client", "record_client")
    _stream_model(ctx, thorough)
    _dgram_model(ctx, thorough)
    _replay(ctx, thorough)
    _compose(ctx, thorough)
    _balance(ctx, thorough)
    _traces(ctx, thorough)
    ctx.assume("the peer's messages come from a finite alphabet (per ID and question: answer, error with question, header-only with/without error code, error with empty question but records, query, answer with edns-tcp-keepalive); a message shorter than a header, EOF between and inside frames, and a peer that stops reading end the stream")
    ctx.assume("time is a tick counter; one tick = 10 s of virtual time in the harness; the code's `elapsed > response_timeout` is decided on whole ticks by configuring RT ticks minus half a tick")
    ctx.assume("std::time::Instant (used by net::client::stream) is driven by interposing clock_gettime(CLOCK_MONOTONIC) in the harness executables, in lock step with tokio's paused clock")
    ctx.assume("errors are compared as a class (ok / error), not by value")
    ctx.assume("dgram: successive attempts draw different random IDs (a case in which they collide is re-run)")
    ctx.assume("multi_stream back-off (random, below 2^n s, at most 60 s) is shorter than one tick (100 s for multi_stream cases; 10 s and at most three failures for dgram_stream cases), so a Delay ends with the next tick")
    ctx.assume("balancers: every upstream that is asked hands back one result (assume/guarantee); which usable upstream is tried next and after how many ticks the probe timer fires is left open")
    ctx.assume("no caller drops its request future before it resolves")
    ctx.assume("zone transfers: later messages of a transfer are matched by ID only (check_stream checks neither QR nor the question after the first SOA); the spec states the same")
