"""C15 — client transports deliver each answer to its own request, exactly once
(spec/ClientStream.tla, spec/ClientFlow.tla, spec/ClientDgram.tla, spec/ClientDgramPar.tla, spec/ClientCompose.tla,
spec/MC_ClientMulti.tla, spec/Trace_ClientMulti.tla, spec/ClientConfig.tla, spec/ClientMsg.tla)."""
import json
import os

import vlib

STREAM_ACTIONS = [
    "Submit", "DropHandles", "RecvReq", "WriteChunk", "ReaderFrame", "ReaderEnd",
    "ReaderDone", "Demux", "ResponseTimeout", "IdleTimeout", "AllSendersDropped",
    "Tick", "PeerReply", "WrongQuestion", "NotAResponse", "Duplicate", "WrongId",
    "Close",
]
STREAM_END_ACTIONS = ["WriteError", "Garbage", "CloseInFrame", "PeerStopsReading",
                      "PeerStalls", "PeerResumes"]
DGRAM_ACTIONS = [
    "Submit", "Deliver", "StartAttempt", "GiveUp", "Retry", "RecvAccept",
    "RecvDiscardOther", "RecvDiscardShort", "RecvError", "RecvLate", "DTick",
]
DEV = "D_stream_response_timeout_ignored"

META = {
    "category": "model_checking",
    "text": "TLC explores the stream transport (one action per select! arm of Transport::run, the slot table with ID = slot index, timers, an adversarial peer that may send any message of an alphabet at any time, end the stream or stop reading) and the datagram transport (attempts, random IDs, receive loop, retries) and checks OwnAnswer, AtMostOnce, NoCross, SlotTableSound, NothingLost, the timer/retry budget and completion (liveness under fairness of the task and the clock). Every transition of the explored macro-step state graphs is replayed into the real stream::Connection/Transport and dgram::Connection over in-memory sockets on a paused clock, comparing requests written and the outcome of every get_response() after every step; recorded runs with 50 concurrent requests against a seeded hostile peer are validated by TLC against the specification with the invariants evaluated at every step. The budgets are the configured ones: ClientConfig.tla models every public configuration setter of dgram, stream, multi_stream, dgram_stream, redundant and load_balancer (documented ranges and defaults, routes new / default / from / from_parts / ..._mut / set_... / Connection::new) as configuration scripts; the model constants of the transports are what a script leaves in force, TLC checks the operational definitions against the declarative reading (asked for, capped to the range; never asked: the default) and generates, per setter, values at / just inside / just outside both ends of its range, which are replayed as getter sequences on the real objects and as loss scenarios on the running transports (dgram: 1 + max_retries datagrams read_timeout apart, OPT payload size on the wire, receive buffer offered to the socket, max_parallel sockets open at once under bursts of 1002 requests; stream: response / streaming / idle timeouts running out on clocks of 10 s, 70 s and 600 s ticks; multi_stream and dgram_stream: completion no later than the configured response timeout, the stream connections underneath giving up / going idle after the stream::Config part; load_balancer: ConnConfig scripts in the recorded runs). Delivery of multi-response requests whatever the relative speed of peer and consumer (ClientFlow.tla): the reply channel of capacity 8 between Transport::run and RequestMulti with the consumer as an actor of its own; TLC checks, with peer, transport task and consumer scheduled independently, that what get_response() has handed out is a prefix of what the peer sent for the request, equal to it at the end of the stream, that the queue never exceeds its capacity and nothing stays stuck in the pipeline (also after the caller dropped the request mid-stream), and that a channel that drops when full violates this; every transition of the macro-step graph (bursts of up to a whole transfer of 12 messages while the consumer is not calling, consumer pauses, requests dropped mid-stream, a single request on the same connection afterwards) is replayed into the real stream::Connection with a consumer that calls get_response() only when the case says so. Completion TIME under connection-establishment faults: on a clock finer than multi_stream's back-off (MC_ClientMulti.tla over ClientCompose's MFineTickSet) the pause of Request::get_response in state Delay and the error state of Transport::run last a nondeterministic time within their documented range (below 2^n s, at most 60 s); TLC checks that every request is completed exactly once and no later than its response timeout after submission whatever the pauses are, and validates recorded runs of the real multi_stream over a connector whose connect() fails on demand (refused, accepted and closed, answered, wrong answer; repeated; ticks of 250 ms and 4 s; response timeouts of 1 ms ... 100 s and the default, below / about / above the back-offs) against it (Trace_ClientMulti.tla), the deadline evaluated in every state.",
    "note": "ClientFlow: no I->S recorder for the slow consumer yet (S->I only); timers and connection ends are not combined with a full reply channel (while demux_reply waits for room the run loop checks no timer: not judged). Trusted: TLC, the transcription in ClientStream.tla/ClientDgram.tla, the harness (in-memory sockets, interposed CLOCK_MONOTONIC so that std::time::Instant follows the paused tokio clock). Errors are compared as a class, not by value. ClientCompose.tla models multi_stream (connect phase, close, back-off, re-issue; completion no later than the response timeout after submission) and dgram_stream (TCP iff TC, the truncated answer is never delivered) over abstract stream connections; its macro-step graph is checked by TLC and replayed into the real multi_stream / dgram_stream over a mock connector. The redundant / load_balancer leg (upstream order and probe timer left open, burst limits exact) is model-checked and bound by validating recorded runs of the real balancers over scripted upstreams (0..3 upstreams, all result kinds, burst limits; a panicking request future is an observation no rule accepts). Zone transfers on the stream transport (SubmitMulti, check_stream transcribed, re-insert at the same ID) are modelled and bound (replay and recorded traces). The peer's question is a triple (name, type, class) varied one component at a time, plus letter case and QDCOUNT 0/2. Fine clock (Trace_ClientMulti): back-off and error-state durations are hidden choices of the specification within [one tick, ceil(2^n s / tick)]; a pause of no time at all (random value below 1 us) is not modelled; the 250 ms runs have one request per scenario (hidden choices of two requests multiply), the 4 s runs up to two; connection faults there are connect refused and EOF from the peer (write errors / stalled peers are covered on the stream transport itself). Not covered: response-time estimation / fairness of the balancers, two multi_stream requests whose back-offs end in the same tick (order is random in the code), how many octets a stalled write has taken (stalled and short writes themselves are covered: a second request arriving while the first is half written), more than 65535/2 outstanding requests, real sockets/TLS. demux_reply restarts the response timer for every message, also for unknown IDs: bounded in the model (MaxFrames); see report. D_stream_response_timeout_ignored (the configured response timeout was never in force for ordinary requests) is fixed in the tree; the deviation model stays as documentation. Configuration: a response timeout that is a whole number of ticks is avoided (at elapsed = timeout exactly the run loop sleeps for zero time until the clock moves, which the frozen clock never does); not bound to a running transport: slow_rt_factor (getter only), the upper end of burst_interval (361 ticks; getter only), recv_size beyond the buffer offered (what a longer datagram then looks like is not judged).",
    "technique": "TLA+ specs (ClientStream.tla, ClientDgram.tla, ClientDgramPar.tla, ClientCompose.tla, MC_ClientMulti.tla, Trace_ClientMulti.tla, ClientConfig.tla) + TLC exhaustive (safety, liveness); spec->impl behaviour replay on a virtual clock; impl->spec trace validation",
    "design_ref": "DESIGN.md §4 C15",
}


def _head(src, dst, n):
    with open(src) as f, open(dst, "w") as g:
        for i, line in enumerate(f):
            if i >= n:
                break
            g.write(line)


def _stream_model(ctx, thorough):
    # macro-step semantics, all orders of environment steps
    mc = ctx.tlc("MC_ClientStream", "MC_ClientStream_thorough" if thorough else "MC_ClientStream",
                 workers=8, label="mc-stream-macro", timeout=3000, coverage=False)
    ctx.require_ok(mc, "MC_ClientStream (macro)")
    # fine-grained interleavings, named actions (vacuity guard)
    fine = ctx.tlc("MC_ClientStream",
                   "MC_ClientStream_fine_thorough" if thorough else "MC_ClientStream_fine",
                   workers=8, label="mc-stream-fine", timeout=3000)
    ctx.require_ok(fine, "MC_ClientStream (fine)")
    ctx.require_actions(fine, STREAM_ACTIONS)
    ends = ctx.tlc("MC_ClientStream", "MC_ClientStream_ends", workers=4, label="mc-stream-ends")
    ctx.require_ok(ends, "MC_ClientStream (ends)")
    ctx.require_actions(ends, STREAM_END_ACTIONS)
    # zone transfers (multi-response requests, check_stream) mixed with
    # single requests, idle timeout 0
    xfr = ctx.tlc("MC_ClientStream", "MC_ClientStream_xfr_thorough" if thorough else "MC_ClientStream_xfr",
                  workers=8, label="mc-stream-xfr", timeout=3000, coverage=False)
    ctx.require_ok(xfr, "MC_ClientStream (xfr)")
    xf = ctx.tlc("MC_ClientStream", "MC_ClientStream_xfrfine", workers=4, label="mc-stream-xfrfine")
    ctx.require_ok(xf, "MC_ClientStream (xfr, fine)")
    ctx.require_actions(xf, ["SubmitMulti", "Demux"])
    live = ctx.tlc("MC_ClientStream", "MC_ClientStream_live", workers=4, label="mc-stream-live",
                   coverage=False)
    ctx.require_ok(live, "MC_ClientStream (liveness: Completion)")
    # the deviation, documented: with it the timer bound is violated
    dev = ctx.tlc("MC_ClientStream", "MC_ClientStream_dev", workers=1, label="mc-stream-dev",
                  coverage=False, expect_violation="TimerArmed", count=False)
    if not dev.ok:
        raise vlib.ToolError("deviation model does not show the TimerArmed counterexample")
    ctx.exhaustive_flags.append(True)


def _dgram_model(ctx, thorough):
    mc = ctx.tlc("MC_ClientDgram", "MC_ClientDgram_thorough" if thorough else "MC_ClientDgram",
                 workers=8, label="mc-dgram")
    ctx.require_ok(mc, "MC_ClientDgram")
    ctx.require_actions(mc, DGRAM_ACTIONS)
    live = ctx.tlc("MC_ClientDgram", "MC_ClientDgram_live", workers=4, label="mc-dgram-live",
                   coverage=False)
    ctx.require_ok(live, "MC_ClientDgram (liveness: DCompletion)")
    ctx.exhaustive_flags.append(True)


def _replay(ctx, thorough):
    # stream: one case per transition of the abstracted macro graph
    cases = os.path.join(ctx.work, "stream-cases.ndjson")
    # workers=1: which concrete path represents an abstract state must not
    # depend on thread scheduling (reproducible case set)
    gen = ctx.tlc("Gen_ClientStream", "Gen_ClientStream_thorough" if thorough else "Gen_ClientStream",
                  workers=1, label="gen-stream", coverage=False, cases_to=cases, count=False,
                  timeout=3000)
    ctx.require_ok(gen, "Gen_ClientStream")
    if gen.ncases < 5000:
        raise vlib.ToolError("stream generator produced too few cases: %d" % gen.ncases)
    head = os.path.join(ctx.work, "head.ndjson")
    _head(cases, head, 40)
    rc, out, err, _ = ctx.run_bin("replay_client", ["--selftest-perturb"], stdin_path=head)
    ctx.selftest("perturbed expectation is reported by replay_client", "FAIL " in out)
    ctx.replay_cases("replay_client", cases, label="stream")
    # zone transfers: mixed single / multi-response requests
    xcases = os.path.join(ctx.work, "stream-xfr-cases.ndjson")
    xgen = ctx.tlc("Gen_ClientStream",
                   "Gen_ClientStream_xfr_thorough" if thorough else "Gen_ClientStream_xfr",
                   workers=1, label="gen-stream-xfr", coverage=False, cases_to=xcases, count=False,
                   timeout=3000)
    ctx.require_ok(xgen, "Gen_ClientStream (xfr)")
    if xgen.ncases < 5000:
        raise vlib.ToolError("xfr generator produced too few cases: %d" % xgen.ncases)
    ctx.replay_cases("replay_client", xcases, label="stream-xfr")
    if thorough:
        sim = os.path.join(ctx.work, "stream-sim.ndjson")
        g2 = ctx.tlc("Gen_ClientStream", "Gen_ClientStream_sim", workers=1, simulate=1500,
                     depth=14, label="gen-stream-sim", coverage=False, cases_to=sim, count=False)
        ctx.require_ok(g2, "Gen_ClientStream (simulation)")
        ctx.replay_cases("replay_client", sim, label="stream-sim")
    # dgram
    dcases = os.path.join(ctx.work, "dgram-cases.ndjson")
    dgen = ctx.tlc("Gen_ClientDgram", "Gen_ClientDgram_thorough" if thorough else "Gen_ClientDgram",
                   workers=1, label="gen-dgram", coverage=False, cases_to=dcases, count=False)
    ctx.require_ok(dgen, "Gen_ClientDgram")
    if dgen.ncases < 500:
        raise vlib.ToolError("dgram generator produced too few cases: %d" % dgen.ncases)
    ctx.replay_cases("replay_client", dcases, label="dgram")
    # dgram, every behaviour over one datagram per class (timing of junk
    # relative to the attempt's deadline matters, the state graph does not
    # remember it)
    pcases = os.path.join(ctx.work, "dgram-paths.ndjson")
    pgen = ctx.tlc("Gen_ClientDgram",
                   "Gen_ClientDgram_paths_thorough" if thorough else "Gen_ClientDgram_paths",
                   workers=1, label="gen-dgram-paths", coverage=False, cases_to=pcases, count=False)
    ctx.require_ok(pgen, "Gen_ClientDgram (paths)")
    if pgen.ncases < 500:
        raise vlib.ToolError("dgram path generator produced too few cases: %d" % pgen.ncases)
    ctx.replay_cases("replay_client", pcases, label="dgram-paths")


FLOW_ACTIONS = ["FSubmit", "PeerSends", "Transport", "DemuxDeliver", "GetResponse", "Consume", "DropRequest"]


def _flow(ctx, thorough):
    """ClientFlow: multi-response requests with the reply channel of capacity
    8 between transport and request and the consumer as an actor of its own
    (peer, transport task and consumer scheduled independently): what the
    consumer receives is a prefix of what the peer sent, equal to it at the
    end of the stream, back-pressure never drops; then every transition of
    the macro-step graph (bursts of up to a whole transfer while the consumer
    is not calling get_response, consumer pauses, requests dropped
    mid-stream, a single request on the same connection) on the real
    stream::Connection."""
    mc = ctx.tlc("MC_ClientFlow", "MC_ClientFlow_thorough" if thorough else "MC_ClientFlow",
                 workers=4, label="mc-flow", timeout=3000)
    ctx.require_ok(mc, "MC_ClientFlow")
    ctx.require_actions(mc, FLOW_ACTIONS)
    # sanity model: a reply channel that drops when full violates the property
    dev = ctx.tlc("MC_ClientFlow", "MC_ClientFlow_dev", workers=1, label="mc-flow-drop-when-full",
                  coverage=False, expect_violation="FlowPrefix", count=False)
    if not dev.ok:
        raise vlib.ToolError("the drop-when-full model does not violate FlowPrefix")
    cases = os.path.join(ctx.work, "flow-cases.ndjson")
    gen = ctx.tlc("MC_ClientFlow", "Gen_ClientFlow_thorough" if thorough else "Gen_ClientFlow",
                  workers=1, label="mc+gen-flow", coverage=False, cases_to=cases, timeout=3000)
    ctx.require_ok(gen, "Gen_ClientFlow")
    if gen.ncases < 2000:
        raise vlib.ToolError("flow generator produced too few cases: %d" % gen.ncases)
    # vacuity: bursts longer than the channel while the consumer is not
    # calling, transfers handed over completely after that, requests dropped
    # mid-stream with a single request answered afterwards
    burst = whole = dropped = 0
    for line in open(cases):
        c = json.loads(line)
        ops = c["in"]["ops"]
        if any(o["op"] == "xfr" and len(o["fs"]) > 8 for o in ops):
            burst += 1
            if any(g and g[-1].get("eof") and len(g) > 9 for g in c["exp"][-1]["got"]):
                whole += 1
        d = [i for i, o in enumerate(ops) if o["op"] == "dropreq"]
        if d and any(o["op"] == "answer" for o in ops[d[0]:]) \
                and any(g and "ok" in g[-1] and g[-1]["ok"]["q"] < 500 for g in c["exp"][-1]["got"]):
            dropped += 1
    if burst < 500 or whole < 10 or dropped < 10:
        raise vlib.ToolError("vacuity: flow cases too poor: burst=%d whole=%d dropped=%d" % (burst, whole, dropped))
    head = os.path.join(ctx.work, "flow-head.ndjson")
    _head(cases, head, 40)
    rc, out, err, _ = ctx.run_bin("replay_client", ["--selftest-perturb"], stdin_path=head)
    ctx.selftest("perturbed expectation is reported by replay_client (flow)", "FAIL " in out)
    ctx.replay_cases("replay_client", cases, label="flow")


def _compose(ctx, thorough):
    """ClientCompose: TLC checks the invariants on the macro-step graph and
    emits the cases in the same run; the cases run on the real multi_stream /
    dgram_stream over a mock connector and mock datagram sockets."""
    for mode, least in (("multi", 1500), ("dgst", 3000)):
        cases = os.path.join(ctx.work, "compose-%s.ndjson" % mode)
        cfg = "Gen_ClientCompose_%s%s" % (mode, "_thorough" if thorough else "")
        gen = ctx.tlc("Gen_ClientCompose", cfg, workers=1, label="mc+gen-" + mode, coverage=False,
                      cases_to=cases, timeout=3000)
        ctx.require_ok(gen, cfg)
        if gen.ncases < least:
            raise vlib.ToolError("%s generator produced too few cases: %d" % (mode, gen.ncases))
        ctx.replay_cases("replay_client", cases, label="compose-" + mode)
    # connection failures (refused, closed with requests outstanding) on a
    # clock of 10 ms ticks, far shorter than multi_stream's back-off: the
    # response timeout runs out while the request sits in its back-off, and
    # the request must be completed then (MOnTime), not when the back-off ends
    for mode, least in (("multi", 150), ("dgst", 100)):
        cases = _gen_replay(ctx, "Gen_ClientCompose", "Gen_ClientCompose_%s_fail" % mode,
                            "compose-%s-fail" % mode, least)
        n = 0
        for line in open(cases):
            c = json.loads(line)
            ops = [o["op"] for o in c["in"]["ops"]]
            done = c["exp"][-1]["done"]
            done = done[0] if mode == "multi" else done
            if len(ops) >= 2 and ops[-1] == "tick" and ops[-2] in ("conn_fail", "close") and done \
                    and not done[0]["ok"]:
                before = c["exp"][-2]["done"]
                if not (before[0] if mode == "multi" else before):
                    n += 1     # completed by this very tick, one tick into the back-off
        if n < 10:
            raise vlib.ToolError("vacuity: only %d %s cases time out during the back-off" % (n, mode))


# ---------------------------------------------------------------------------
# the configuration layer (ClientConfig.tla): every public setter of the
# client transports, values at / inside / outside both ends of its documented
# range, honoured by the running transport

# setter -> (getter field, how its values must be spread among the generated
# inputs: "both" a documented range with something below and above it;
# "above" a range whose lower end is the type's (0); "below" a lower limit
# only; "plain" no range: what is set is what is in force)
SETTERS = {
    "set_max_parallel": ("mp", "both"), "set_read_timeout": ("rto", "both"),
    "set_max_retries": ("mr", "above"), "set_udp_payload_size": ("ups", "plain"),
    "set_recv_size": ("rsz", "plain"), "set_response_timeout": ("rt", "both"),
    "set_streaming_response_timeout": ("srt", "both"), "set_idle_timeout": ("idle", "above"),
    "set_max_burst": ("mb", "plain"), "set_burst_interval": ("iv", "both"),
    "set_slow_rt_factor": ("srf", "below"), "set_defer_transport_error": ("de", "flag"),
    "set_defer_refused": ("dr", "flag"), "set_defer_servfail": ("ds", "flag"),
}
CONFIG_ACTIONS = ["SetMaxParallel", "SetReadTimeout", "SetMaxRetries", "SetUdpPayloadSize", "SetRecvSize",
                  "SetResponseTimeout", "SetStreamingResponseTimeout", "SetIdleTimeout", "SetMaxBurst",
                  "SetBurstInterval", "SetDeferFlag", "SetSlowRtFactor"]


def _part(obj, path):
    for k in path:
        obj = obj[k]
    return obj


def _scripts_of(inp, eff):
    """The parts of a case's configuration script with what the specification
    says their getters return: [(prefix, calls, eff of that part)]."""
    kind = inp["kind"]
    conf = inp["cfg"]["conf"]
    if kind in ("dgram", "dgpar", "stream"):
        return [("", conf["calls"], eff)]
    if kind == "multi":
        return [("", conf["calls"], eff), ("st.", conf["st"]["calls"], eff["st"])]
    if kind == "dgst":
        return [("dg.", conf["dg"]["calls"], eff["dg"]), ("ms.", conf["ms"]["calls"], eff["ms"]),
                ("ms.st.", conf["ms"]["st"]["calls"], eff["ms"]["st"])]
    return []


# Gen_ClientConfig: the accessor a call is made through -> the part of the object
AT_PATH = {("ms", "stream_mut"): ["st"], ("x", "dgram_mut"): ["dg"], ("x", "stream_mut"): ["ms"],
           ("x", "stream_mut.stream_mut"): ["ms", "st"]}


def _asked_vs_effective(path):
    """Walk a generated case file: for every setter (prefixed by the part of a
    composite object it is called on) the pairs (value asked for last, value
    the specification says is then in force)."""
    seen = {}
    for line in open(path):
        c = json.loads(line)
        inp, exp = c["in"], c["exp"]
        if inp["kind"] == "config":
            for k, e in zip(inp["calls"], exp):
                at = AT_PATH.get((inp["obj"], k["at"]), [])
                part = _part(e, at)
                key = "".join(a + "." for a in at) + k["f"]
                seen.setdefault(key, set()).add((k["v"], _flag(part[SETTERS[k["f"]][0]])))
            continue
        for prefix, calls, part in _scripts_of(inp, exp[0]["eff"]):
            last = {}
            for k in calls:
                last[k["f"]] = k["v"]
                if k["f"] == "set_response_timeout":
                    # it sets the streaming timeout as well: an earlier call for that is void
                    last.pop("set_streaming_response_timeout", None)
            for f, v in last.items():
                seen.setdefault(prefix + f, set()).add((v, _flag(part[SETTERS[f][0]])))
    return seen


def _flag(v):
    return int(v) if isinstance(v, bool) else v


def _spread(pairs, how):
    """Which classes of values the generated inputs hold for one setter."""
    cls = set()
    up = {e for v, e in pairs if e > v}      # below the range: capped to its lower end
    down = {e for v, e in pairs if e < v}    # above the range: capped to its upper end
    taken = {v for v, e in pairs if e == v}
    if how in ("plain", "flag"):
        if not up and not down:
            cls.add("as_set:%d" % len(taken))
        return cls
    lo = min(up) if up else (0 if how == "above" else None)
    hi = max(down) if down else None
    if up:
        cls.add("below")
    if down:
        cls.add("above")
    if lo is not None and lo in taken:
        cls.add("at_min")
    if hi is not None and hi in taken:
        cls.add("at_max")
    if any((lo is None or v > lo) and (hi is None or v < hi) for v in taken):
        cls.add("inside")
    return cls


NEED = {"both": {"below", "at_min", "inside", "at_max", "above"},
        "above": {"at_min", "inside", "at_max", "above"},
        "below": {"below", "at_min", "inside"}}


def _require_spread(ctx, what, paths, setters, partial=None):
    """Vacuity guard keyed on the generated inputs: every named setter occurs
    with values below / at / inside / at / above its range (as far as it has
    one), judged by the specification's own expectation of what is in force."""
    seen = {}
    for p in paths:
        for f, pairs in _asked_vs_effective(p).items():
            seen.setdefault(f, set()).update(pairs)
    report = {}
    for f in setters:
        how = SETTERS[f.split(".")[-1]][1]
        cls = _spread(seen.get(f, set()), how)
        report[f] = sorted(cls)
        if how in ("plain", "flag"):
            n = max([int(c.split(":")[1]) for c in cls] + [0])
            if n < (2 if how == "flag" else 3):
                raise vlib.ToolError("vacuity (%s): %s occurs with %d values only" % (what, f, n))
            continue
        need = (partial or {}).get(f) or NEED[how]
        if not need <= cls:
            raise vlib.ToolError("vacuity (%s): %s lacks values %s" % (what, f, sorted(need - cls)))
    ctx.config_classes[what] = report


def _gen_replay(ctx, module, cfg, label, least, workers=1, selftest=None):
    cases = os.path.join(ctx.work, label + ".ndjson")
    gen = ctx.tlc(module, cfg, workers=workers, label="mc+gen-" + label, coverage=False, cases_to=cases,
                  timeout=3000)
    ctx.require_ok(gen, cfg)
    if gen.ncases < least:
        raise vlib.ToolError("%s generator produced too few cases: %d" % (label, gen.ncases))
    if selftest:
        selftest(ctx, cases, label)
    ctx.replay_cases("replay_client", cases, label=label)
    return cases


def _selftest_script(ctx, cases, label):
    """Binding self-test: the same expectation under a configuration script
    that asks for another budget must be reported by the executor."""
    bad = os.path.join(ctx.work, label + "-bad.ndjson")
    n = 0
    with open(bad, "w") as g:
        for line in open(cases):
            c = json.loads(line)
            calls = c["in"]["cfg"]["conf"].get("calls", [])
            ks = [k for k in calls if k["f"] == "set_max_retries"]
            ks = ks if len(ks) == 1 and ks[0]["v"] == 0 else []
            # a request that was not answered: the retry budget shows
            if ks and c["exp"][-1]["done"] and "err" in c["exp"][-1]["done"][0] and c["exp"][-1]["t"] > 0:
                for k in ks:
                    k["v"] = 1
                g.write(json.dumps(c) + "\n")
                n += 1
                if n >= 5:
                    break
    if n == 0:
        raise vlib.ToolError("no case with set_max_retries(0) and a lost answer among the %s cases" % label)
    rc, out, err, _ = ctx.run_bin("replay_client", ["--open-devs", ""], stdin_path=bad)
    ctx.selftest("a configuration script asking for another retry budget is reported by replay_client (%s)"
                 % label, out.count("FAIL ") == n)


def _config(ctx, thorough):
    ctx.config_classes = {}
    # (1) the configuration objects on their own: TLC checks the operational
    # definitions against the declarative reading, every behaviour of two
    # calls is a case (getters after every call)
    cfgcases = os.path.join(ctx.work, "config-cases.ndjson")
    gen = ctx.tlc("Gen_ClientConfig", "Gen_ClientConfig", workers=4, label="mc+gen-config",
                  cases_to=cfgcases, coverage=thorough)
    ctx.require_ok(gen, "Gen_ClientConfig")
    if thorough:
        ctx.require_actions(gen, CONFIG_ACTIONS)
    # (quick tier: the guard below, keyed on the generated calls, subsumes it)
    if gen.ncases < 5000:
        raise vlib.ToolError("config generator produced too few cases: %d" % gen.ncases)
    st = ["set_response_timeout", "set_streaming_response_timeout", "set_idle_timeout"]
    dg = ["set_max_parallel", "set_read_timeout", "set_max_retries", "set_udp_payload_size", "set_recv_size"]
    _require_spread(ctx, "objects", [cfgcases],
                    list(SETTERS) + ["st." + f for f in st] + ["ms.st." + f for f in st]
                    + ["dg." + f for f in dg] + ["ms.set_response_timeout"])
    head = os.path.join(ctx.work, "config-head.ndjson")
    _head(cfgcases, head, 40)
    rc, out, err, _ = ctx.run_bin("replay_client", ["--selftest-perturb"], stdin_path=head)
    ctx.selftest("perturbed getter expectation is reported by replay_client (config)", "FAIL " in out)
    ctx.replay_cases("replay_client", cfgcases, label="config")

    # (2) dgram: one request, nothing ever arrives; the budget, the OPT
    # record and the receive buffer are the configured ones
    loss = _gen_replay(ctx, "Gen_ClientDgram", "Gen_ClientDgram_loss", "dgram-loss", 50,
                       selftest=_selftest_script)
    _require_spread(ctx, "dgram", [loss], ["set_max_parallel", "set_read_timeout", "set_max_retries",
                                           "set_udp_payload_size", "set_recv_size"])
    sent = set()
    for line in open(loss):
        c = json.loads(line)
        last = c["exp"][-1]
        if last["done"] and "err" in last["done"][0]:
            sent.add((len(last["sent"]), last["t"]))
    if not {(1, 1), (2, 2)} <= sent or max(n for n, _ in sent) < 101 or len({t for _, t in sent}) < 6:
        raise vlib.ToolError("vacuity: dgram loss cases do not spread over the budgets: %s" % sorted(sent)[:20])

    # (3) dgram: max_parallel - bursts of requests on one connection
    mc = ctx.tlc("MC_ClientDgramPar", "MC_ClientDgramPar", workers=4, label="mc-dgram-par")
    ctx.require_ok(mc, "MC_ClientDgramPar")
    ctx.require_actions(mc, ["SubmitBurst", "PTick"])
    par = _gen_replay(ctx, "Gen_ClientDgramPar", "Gen_ClientDgramPar" + ("_thorough" if thorough else ""),
                      "dgram-par", 500)
    _require_spread(ctx, "dgram-par", [par], ["set_max_parallel"])
    held = 0
    for line in open(par):
        last = json.loads(line)["exp"][-1]
        if last["open"] == last["eff"]["mp"] and last["nsock"] >= last["open"] + 2:
            held += 1
    if held < 50:
        raise vlib.ToolError("vacuity: only %d max_parallel cases have requests waiting for a permit" % held)

    # (4) stream: the three timeouts; lower ends / defaults / routes on 10 s
    # ticks, the upper ends on longer ticks
    st = [_gen_replay(ctx, "Gen_ClientStream", "Gen_ClientStream_" + c, "stream-" + c, least)
          for c, least in (("conf", 1500), ("confhi", 1500), ("confidle", 400))]
    _require_spread(ctx, "stream", st, ["set_response_timeout", "set_streaming_response_timeout",
                                        "set_idle_timeout"])
    # the timeouts must be seen to run out, at different times
    closed_at = set()
    for p in st:
        for line in open(p):
            c = json.loads(line)
            ops = [o["op"] for o in c["in"]["ops"]]
            if ops and ops[-1] == "tick" and c["exp"][-1]["closed"] and (len(ops) < 2 or not c["exp"][-2]["closed"]):
                closed_at.add((c["in"]["cfg"]["tickms"], ops.count("tick"), bool(c["exp"][-1]["done"][0])
                               and "err" in c["exp"][-1]["done"][0][-1]))
    if len(closed_at) < 8 or len({t for t, _, _ in closed_at}) < 3:
        raise vlib.ToolError("vacuity: stream timeouts run out in too few ways: %s" % sorted(closed_at))

    # (5) multi_stream / dgram_stream: the answer never comes; completion
    # no later than the configured budgets, by every route
    ml = _gen_replay(ctx, "Gen_ClientCompose", "Gen_ClientCompose_multi_loss", "compose-multi-loss", 100)
    _require_spread(ctx, "multi_stream", [ml], ["set_response_timeout"])
    xl = _gen_replay(ctx, "Gen_ClientCompose", "Gen_ClientCompose_dgst_loss", "compose-dgst-loss", 300)
    _require_spread(ctx, "dgram_stream", [xl],
                    ["dg.set_read_timeout", "dg.set_max_retries", "ms.set_response_timeout"],
                    partial={"dg.set_read_timeout": {"inside", "above"},
                             "dg.set_max_retries": {"at_min", "inside"},
                             "ms.set_response_timeout": {"inside"}})
    # the stream connections multi_stream / dgram_stream make run under the
    # stream::Config part: requests are answered and the connection is left
    # idle (two requests, time passes in between), or never answered
    mi = _gen_replay(ctx, "Gen_ClientCompose", "Gen_ClientCompose_multi_idle", "compose-multi-idle", 1000)
    _require_spread(ctx, "multi_stream.stream", [ml, mi], ["st.set_response_timeout", "st.set_idle_timeout"],
                    partial={"st.set_response_timeout": {"below", "inside"}})
    _require_spread(ctx, "dgram_stream.stream", [xl], ["ms.st.set_response_timeout"],
                    partial={"ms.st.set_response_timeout": {"inside"}})
    reconnects = {}
    for name, p in (("multi-loss", ml), ("multi-idle", mi), ("dgst-loss", xl)):
        for line in open(p):
            c = json.loads(line)
            ops = [o["op"] for o in c["in"]["ops"]]
            if "close" not in ops and "conn_fail" not in ops:
                # the peer never closes: a second connection is the stream timers' doing
                reconnects.setdefault(name, set()).add(c["exp"][-1]["nconnect"])
    for name in ("multi-loss", "multi-idle", "dgst-loss"):
        if not {1, 2} <= reconnects.get(name, set()):
            raise vlib.ToolError("vacuity: %s cases never see a stream connection time out: %s"
                                 % (name, sorted(reconnects.get(name, []))))
    routes = set()
    for p in (ml, xl):
        for line in open(p):
            routes.add(json.loads(line)["in"]["cfg"]["conf"]["route"])
    if not {"from", "default", "conn_new", "from_parts", "new_mut", "new_set"} <= routes:
        raise vlib.ToolError("vacuity: routes missing among the composite configurations: %s" % sorted(routes))


def _multi_fine(ctx, thorough):
    """multi_stream under connection-establishment faults on a fine clock:
    the back-off (Request::get_response, state Delay) and the error state of
    Transport::run last a nondeterministic time within their documented
    range (ClientCompose: MFineTickSet); TLC checks the deadline on the
    model, then validates recorded runs of the real multi_stream over a
    connector that fails on demand (ticks of 250 ms and of 4 s: response
    timeouts below, about and above the back-offs of 2 s ... 60 s)."""
    mc = ctx.tlc("MC_ClientMulti", "MC_ClientMulti_thorough" if thorough else "MC_ClientMulti",
                 workers=8, label="mc-multi-fine", timeout=3000)
    ctx.require_ok(mc, "MC_ClientMulti")
    ctx.require_actions(mc, ["FTickQuiet", "FTickWake", "FTickTimeout"])
    nscen = 300 if thorough else 120
    for i, (tickms, maxreq) in enumerate([(250, 1), (4000, 2)] * (2 if thorough else 1)):
        tr = os.path.join(ctx.work, "multi-fine-%d.ndjson" % i)
        # (two requests per scenario: the hidden choices multiply, fewer scenarios)
        rc, out, err, _ = ctx.run_bin("record_client", ["multi", tr, str(ctx.seed * 100 + 70 + i),
                                                        str(nscen if maxreq == 1 else nscen * 6 // 10),
                                                        str(tickms), str(maxreq)])
        if rc != 0:
            raise vlib.ToolError("record_client multi failed: " + (err or out)[-500:])
        info = json.loads(out.strip().splitlines()[-1])
        cfg = "Trace_ClientMulti_%d" % tickms
        ok, res, rej = ctx.validate_trace("Trace_ClientMulti", cfg, tr, label="multi-fine-trace-%d" % i)
        ctx.traces += 1
        if not ok:
            ctx.violation("recorded multi_stream run under connection failures is not a behaviour of "
                          "ClientCompose.tla (completion no later than the response timeout, back-off within "
                          "its range)", rej if rej is not None else {"violated": res.violated, "trace": tr})
            continue
        # vacuity: the response timeout ran out during a back-off (for several
        # configured timeouts), back-offs ended and were followed by another
        # connect(), requests were answered after failures
        if info["timeout_in_backoff"] < 20 or len(info["timeout_in_backoff_rts"]) < 5 \
                or info["reconnect_after_backoff"] < 20 or info["ok_after_failure"] < 3 or info["hang"]:
            raise vlib.ToolError("vacuity: recorded multi_stream run too poor: %s" % info)
        if i == 0:
            # binding self-test: a completion one tick after the deadline must be rejected
            bad = os.path.join(ctx.work, "multi-fine-bad.ndjson")
            lines = open(tr).read().splitlines()
            rt_ticks, hit = None, False
            for j, l in enumerate(lines):
                o = json.loads(l)
                if o["ev"] == "init":
                    rt_ticks = max(1, -(-o["eff"]["rt"] // tickms))
                    continue
                d = o["obs"]["done"][0]
                if not hit and o["ev"] == "tick" and d and not d[0]["ok"] and d[0]["t"] == rt_ticks \
                        and not json.loads(lines[j - 1]).get("obs", {"done": [[1]]})["done"][0] \
                        and j + 1 < len(lines) and json.loads(lines[j + 1])["ev"] == "init":
                    # the request is still pending at this tick and completed by one more
                    late = json.loads(l)
                    late["obs"]["done"][0][0]["t"] += 1
                    o["obs"]["done"][0] = []
                    lines[j] = json.dumps(o) + "\n" + json.dumps(late)
                    hit = True
            if not hit:
                raise vlib.ToolError("no completion at the deadline in the recorded run")
            open(bad, "w").write("\n".join(lines) + "\n")
            ok2, _, _ = ctx.validate_trace("Trace_ClientMulti", cfg, bad, label="multi-fine-trace-selftest")
            ctx.selftest("a request completed one tick after its response timeout is rejected by Trace_ClientMulti",
                         not ok2)


BALANCE_ACTIONS = ["RequestSubmit", "UpstreamAsked", "UpstreamResult", "RequestDone", "ClockTick"]


def _balance(ctx, thorough):
    """redundant / load_balancer leg of ClientCompose: TLC on the spec, then
    recorded runs of the real balancers over scripted upstreams validated
    against it (the order in which upstreams are tried is random in the code,
    so this leg is bound by trace validation, not by replay)."""
    runs = [("MC_ClientBalance_lb_thorough" if thorough else "MC_ClientBalance_lb", True),
            ("MC_ClientBalance_lb1", False), ("MC_ClientBalance_red", False),
            ("MC_ClientBalance_lb0", False)]
    for cfg, cov in runs:
        mc = ctx.tlc("MC_ClientBalance", cfg, workers=8, label="mc-" + cfg[3:], coverage=cov,
                     timeout=3000)
        ctx.require_ok(mc, cfg)
        if cov:
            ctx.require_actions(mc, BALANCE_ACTIONS)
    live = ctx.tlc("MC_ClientBalance", "MC_ClientBalance_live", workers=4, label="mc-balance-live",
                   coverage=False)
    ctx.require_ok(live, "MC_ClientBalance (liveness: BCompletion)")
    n_traces = 4 if thorough else 2
    nscen = 400 if thorough else 120
    for i in range(n_traces):
        tr = os.path.join(ctx.work, "balance-%d.ndjson" % i)
        rc, out, err, _ = ctx.run_bin("record_client", ["balance", tr, str(ctx.seed * 100 + 50 + i),
                                                        str(nscen)])
        if rc != 0:
            raise vlib.ToolError("record_client balance failed: " + (err or out)[-500:])
        ok, res, rej = ctx.validate_trace("Trace_ClientBalance", "Trace_ClientBalance", tr,
                                          label="balance-trace-%d" % i)
        ctx.traces += 1
        if not ok:
            ctx.violation("recorded redundant/load_balancer run is not a behaviour of ClientCompose.tla",
                          rej if rej is not None else {"violated": res.violated})
        if i == 0:
            bad = os.path.join(ctx.work, "balance-bad.ndjson")
            lines = open(tr).read().splitlines()
            for j, l in enumerate(lines):
                o = json.loads(l)
                if o.get("ev") == "done" and o.get("ok") and o.get("src", 0) > 0:
                    o["src"] = o["src"] % 3 + 1
                    lines[j] = json.dumps(o)
                    break
            open(bad, "w").write("\n".join(lines) + "\n")
            ok2, _, _ = ctx.validate_trace("Trace_ClientBalance", "Trace_ClientBalance", bad,
                                           label="balance-trace-selftest")
            ctx.selftest("corrupted balancer trace is rejected by Trace_ClientBalance", not ok2)
            if thorough:
                # an upstream whose ConnConfig getters say something else than
                # the script leaves in force
                bad2 = os.path.join(ctx.work, "balance-bad-cc.ndjson")
                lines = open(tr).read().splitlines()
                hit = False
                for j, l in enumerate(lines):
                    o = json.loads(l)
                    if o.get("ev") == "add" and any(k["f"] == "set_burst_interval" for k in o["calls"]):
                        o["eff"]["iv"] += 1
                        lines[j] = json.dumps(o)
                        hit = True
                        break
                if not hit:
                    raise vlib.ToolError("no upstream with a configured burst interval in the recorded run")
                open(bad2, "w").write("\n".join(lines) + "\n")
                ok4, _, _ = ctx.validate_trace("Trace_ClientBalance", "Trace_ClientBalance", bad2,
                                               label="balance-trace-selftest-cc")
                ctx.selftest("a ConnConfig whose getters disagree with its script is rejected by Trace_ClientBalance",
                             not ok4)


def _validate(ctx, path, label):
    """The trace must be a behaviour of the spec under the open deviations,
    or of the ideal spec (the defect may have been repaired)."""
    order = ["dev", "ideal"] if DEV in ctx.open_devs else ["ideal"]
    last = None
    for which in order:
        ok, res, rej = ctx.validate_trace("Trace_ClientStream", "Trace_ClientStream_" + which, path,
                                          label="%s-%s" % (label, which))
        if ok:
            return True, which, None
        last = rej if rej is not None else {"violated": res.violated}
    return False, None, last


def _traces(ctx, thorough):
    n_traces = 6 if thorough else 2
    nev = 4000 if thorough else 1500
    best_conc = 0
    for i in range(n_traces):
        tr = os.path.join(ctx.work, "trace-%d.ndjson" % i)
        rc, out, err, _ = ctx.run_bin(
            "record_client", [tr, str(ctx.seed * 100 + i), str(nev), "3", "2", "150"])
        if rc != 0:
            raise vlib.ToolError("record_client failed: " + (err or out)[-500:])
        info = json.loads(out.strip().splitlines()[-1])
        best_conc = max(best_conc, info.get("max_concurrent", 0))
        ok, which, rej = _validate(ctx, tr, "trace-%d" % i)
        ctx.traces += 1
        if not ok:
            ctx.violation("recorded stream transport run is not a behaviour of ClientStream.tla", rej)
        elif which == "dev" and i == 0:
            # is the deviation really needed for this trace?
            ok2, _, _ = ctx.validate_trace("Trace_ClientStream", "Trace_ClientStream_ideal", tr,
                                           label="trace-%d-ideal" % i)
            if not ok2:
                ctx.known(DEV, {"trace_seed": ctx.seed * 100 + i})
        if i == 0:
            # binding self-test: flip one recorded outcome, TLC must reject
            bad = os.path.join(ctx.work, "trace-bad.ndjson")
            lines = open(tr).read().splitlines()
            for j, l in enumerate(lines):
                o = json.loads(l)
                if o.get("done") and o["done"][0]["ok"] and j > 50:
                    o["done"][0]["f"]["q"] = o["done"][0]["f"]["q"] % 5 + 1
                    lines[j] = json.dumps(o)
                    break
            open(bad, "w").write("\n".join(lines) + "\n")
            ok3, _, _ = _validate(ctx, bad, "trace-selftest")
            ctx.selftest("corrupted trace is rejected by Trace_ClientStream", not ok3)
    # the recorded runs are meant to be large; on a tree that already shows a
    # violation (connections may break early there) this is not a tool error
    if best_conc < 40 and not ctx.violations:
        raise vlib.ToolError("no recorded run had 40 concurrent requests")


def run(ctx):
    thorough = ctx.tier == "thorough"
    ctx.build("replay_client", "record_client")
    _stream_model(ctx, thorough)
    _dgram_model(ctx, thorough)
    _replay(ctx, thorough)
    _flow(ctx, thorough)
    _compose(ctx, thorough)
    _multi_fine(ctx, thorough)
    _config(ctx, thorough)
    _balance(ctx, thorough)
    _traces(ctx, thorough)
    ctx.extra = {"config_setters_value_classes": ctx.config_classes}
    ctx.assume("the peer's messages come from a finite alphabet (per ID and question: answer, error with question, header-only with/without error code, error with empty question but records, query, answer with edns-tcp-keepalive); a message shorter than a header, EOF between and inside frames, and a peer that stops reading end the stream")
    ctx.assume("time is a tick counter; one tick = 10 s of virtual time in the harness; the code's `elapsed > response_timeout` is decided on whole ticks by configuring RT ticks minus half a tick")
    ctx.assume("std::time::Instant (used by net::client::stream) is driven by interposing clock_gettime(CLOCK_MONOTONIC) in the harness executables, in lock step with tokio's paused clock")
    ctx.assume("errors are compared as a class (ok / error), not by value")
    ctx.assume("dgram: successive attempts draw different random IDs (a case in which they collide is re-run)")
    ctx.assume("multi_stream back-off (random, below 2^n s, at most 60 s) is shorter than one tick (100 s for multi_stream cases; 10 s and at most three failures for dgram_stream cases), so a Delay ends with the next tick; on the 10 ms clock of the connection-failure cases (ticks far shorter than the back-off) a state in which a request is in its back-off with more than one tick to go is not expanded: when the back-off ends is then not determined, that the request completes on time is")
    ctx.assume("fine clock (MC_ClientMulti / Trace_ClientMulti): time moves in ticks only, so every pause starts at a tick boundary; a pause of d < B ends with tick ceil(d / tick) <= ceil(B / tick); retry_time never yields exactly zero")
    ctx.assume("balancers: every upstream that is asked hands back one result (assume/guarantee); which usable upstream is tried next and after how many ticks the probe timer fires is left open")
    ctx.assume("no caller drops a single-response request future before it resolves (dropping a multi-response request mid-stream is covered by ClientFlow)")
    ctx.assume("zone transfers: later messages of a transfer are matched by ID only (check_stream checks neither QR nor the question after the first SOA); the spec states the same")
