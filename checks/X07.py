"""X07 — whole-zone signing: sign_zone = SortedRecords o Denial o Rrsig, and its
closure with the validator (spec/ZoneSigner.tla, spec/SortedRecords.tla)."""
import json
import os

import vlib

SIGN_ACTIONS = ["GenDenial", "StartPass", "OwnerEnd", "OwnerBreak", "OwnerSkip", "OwnerVisit",
                "RrsetSkip", "RrsetSign", "RrsetRefuse", "Extend"]
SORTED_ACTIONS = ["Init", "DoFrom", "DoExtend", "DoInsert", "DoRemoveFirst", "DoRemoveAll", "DoUpdateData"]
D_INTO = "D_sign_into_skips_zone"

PROPERTIES = [
    "X07.1 SignedSet: after sign_zone an RRset carries RRSIGs iff it is authoritative per RFC 4035 2.2 (owner in the zone and not below a cut; at a cut only DS and NSEC; not RRSIG; the generated NSEC/NSEC3/NSEC3PARAM RRsets included; apex DNSKEY/CDS/CDNSKEY left to the caller as documented), exactly one RRSIG per key per such RRset, with type covered, labels (wildcard label not counted), original TTL = RRSIG TTL = RRset TTL, signer = key owner = apex, key tag / algorithm of the key, inception / expiration of the configuration.",
    "X07.2 NothingElse: the generated records are exactly the denial records and those RRSIGs; in place the collection afterwards is the input plus the generated records; signed into another collection the input is untouched and input + output is the same signed zone.",
    "X07.3 OrderIndependence: the signed zone is a function of the zone's content, not of the order or the way (From<Vec>, extend, insert, collect) the collection was assembled.",
    "X07.4 Closure: every RRSIG produced verifies with RrsigExt::verify_signed_data against the key's DNSKEY, and honest answers drawn from the signed zone (every signed RRset, DS at delegations, an NSEC NODATA answer) validate Secure in ValidationContext.",
    "X07.5 Refusal: expiration earlier than inception in RFC 1982 order is refused with an error, no RRSIG is produced, the original records are intact.",
    "X07.6 SortedRecords is an ordered set: for every sequence of From<Vec>/collect/extend/insert/remove_first/remove_all/update_data calls the content is the strictly ascending canonical-order sequence of the records the calls denote; a refused duplicate insert hands the record back and changes nothing; owner_rrs()/rrsets() yield each owner / each (owner, type) exactly once and complete; no call on a collection built through the public interface panics.",
]

META = {
    "category": "model_checking",
    "text": "ZoneSigner.tla (extending Denial.tla, instancing Rrsig.tla) states which RRsets of a zone plus its generated denial records must carry RRSIGs (RFC 4035 2.2 over Denial.tla's cut / authoritative-name view) and with which fields (Rrsig.tla SignerFields, RFC 4034 App. B key tag computed by TLC), and transcribes sign_zone around the single pass of sign_sorted_zone_records as a machine with one action per owner group (break out of zone / skip below the cut / visit and set `cut`) and one per RRset (sign / skip / refuse). TLC decides over every zone of apex + up to 2 (thorough 3) further owner names out of 11 spelled names (case variants of one owner, a wildcard, names below a name that may be a delegation - one spelled in another case -, an occluded wildcard, a name two levels below, a name below a never-owned name, names outside the zone before and after it) x 6 (thorough 9) type sets (data, CNAME, insecure / secure delegation, delegation with an address at the cut, DS without NS, DNSKEY/CDS away from the apex) plus hand-picked larger zones, x none / NSEC / NSEC3 / NSEC3 opt-out (uninterpreted hash, hash labels interleaving with the zone's names) x in place / into another collection x 1-2 keys x validity periods around the 32-bit wrap, that pass = oracle at the end and a prefix of it at every step, that `cut` is set exactly at delegations, RFC 4035 consequences stated independently (nothing below a cut, delegation NS unsigned, DS and every NSEC(3) signed, wildcard label count), that every authoritative RRset has an RRSIG acceptable under RFC 4035 5.3.1 per key, and refusal. Every explored (zone, configuration) is replayed into the real sign_zone (SignableZone / SignableZoneInPlace on SortedRecords, recording SignRaw keys with the model's key octets) comparing the full list of (owner, type covered, labels, TTL, original TTL, signer, algorithm, key tag, inception, expiration, key), the denial records (NSEC3 owners mapped back through independently evaluated iterated SHA-1 terms) and the untouched remainder, from two assemblies of the collection; a third of the cases are signed again with real Ed25519 keys, every RRSIG verified with verify_signed_data and every RRset the oracle says is signed put to the real validator. SortedRecords.tla models the collection as an ordered-set machine (insert, extend, From<Vec>, collect, remove_first, remove_all, update_data, the three iterators, find_soa, find_apex_rtype); all call sequences of length 3 (thorough 4) over records with case / TTL variants are replayed op by op. I->S: seeded random zones of 50-300 records with ~23 record types signed by the real code with real keys and random call sequences on a collection are validated by Trace_ZoneSigner.tla / Trace_SortedRecords.tla.",
    "note": "Extension (not in properties.jsonl). Properties: " + " | ".join(PROPERTIES) + " Open findings: D_sign_into_skips_zone (SignableZone::sign_zone / SignableZoneInOut::SignInto signs only the generated NSEC(3) records, the zone's own RRsets get no RRSIG: zone + out is not a signed zone, the validator calls its answers Bogus), D_update_data_in_place (SortedRecords::update_data leaves the record where it was although the data is part of the sort key: unsorted collection, later insert admits duplicates), D_remove_first_is_last (remove_first_by_name_class_rtype removes the last matching record), D_mixed_ttl_panic (sign_zone / rrsets() panic on an RRset with differing TTLs that insert/extend accept; SigningError::MultipleTtlValues is never returned). Trusted: TLC, ring, the transcription of RFC 4034/4035, Denial.tla / Rrsig.tla (C13 / C12). Zones have one SOA, class IN, uniform TTL per RRset (RFC 2181 5.2), are sorted and unsigned as sign_zone's documentation requires; occlusion by DNAME is not modelled (nor implemented); signed octets are C12's subject; wildcard owners and NSEC3 RRsets are not put to the validator; which of two records differing only in owner case survives extend() is compared case-insensitively. TLC's -coverage is too slow on ZoneSigner.tla: the vacuity guard is an action log carried by the model itself.",
    "technique": "TLA+ specs (ZoneSigner.tla, SortedRecords.tla) + TLC exhaustive; spec->impl case / behaviour replay with real verification and validator; impl->spec trace validation",
    "design_ref": "DESIGN.md §8 (Dnssec: SigningConfig end-to-end, sign_zone = Denial o Rrsig)",
}

REPLAY_BIN = "replay_zonesigner"


def _head(src, dst, n):
    with open(src) as f, open(dst, "w") as g:
        for i, line in enumerate(f):
            if i >= n:
                break
            g.write(line)


def _acts(ctx, res, what):
    seen = {}
    for a in res.tagged.get("ACTS", []):
        if isinstance(a, list):
            for x in a:
                seen[x] = seen.get(x, 0) + 1
    missing = [a for a in SIGN_ACTIONS if a not in seen]
    if missing:
        raise vlib.ToolError("vacuity (%s): actions never taken: %s" % (what, missing))
    for a, n in seen.items():
        od, og = ctx.coverage_actions.get(a, (0, 0))
        ctx.coverage_actions[a] = (od + n, og + n)   # behaviours in which the action occurred


def run(ctx):
    thorough = ctx.tier == "thorough"
    ctx.build("replay_zonesigner", "record_zonesigner")
    devs = ",".join(sorted(ctx.open_devs))

    # ---- ZoneSigner: model checking + case generation in one run
    cases = os.path.join(ctx.work, "sign-cases.ndjson")
    mc = ctx.tlc("MC_ZoneSigner", "MC_ZoneSigner_thorough" if thorough else "MC_ZoneSigner", workers=8,
                 coverage=False, label="mc+gen-zonesigner", cases_to=cases, timeout=6000, xmx="8g")
    ctx.require_ok(mc, "MC_ZoneSigner")
    _acts(ctx, mc, "MC_ZoneSigner")
    ctx.exhaustive_flags.append(True)
    if mc.ncases < 3000:
        raise vlib.ToolError("ZoneSigner generator produced too few cases (%d)" % mc.ncases)
    # the finding as a counterexample of the specification with the deviation switched on
    dv = ctx.tlc("MC_ZoneSigner", "MC_ZoneSigner_dev", workers=4, coverage=False, count=False,
                 label="dev-" + D_INTO, expect_violation="IntoSignsWholeZone")
    ctx.require_ok(dv, "MC_ZoneSigner with %s must violate IntoSignsWholeZone" % D_INTO)
    if thorough:
        ab = ctx.tlc("MC_ZoneSigner", "MC_ZoneSigner_asbuilt", workers=8, coverage=False,
                     label="mc-asbuilt", timeout=3000)
        ctx.require_ok(ab, "MC_ZoneSigner as built")
    head = os.path.join(ctx.work, "head.ndjson")
    _head(cases, head, 20)
    rc, out, err, _ = ctx.run_bin("replay_zonesigner", ["--selftest-perturb", "--open-devs", devs], stdin_path=head)
    ctx.selftest("perturbed expectation is reported by replay_zonesigner", "FAIL " in out)
    ctx.replay_cases("replay_zonesigner", cases, label="zonesigner")

    # ---- SortedRecords: every call sequence
    scases = os.path.join(ctx.work, "sorted-cases.ndjson")
    sm = ctx.tlc("MC_SortedRecords", "MC_SortedRecords_thorough" if thorough else "MC_SortedRecords",
                 workers=8, label="mc+gen-sortedrecords", cases_to=scases, timeout=3000)
    ctx.require_ok(sm, "MC_SortedRecords")
    ctx.require_actions(sm, SORTED_ACTIONS)
    ctx.exhaustive_flags.append(True)
    if sm.ncases < 10000:
        raise vlib.ToolError("SortedRecords generator produced too few behaviours (%d)" % sm.ncases)
    for cfg, inv in (("MC_SortedRecords_dev_update", "Canonical"),
                     ("MC_SortedRecords_dev_remove", "SetSemantics"),
                     ("MC_SortedRecords_dev_ttl", "NoPanic")):
        r = ctx.tlc("MC_SortedRecords", cfg, workers=2, coverage=False, count=False,
                    label=cfg.replace("MC_SortedRecords_", ""), expect_violation=inv)
        ctx.require_ok(r, "%s must violate %s" % (cfg, inv))
    ctx.replay_cases("replay_zonesigner", scases, label="sortedrecords")

    # ---- I->S
    tcfg = "Trace_ZoneSigner_dev" if D_INTO in ctx.open_devs else "Trace_ZoneSigner"
    n_traces = 4 if thorough else 2
    for i in range(n_traces):
        tr = os.path.join(ctx.work, "trace-zones-%d.ndjson" % i)
        rc, out, err, _ = ctx.run_bin("record_zonesigner", ["zones", tr, str(ctx.seed * 100 + i),
                                                            "14" if thorough else "7", "50", "300"])
        if rc != 0:
            raise vlib.ToolError("record_zonesigner zones failed: " + err[-800:])
        ok, res, rej = ctx.validate_trace("Trace_ZoneSigner", tcfg, tr, label="trace-zones-%d" % i)
        ctx.traces += 1
        if not ok:
            ctx.violation("a zone signed by sign_zone is not the signed zone ZoneSigner.tla defines "
                          "(VERIF_SEED=%d, record_zonesigner zones seed %d)" % (ctx.seed, ctx.seed * 100 + i), rej)
        if i == 0:
            lines = open(tr).read().splitlines()
            bad = os.path.join(ctx.work, "trace-zones-bad.ndjson")
            for j, l in enumerate(lines):
                o = json.loads(l)
                if o["ev"] == "sign" and len(o["sigs"]) > 3:
                    del o["sigs"][2]
                    lines[j] = json.dumps(o)
                    break
            open(bad, "w").write("\n".join(lines) + "\n")
            ok2, _, _ = ctx.validate_trace("Trace_ZoneSigner", tcfg, bad, label="trace-zones-selftest")
            ctx.selftest("trace with one RRSIG removed is rejected by Trace_ZoneSigner", not ok2)
    for i in range(2 if thorough else 1):
        tr = os.path.join(ctx.work, "trace-sorted-%d.ndjson" % i)
        rc, out, err, _ = ctx.run_bin("record_zonesigner", ["sorted", tr, str(ctx.seed * 100 + 50 + i),
                                                            "600" if thorough else "300"])
        if rc != 0:
            raise vlib.ToolError("record_zonesigner sorted failed: " + err[-800:])
        ok, res, rej = ctx.validate_trace("Trace_SortedRecords", "Trace_SortedRecords", tr,
                                          label="trace-sorted-%d" % i)
        ctx.traces += 1
        if not ok:
            ctx.violation("a recorded SortedRecords call is not the operation SortedRecords.tla defines "
                          "(record_zonesigner sorted seed %d)" % (ctx.seed * 100 + 50 + i), rej)
        if i == 0:
            lines = open(tr).read().splitlines()
            bad = os.path.join(ctx.work, "trace-sorted-bad.ndjson")
            for j, l in enumerate(lines):
                o = json.loads(l)
                if len(o["after"]) > 3:
                    o["after"][1], o["after"][2] = o["after"][2], o["after"][1]
                    lines[j] = json.dumps(o)
                    break
            open(bad, "w").write("\n".join(lines) + "\n")
            ok2, _, _ = ctx.validate_trace("Trace_SortedRecords", "Trace_SortedRecords", bad,
                                           label="trace-sorted-selftest")
            ctx.selftest("trace with two records swapped is rejected by Trace_SortedRecords", not ok2)

    ctx.assume("zones are sorted and unsigned as the documentation of sign_zone requires, have one SOA at the apex, class IN, one TTL per RRset; no DNAME occlusion")
    ctx.assume("the NSEC3 hash is uninterpreted in the model (three hash orders, hash labels interleaving with the zone's names); real SHA-1 order enters through the replay and the traces")
    ctx.assume("validator closure: wildcard owners and NSEC3 RRsets are not asked for; one NODATA probe per NSEC zone")
    ctx.extra = {"rule": "one case per explored (zone, denial mode, calling convention) resp. per call sequence; all distinct by construction (TLC fingerprints)",
                 "distinct_nontrivial": mc.ncases + sm.ncases}
