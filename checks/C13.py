"""C13 — generated NSEC / NSEC3 chains (spec/Denial.tla)."""
import json
import os
import vlib

ACTIONS = ["Init", "RunNsec", "RunNsec3", "RunNsec3Params", "RunBad", "BmAddType",
           "CfgStart", "CfgCall", "RunNsec3Flags"]

META = {
    "category": "model_checking",
    "text": "Denial.tla defines the NSEC and NSEC3 chains of a zone declaratively (authoritative names, cut rule, empty non-terminals, opt-out, cyclic successor over canonical / hash order) and transcribes the single-pass generators generate_nsecs / generate_nsec3s (cut, prev, ENT stack) and the RtypeBitmapBuilder; TLC checks over all zones of apex + up to 2 further owner names from 13 (quick) / 17 (thorough) spelled names and 4 / 5 type sets (case variants, wildcards, delegations with glue, occluded data, shared ENTs, names outside the zone) plus hand-picked larger zones that pass = declarative chain, the chain is closed, and every absent (name, type) has a proof; every explored zone and add-sequence is replayed into the real generators and bitmap builder, NSEC3 owner hashes are matched against independently evaluated iterated SHA-1 terms and hash order / closure checked on those; MC_ZoneBuild.tla models the workflow on one SortedRecords collection (assembly by From<Vec> / extend / insert in batches that repeat records, generate, extend with the generated NSECs, generate again: the collection stays the sorted duplicate-free content and the chain a function of it); limit shapes (255-octet owner names, 220-222-octet apex names) and every order of the GenerateNsec3Config setters are part of the replayed cases; the Flags octet of the NSEC3 parameters is an input (Denial.tla part 5: Opt-Out is the least significant BIT whatever the other seven bits are, the octet is copied verbatim into every NSEC3 RR, opt_out_flag / opt_out / set_opt_out_flag transcribed with their masks and checked against the bit for all 256 values, the configuration as a machine new(params) -> setter calls -> generator with the decision GenExcludes, OptOutConsistent: what the RRs advertise agrees with what the chain leaves out): every value 0..255 x every setter script on a zone with an ENT leading only to an insecure delegation, a secure delegation, glue and a wildcard (edge values on a second zone) is replayed into generate_nsec3s, the accessor pair and the setter are replayed for all 256 values through every route to an Nsec3param / Nsec3 (constructor, wire, octets conversion, serde, ZoneRecordData, with_opt_out()); recorded zones start from a random Flags octet and TLC recomputes the configuration from the recorded setter calls; recorded chains for random larger zones are validated by TLC.",
    "note": "Trusted: TLC, ring SHA-1, the transcription of RFC 4034/4035/5155/9077 in Denial.tla. The NSEC3 hash is uninterpreted in the model (a few hash orders per zone); real hash order enters through the replay and the recorded traces. Occlusion by DNAME is not modelled. Owner-name case of generated records is compared case-insensitively. Every NSEC3 RR is expected to carry the configured Flags octet verbatim (undefined bits included: the library documents params as the caller's settings and does not clear them). The NSEC3PARAM RR may carry either 0 (RFC 5155 4.1.2) or the configured octet (what the library returns): both are admitted, its opt_out_flag() must be the bit of what it carries.",
    "technique": "TLA+ spec (Denial.tla) + TLC exhaustive; spec->impl case replay with symbolic hash terms; impl->spec trace validation",
    "design_ref": "DESIGN.md §4 C13",
}


def run(ctx):
    thorough = ctx.tier == "thorough"
    ctx.build("replay_denial", "record_denial")
    # model checking and case generation are one TLC run (the Emit invariants
    # print one case per explored zone / configuration)
    cases = os.path.join(ctx.work, "cases.ndjson")
    mc = ctx.tlc("MC_Denial", "MC_Denial_thorough" if thorough else "MC_Denial", workers=8,
                 label="mc+gen", cases_to=cases, timeout=3000)
    ctx.require_ok(mc, "MC_Denial")
    ctx.require_actions(mc, ACTIONS)
    ctx.exhaustive_flags.append(True)
    if mc.ncases < 1000:
        raise vlib.ToolError("generator produced too few cases")
    head = os.path.join(ctx.work, "head.ndjson")
    with open(cases) as f, open(head, "w") as g:
        for i, line in enumerate(f):
            if i >= 20:
                break
            g.write(line)
    rc, out, err, _ = ctx.run_bin("replay_denial", ["--selftest-perturb"], stdin_path=head)
    ctx.selftest("perturbed expectation is reported by replay_denial", "FAIL " in out)
    ctx.replay_cases("replay_denial", cases, label="denial")
    # the sign-zone workflow as a machine over one SortedRecords collection
    wcases = os.path.join(ctx.work, "zonebuild-cases.ndjson")
    wf = ctx.tlc("MC_ZoneBuild", "MC_ZoneBuild", workers=4, label="mc-zonebuild", cases_to=wcases)
    ctx.require_ok(wf, "MC_ZoneBuild")
    ctx.require_actions(wf, ["Init", "BuildFrom", "BuildExtend", "BuildInsert", "GenExtend", "Gen",
                             "RemoveAll", "RemoveFirst", "UpdateData", "StripNsecs"])
    if wf.ncases < 20:
        raise vlib.ToolError("workflow model produced too few behaviours")
    ctx.replay_cases("replay_denial", wcases, label="zonebuild")
    # I->S
    n_traces = 4 if thorough else 2
    for i in range(n_traces):
        tr = os.path.join(ctx.work, "trace-%d.ndjson" % i)
        rc, out, err, _ = ctx.run_bin("record_denial", [tr, str(ctx.seed * 100 + i),
                                                         "25" if thorough else "12",
                                                         "60" if thorough else "30"])
        if rc != 0:
            raise vlib.ToolError("record_denial failed: " + err[-500:])
        ok, res, rej = ctx.validate_trace("Trace_Denial", "Trace_Denial", tr, label="trace-%d" % i)
        ctx.traces += 1
        if not ok:
            ctx.violation("recorded NSEC/NSEC3 chain is not the chain Denial.tla defines", rej)
        if i == 0:
            bad = os.path.join(ctx.work, "trace-bad.ndjson")
            lines = open(tr).read().splitlines()
            for j, l in enumerate(lines):
                o = json.loads(l)
                if o["ev"] == "zone" and len(o["nsec"]) > 1:
                    o["nsec"][1]["types"] = o["nsec"][1]["types"][:-1]
                    lines[j] = json.dumps(o)
                    break
            open(bad, "w").write("\n".join(lines) + "\n")
            ok2, _, _ = ctx.validate_trace("Trace_Denial", "Trace_Denial", bad, label="trace-selftest")
            ctx.selftest("corrupted trace is rejected by Trace_Denial", not ok2)
    ctx.assume("zones have one SOA at the apex, class IN, no DNAME; types A NS SOA TXT DS DNSKEY CAA (+AAAA MX SRV in recorded zones)")
    ctx.assume("model explores 2 (quick) / 4 (thorough) hash orders per zone; real SHA-1 order is exercised by replay and traces")
