"""C06 — records written in presentation format read back equal
(spec/Presentation.tla composed with the reader of spec/ZoneFile.tla)."""
import json
import os
import vlib

META = {
    "category": "model_checking",
    "text": "Presentation.tla transcribes the writer (Display for Label/Name, CharStr::display_quoted, the ZonefileFmt and fmt::Display forms of Record and of TXT, HINFO, NS/CNAME/PTR/DNAME, MX and RFC 3597 generic data, the Simple / Tabbed / MultiLine FormatWriters with block parentheses and comments) and composes it with the reader machine of ZoneFile.tla; TLC checks Read(Render(Write(r, kind))) = <<r>> for every record of a field-kind grid over the 15 escape-relevant octets (labels and strings up to length 2 quick / 3 thorough, empty strings, root and multi-label names, classes, TTL bounds, generic data), all four forms, with and without origin (12.7k quick). Every such case is executed on the real library in both directions: the library's own text read back by zonefile::inplace::Zonefile must equal the record, and the specification writer's text must read back equal too; a grid over a hand-assembled wire RDATA table of 33 record types (A ... SVCB/HTTPS, ZONEMD, unknown) x variants x four forms x origin is executed with the round-trip law as expectation; recorded runs on random records (all 256 octet values, labels to 63, strings to 255 octets) are validated by TLC: the specification's reader, given the library's text, must return what the library's reader returned, and that must be the record written.",
    "note": "Trusted: TLC, the transcriptions in Presentation.tla / ZoneFile.tla, the harness. The library's text is not compared literally (spacing and escape style are free); both texts are compared through the readers. Per-type field layouts are not modelled here (Rdata.tla, C05): the type sweep uses hand-assembled wire data and states only the round-trip law; its deviation guards are grid cells. Records are compared with the library's own equality (names case-insensitively) plus class and TTL. Six writer defects are modelled as named deviations (known findings); the reader's (C07) are taken into account when predicting a misreading.",
    "technique": "TLA+ spec (Presentation.tla + ZoneFile.tla) + TLC exhaustive; spec->impl case replay in both directions; impl->spec trace validation",
    "design_ref": "DESIGN.md §4 C06",
}


def _reader_devs():
    """deviations of the reader (property C07) that are open today"""
    try:
        kf = json.load(open(vlib.KNOWN))
    except Exception:
        return []
    return sorted(e["deviation"] for e in kf.get("open", []) if e.get("property") == "C07")


def _groups_from_cases(ctx, res, path):
    """vacuity guard: every field-kind group of the grid produced cases
    (TLC's -coverage does not terminate on ZoneFile.tla)"""
    counts = {}
    with open(path) as f:
        for line in f:
            i = line.find('"grp":"')
            if i >= 0:
                a = line[i + 7:line.index('"', i + 7)]
                counts[a] = counts.get(a, 0) + 1
    for a, n in counts.items():
        res.coverage[a] = (n, n)
        od, og = ctx.coverage_actions.get(a, (0, 0))
        ctx.coverage_actions[a] = (od + n, og + n)


GROUPS = ["owner1", "owner2", "txt", "hinfo", "name", "mx", "generic", "ctt"]


def run(ctx):
    thorough = ctx.tier == "thorough"
    suffix = "_thorough" if thorough else ""
    ctx.build("replay_present", "record_present")

    # 1. the composed specification satisfies Read(Write(r)) = r ------------
    mc = ctx.tlc("MC_Presentation", "MC_Presentation" + suffix, workers=8, label="mc", coverage=False)
    ctx.require_ok(mc, "MC_Presentation")
    ctx.exhaustive_flags.append(True)
    d = ctx.tlc("MC_Presentation", "MC_Presentation_dev", workers=4, label="mc-dev", coverage=False,
                expect_violation="ReadEqualsWritten", count=False)
    ctx.require_ok(d, "MC_Presentation_dev (expected counterexample: writer escape set vs reader specials)")

    # 2. S->I: field-kind grid, both directions ------------------------------
    cases = os.path.join(ctx.work, "cases.ndjson")
    gen = ctx.tlc("MC_Presentation", "Gen_Presentation" + suffix, workers=8, label="gen",
                  coverage=False, cases_to=cases, count=False)
    ctx.require_ok(gen, "Gen_Presentation")
    if gen.ncases < 5000:
        raise vlib.ToolError("generator produced too few cases")
    _groups_from_cases(ctx, gen, cases)
    ctx.require_actions(gen, GROUPS)
    head = os.path.join(ctx.work, "head.ndjson")
    with open(cases) as f, open(head, "w") as g:
        for i, line in enumerate(f):
            if i >= 50:
                break
            g.write(line)
    rc, out, err, _ = ctx.run_bin("replay_present", ["--selftest-perturb"], stdin_path=head)
    ctx.selftest("perturbed expectation is reported by replay_present", "FAIL " in out)
    ctx.replay_cases("replay_present", cases, label="fields")

    # type sweep
    types = os.path.join(ctx.work, "types.ndjson")
    rc, out, err, _ = ctx.run_bin("replay_present", ["--types"])
    if rc != 0 or not out.strip():
        raise vlib.ToolError("replay_present --types failed")
    open(types, "w").write(out)
    tcases = os.path.join(ctx.work, "cases-types.ndjson")
    gt = ctx.tlc("Gen_PresentTypes", "Gen_PresentTypes", workers=2, label="gen-types", coverage=False,
                 cases_to=tcases, count=False, env={"TYPES": types})
    ctx.require_ok(gt, "Gen_PresentTypes")
    if gt.ncases < 500:
        raise vlib.ToolError("type grid too small")
    ctx.replay_cases("replay_present", tcases, label="types")

    # 3. I->S ------------------------------------------------------------------
    n_traces = 4 if thorough else 2
    n_rec = 1200 if thorough else 400
    devs = ",".join(sorted(set(ctx.open_devs) | set(_reader_devs())))
    for i in range(n_traces):
        tr = os.path.join(ctx.work, "trace-%d.ndjson" % i)
        rc, out, err, _ = ctx.run_bin("record_present", [tr, str(ctx.seed * 100 + i), str(n_rec),
                                                         "--open-devs", devs])
        if rc != 0 or "RECORDED " not in out:
            raise vlib.ToolError("record_present failed: " + (out + err)[-500:])
        rec = json.loads(out[out.index("RECORDED ") + 9:].splitlines()[0])
        ctx.evaluations += rec["events"]
        ctx.stage("record-%d" % i, rec)
        ok, res, rej = ctx.validate_trace("Trace_Presentation", "Trace_Presentation", tr, label="trace-%d" % i)
        ctx.traces += 1
        for t in res.tagged.get("TRACE_DEV", []):
            if isinstance(t, dict):
                for dname in t.get("devs", []):
                    ctx.known(dname, {"kind": t.get("kind"), "text": t.get("text")})
        if not ok:
            ctx.violation("recorded write/read run is not explained by Presentation.tla", rej)
        if i == 0:
            bad = os.path.join(ctx.work, "trace-bad.ndjson")
            lines = open(tr).read().splitlines()
            done = False
            for j, l in enumerate(lines):
                o = json.loads(l)
                if o["ev"] == "rt" and o.get("eq") and o["rec"]["rtype"] == 16:
                    # the library claims it read back a different TTL
                    o["res"]["entries"][0]["ttl"] = (o["res"]["entries"][0]["ttl"] + 1) % 1000
                    lines[j] = json.dumps(o)
                    done = True
                    break
            if not done:
                raise vlib.ToolError("no event to corrupt for the trace self-test")
            open(bad, "w").write("\n".join(lines) + "\n")
            ok2, _, _ = ctx.validate_trace("Trace_Presentation", "Trace_Presentation", bad, label="trace-selftest")
            ctx.selftest("corrupted trace is rejected by Trace_Presentation", not ok2)
    ctx.assume("escape-relevant alphabet: NUL SP \" $ ( ) . ; @ \\ 0 a A DEL 0xFF")
    ctx.assume("every form is made a line by appending LF (the writers do not end the line); default class unset, origin absent or ex./example.")
    ctx.assume("texts are compared through the readers, not literally")
    ctx.assume("type sweep: hand-assembled wire RDATA per type; only the round-trip law is stated for it")
