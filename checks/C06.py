"""C06 — records written in presentation format read back equal
(spec/Presentation.tla composed with the reader of spec/ZoneFile.tla)."""
import json
import os
import vlib

META = {
    "category": "model_checking",
    "text": "Presentation.tla transcribes the writer (Display for Label/Name, CharStr::display_quoted / display_unquoted, the ZonefileFmt and fmt::Display forms of Record and of TXT, HINFO, NS/CNAME/PTR/DNAME, MX and RFC 3597 generic data, the Simple / Tabbed / MultiLine FormatWriters with block parentheses, comments and newline()) and composes it with the reader machine of ZoneFile.tla; TLC checks Read(Render(Write(r, kind))) = <<r>> for every record of a field-kind grid over the 15 escape-relevant octets (labels and strings up to length 2 quick / 3 thorough, empty strings, root and multi-label names, classes, TTL bounds and unit multiples, generic data), all four forms, with and without origin (12.8k quick), the same law through the token route (record data as a token list read by the record-data scanners: IterScanner) and for label / character-string texts on their own (OwnedLabel::from_str, CharStr::from_str). Restricted-alphabet token fields: Presentation.tla has field kinds (CAA tag, u8 / u16 scanned digit by digit, IANA integers read by str::parse, type mnemonics / TYPEnnn, NSEC3 salt, hex data) with FieldAlphabet / Admitted(kind, v) = what the constructors and the wire parser admit, FieldWrite / FieldRead, and the law FieldRead(FieldWrite(v)) = v over everything admitted; carrier records (CAA, NSEC, TLSA, NSEC3PARAM, MX) take the fields through the whole-record and token-route laws at the boundary characters ('A' 'Z' 'a' 'z' '0' '9', tags to length 2 quick / 3 thorough and longer mixed-case ones) and boundary values (ends of the range, changes of the digit count, every type mnemonic and TYPEnnn next to them); for CAA, which the reader of ZoneFile.tla abstains on, a line reader built from its tokenizer, scan_ctr, scan_name and the field readers; values just outside an alphabet are cases too (expectation: the constructors refuse them). Names at the length limits (PresentLimits.tla: the label-length shape family of the name checks -- three 63-octet labels and a rest, runs of one-octet labels, a 63-octet first / last label -- as names of Names.tla, judged by its ValidAbs): absolute names of 255 (quick) and 253 / 254 / 255 (thorough) wire octets as owner and inside NS / DNAME, MX, NSEC, SOA (mname, rname) and RRSIG (signer) data go through the whole-record law, the token route and the label-text law in all four forms; the same names spelled relative to the origin (they reach the limit only with the origin's labels appended) must read back equal (RelativeReadsEqual); names of 256 / 257 octets are outside the domain: the specification's text must be refused by the reader (TooLongRefused) and no constructor route may build the record. 32-bit fields: field kind u32 (a value is its four octets, decimal text by long division on 16-bit limbs, reader with checked multiplication), carriers SOA (serial, refresh, retry, expire, minimum) and RRSIG (original TTL, expiration, inception, plus type covered, algorithm, labels, key tag, Base 64 signature) with a line reader of their own (the reader of ZoneFile.tla abstains from 2^31 on), at 0, 1, 9 / 10, 99999 / 100000, 999999999 / 10^9, 2^31 - 1, 2^31, 2^31 + 1, 2^32 - 2, 2^32 - 1 in every field. Zones: MC_PresentZone.tla is a state machine that writes a zone record by record (a writer per record with a kind of its own, or all records through one FormatWriter with newline() between them) and reads the file so far with a configured reader (origin, set_default_class, allow_invalid) after every step; invariant: every record comes back in order, whatever class / TTL / owner the reader remembers from earlier entries, except that the strict reader ends at the first record of another class (RFC 1035 5.2); 8.7k states quick (2 records), 3 records thorough. Every case of both grids is executed on the real library in both directions (the library's text and the specification's text are read back); a grid over a hand-assembled wire RDATA table of 33 record types (A ... SVCB/HTTPS incl. dohpath / ohttp, ZONEMD, unknown) x variants x four forms x origin is executed with the round-trip law as expectation, also through the token route. Every case carries one combination of alias routes: how the record is built (Record::new, From tuples, set_class, RecordHeader::into_record, Record::parse with RecordHeader::compose), how its data is built (wire, typed constructors incl. Txt::from_octets / from_slice / parse_rdata, CharStr / Txt / SvcParams builders with the typed SvcParam methods and getters, OctetsFrom), which type is written (ZoneRecordData, AllRecordData, a reference, parsed names, a FormatWriter of the harness) and how the reader is set up (From<&[u8]>, From<&str>, load, BufMut, extend_from_slice, Default + reserve). Recorded runs on random records (all 256 octet values, labels to 63, strings to 255 octets) and random zones (2-5 records, mixed or uniform classes, random reader configuration and constructor) are validated by TLC: the specification's reader, given the library's text, must return what the library's reader returned, and that must be what was written.",
    "note": "Trusted: TLC, the transcriptions in Presentation.tla / ZoneFile.tla, the harness (incl. its cutting of the library's tokens into words for the token route of the type sweep). The library's text is not compared literally (spacing and escape style are free); both texts are compared through the readers. Per-type field layouts are not modelled here (Rdata.tla, C05): the type sweep uses hand-assembled wire data and states only the round-trip law; its deviation guards are grid cells. Records are compared with the library's own equality (names case-insensitively) plus class and TTL; zone outcomes are compared entry by entry on wire forms. The strict reader's same-class check is taken from the reader's documentation / ZoneFile.tla. The token route does not offer SvcParams (Scanner::scan_svcb_octets is documented as implemented by some scanners only). Admitted(kind, v) is bound to the library by building every carrier record both from its wire form and through the typed constructors (CaaTag::new / from_octets / from_slice, Caa::new, Tlsa::new, Nsec3param::new, Nsec3Salt::from_octets, RtypeBitmapBuilder); a value the specification does not admit but the library does is only reported when the round trip fails for it. The record TTL column reaches 2^31 - 1 only (TLC integers are 32 bit; the u32 field kind covers the fields inside SOA / RRSIG data over the whole range); names at the limits are bound for the record types Presentation.tla models (owner, NS / CNAME / PTR / DNAME, MX, NSEC, SOA, RRSIG), not for the other name-bearing types of the type sweep (SRV, NAPTR, SVCB, MINFO ...: they share Scanner::scan_name and ToName::fmt_with_dot); SVCB keyNNNNN, NAPTR / HINFO strings, algorithm numbers of DNSKEY / DS / RRSIG are covered by the type sweep and the character-string grid, not as field kinds. Eight defects are modelled as named deviations (known findings), among them D_caa_empty_tag (the constructors admit the empty CAA tag, which is written as nothing) and D_iterscanner_marker (IterScanner could not read the RFC 3597 generic form; fixed); the reader's (C07) are taken into account when predicting a misreading.",
    "technique": "TLA+ spec (Presentation.tla + ZoneFile.tla; MC_Presentation field grid, MC_PresentZone zone state machine) + TLC exhaustive; spec->impl case replay in both directions over alias routes; impl->spec trace validation (records and zones)",
    "design_ref": "DESIGN.md §4 C06",
}


def _reader_devs():
    """deviations of the reader (property C07) that are open today"""
    try:
        kf = json.load(open(vlib.KNOWN))
    except Exception:
        return []
    return sorted(e["deviation"] for e in kf.get("open", []) if e.get("property") == "C07")


def _groups_from_cases(ctx, res, path):
    """vacuity guard: every field-kind group of the grid produced cases
    (TLC's -coverage does not terminate on ZoneFile.tla)"""
    counts = {}
    with open(path) as f:
        for line in f:
            i = line.find('"grp":"')
            if i >= 0:
                a = line[i + 7:line.index('"', i + 7)]
                counts[a] = counts.get(a, 0) + 1
    for a, n in counts.items():
        res.coverage[a] = (n, n)
        od, og = ctx.coverage_actions.get(a, (0, 0))
        ctx.coverage_actions[a] = (od + n, og + n)


GROUPS = ["owner1", "owner2", "txt", "hinfo", "name", "mx", "generic", "ctt", "caa", "bitmap", "ints", "limits", "u32"]
FIELD_TYPES = [257, 47, 52, 51]      # carriers of the restricted-alphabet token fields
ZONE_ACTIONS = ["WriteRecordCat", "BeginZoneFmt", "WriteRecordFmt"]
ZONE_CELLS = ["allow-mixed", "allow-same", "strict-mixed", "strict-same"]
MK = ["new", "tuple_u32", "tuple_ttl", "in_default", "header", "parse"]
MKD = ["wire", "typed", "builder"]
WR = ["zone", "all", "ref", "parsed", "own"]
CTOR = ["from_slice", "from_str", "load", "bufmut", "extend", "default_reserve"]


def _count(ctx, res, path, fields):
    """vacuity guard on generated cases: count the values of in.<field> (a
    string, or a list of strings for routes)"""
    counts = {}
    with open(path) as f:
        for line in f:
            o = json.loads(line)["in"]
            for fld in fields:
                v = o
                for k in fld.split("."):
                    v = v.get(k) if isinstance(v, dict) else None
                if v is None:
                    continue
                for i, x in enumerate(v if isinstance(v, list) else [v]):
                    key = "%s%s=%s" % (fld, i if isinstance(v, list) else "", x)
                    counts[key] = counts.get(key, 0) + 1
    for a, n in counts.items():
        res.coverage[a] = (n, n)
        od, og = ctx.coverage_actions.get(a, (0, 0))
        ctx.coverage_actions[a] = (od + n, og + n)
    return counts


def run(ctx):
    thorough = ctx.tier == "thorough"
    suffix = "_thorough" if thorough else ""
    ctx.build("replay_present", "record_present")

    # 1. the composed specification satisfies Read(Write(r)) = r ------------
    mc = ctx.tlc("MC_Presentation", "MC_Presentation" + suffix, workers=8, label="mc", coverage=False)
    ctx.require_ok(mc, "MC_Presentation")
    ctx.exhaustive_flags.append(True)
    d = ctx.tlc("MC_Presentation", "MC_Presentation_dev", workers=4, label="mc-dev", coverage=False,
                expect_violation="ReadEqualsWritten", count=False)
    ctx.require_ok(d, "MC_Presentation_dev (expected counterexample: writer escape set vs reader specials)")
    # the field deviation: with the empty CAA tag admitted (as the constructors do
    # today) the law has a counterexample
    df = ctx.tlc("MC_Presentation", "MC_Presentation_devf", workers=4, label="mc-devf", coverage=False,
                 expect_violation="ReadEqualsWritten", count=False)
    ctx.require_ok(df, "MC_Presentation_devf (expected counterexample: the empty CAA tag is written as nothing)")

    # 2. S->I: field-kind grid, both directions ------------------------------
    cases = os.path.join(ctx.work, "cases.ndjson")
    gen = ctx.tlc("MC_Presentation", "Gen_Presentation" + suffix, workers=8, label="gen",
                  coverage=False, cases_to=cases, count=False)
    ctx.require_ok(gen, "Gen_Presentation")
    if gen.ncases < 5000:
        raise vlib.ToolError("generator produced too few cases")
    _groups_from_cases(ctx, gen, cases)
    ctx.require_actions(gen, GROUPS)
    _count(ctx, gen, cases, ["route"])
    # vacuity guard of the restricted-alphabet fields: records the constructors
    # admit (adm absent) and records they do not (adm = false) were generated
    nadm = _count(ctx, gen, cases, ["adm"]).get("adm=False", 0)
    if nadm < 50:
        raise vlib.ToolError("no cases outside the constructor-admitted field values")
    # vacuity guard of the names at the limits: names the reader must refuse
    # (raw) and spellings relative to the origin (rel) were generated
    nraw = nrel = 0
    with open(cases) as f:
        for line in f:
            if '"grp":"limits"' in line:
                nraw += '"raw":[' in line
                nrel += '"rel":[' in line
    if nraw < 20 or nrel < 20:
        raise vlib.ToolError("limits group: too few over-long / relative cases (%d, %d)" % (nraw, nrel))
    ctx.require_actions(gen, ["route0=" + x for x in MK] + ["route1=" + x for x in MKD] + ["route2=" + x for x in WR])
    head = os.path.join(ctx.work, "head.ndjson")
    with open(cases) as f, open(head, "w") as g:
        for i, line in enumerate(f):
            if i >= 50:
                break
            g.write(line)
    rc, out, err, _ = ctx.run_bin("replay_present", ["--selftest-perturb"], stdin_path=head)
    ctx.selftest("perturbed expectation is reported by replay_present", "FAIL " in out)
    ctx.replay_cases("replay_present", cases, label="fields")

    # zones: several records, configured reader (state machine across entries)
    mz = ctx.tlc("MC_PresentZone", "MC_PresentZone" + suffix, workers=8, label="mc-zone", coverage=False)
    ctx.require_ok(mz, "MC_PresentZone")
    ctx.exhaustive_flags.append(True)
    zcases = os.path.join(ctx.work, "cases-zone.ndjson")
    gz = ctx.tlc("MC_PresentZone", "Gen_PresentZone" + suffix, workers=8, label="gen-zone",
                 coverage=False, cases_to=zcases, count=False)
    ctx.require_ok(gz, "Gen_PresentZone")
    if gz.ncases < 5000:
        raise vlib.ToolError("zone generator produced too few cases")
    _count(ctx, gz, zcases, ["act", "cell", "zone.ctor", "zone.mode"])
    ctx.require_actions(gz, ["act=" + a for a in ZONE_ACTIONS] + ["cell=" + c for c in ZONE_CELLS]
                        + ["zone.ctor=" + c for c in CTOR] + ["zone.mode=cat", "zone.mode=fmt"])
    zhead = os.path.join(ctx.work, "head-zone.ndjson")
    with open(zcases) as f, open(zhead, "w") as g:
        for i, line in enumerate(f):
            if i >= 20:
                break
            g.write(line)
    rc, out, err, _ = ctx.run_bin("replay_present", ["--selftest-perturb"], stdin_path=zhead)
    ctx.selftest("perturbed zone expectation is reported by replay_present", "FAIL " in out)
    ctx.replay_cases("replay_present", zcases, label="zones")

    # type sweep
    types = os.path.join(ctx.work, "types.ndjson")
    rc, out, err, _ = ctx.run_bin("replay_present", ["--types"])
    if rc != 0 or not out.strip():
        raise vlib.ToolError("replay_present --types failed")
    open(types, "w").write(out)
    tcases = os.path.join(ctx.work, "cases-types.ndjson")
    gt = ctx.tlc("Gen_PresentTypes", "Gen_PresentTypes", workers=2, label="gen-types", coverage=False,
                 cases_to=tcases, count=False, env={"TYPES": types})
    ctx.require_ok(gt, "Gen_PresentTypes")
    if gt.ncases < 500:
        raise vlib.ToolError("type grid too small")
    ctx.replay_cases("replay_present", tcases, label="types")

    # 3. I->S ------------------------------------------------------------------
    n_traces = 4 if thorough else 2
    n_rec = 1200 if thorough else 400
    devs = ",".join(sorted(set(ctx.open_devs) | set(_reader_devs())))
    for i in range(n_traces):
        tr = os.path.join(ctx.work, "trace-%d.ndjson" % i)
        rc, out, err, _ = ctx.run_bin("record_present", [tr, str(ctx.seed * 100 + i), str(n_rec),
                                                         "--open-devs", devs])
        if rc != 0 or "RECORDED " not in out:
            raise vlib.ToolError("record_present failed: " + (out + err)[-500:])
        rec = json.loads(out[out.index("RECORDED ") + 9:].splitlines()[0])
        if rec.get("zones", 0) < 20 or rec.get("zones_read_through", 0) < 10:
            raise vlib.ToolError("recorder produced too few zone events")
        text = open(tr).read()
        for t in FIELD_TYPES:
            if text.count('"ev":"rt"') and text.count('"rtype":%d,' % t) < 20:
                raise vlib.ToolError("recorder produced too few records of type %d" % t)
        ctx.evaluations += rec["events"]
        ctx.stage("record-%d" % i, rec)
        ok, res, rej = ctx.validate_trace("Trace_Presentation", "Trace_Presentation", tr, label="trace-%d" % i)
        ctx.traces += 1
        for t in res.tagged.get("TRACE_DEV", []):
            if isinstance(t, dict):
                for dname in t.get("devs", []):
                    ctx.known(dname, {"kind": t.get("kind"), "text": t.get("text")})
        if not ok:
            ctx.violation("recorded write/read run is not explained by Presentation.tla", rej)
        if i == 0:
            bad = os.path.join(ctx.work, "trace-bad.ndjson")
            lines = open(tr).read().splitlines()
            done = False
            for j, l in enumerate(lines):
                o = json.loads(l)
                if o.get("ev") == "rt" and o.get("eq") and o["rec"]["rtype"] == 16:
                    # the library claims it read back a different TTL
                    o["res"]["entries"][0]["ttl"] = (o["res"]["entries"][0]["ttl"] + 1) % 1000
                    lines[j] = json.dumps(o)
                    done = True
                    break
            if not done:
                raise vlib.ToolError("no event to corrupt for the trace self-test")
            open(bad, "w").write("\n".join(lines) + "\n")
            ok2, _, _ = ctx.validate_trace("Trace_Presentation", "Trace_Presentation", bad, label="trace-selftest")
            ctx.selftest("corrupted trace is rejected by Trace_Presentation", not ok2)
            # record written and record read agree on other CAA flags than the text
            # has: only the line reader of Presentation.tla (CAA is outside
            # ZoneFile.tla), reading the text, can object
            lines = open(tr).read().splitlines()
            done = False
            for j, l in enumerate(lines):
                o = json.loads(l)
                if o.get("ev") == "rt" and o.get("eq") and o["rec"]["rtype"] == 257:
                    o["res"]["entries"][0]["rdata"][0] = (o["res"]["entries"][0]["rdata"][0] + 1) % 256
                    o["rec"]["rdata"][0] = o["res"]["entries"][0]["rdata"][0]
                    lines = [lines[0], json.dumps(o)]
                    done = True
                    break
            if not done:
                raise vlib.ToolError("no CAA event to corrupt for the trace self-test")
            badc = os.path.join(ctx.work, "trace-badcaa.ndjson")
            open(badc, "w").write("\n".join(lines) + "\n")
            ok4, _, _ = ctx.validate_trace("Trace_Presentation", "Trace_Presentation", badc, label="trace-selftest-caa")
            ctx.selftest("CAA event with other flags is rejected by Trace_Presentation", not ok4)
            # a zone read with allow_invalid whose last record comes back with the
            # class of the first one (what a reader that lets its remembered class
            # win would return)
            lines = open(tr).read().splitlines()
            done = False
            for j, l in enumerate(lines):
                o = json.loads(l)
                if o.get("ev") != "zone" or not o["cfg"]["allow"] or o["res"].get("err"):
                    continue
                ents = o["res"]["entries"]
                if len(ents) >= 2 and ents[-1]["class"] != ents[0]["class"]:
                    ents[-1]["class"] = ents[0]["class"]
                    lines = [lines[0], json.dumps(o)]
                    done = True
                    break
            if not done:
                raise vlib.ToolError("no zone event to corrupt for the trace self-test")
            badz = os.path.join(ctx.work, "trace-badzone.ndjson")
            open(badz, "w").write("\n".join(lines) + "\n")
            ok3, _, _ = ctx.validate_trace("Trace_Presentation", "Trace_Presentation", badz, label="trace-selftest-zone")
            ctx.selftest("zone trace with a replaced class is rejected by Trace_Presentation", not ok3)
    ctx.assume("escape-relevant alphabet: NUL SP \" $ ( ) . ; @ \\ 0 a A DEL 0xFF")
    ctx.assume("every form is made a line by appending LF (the writers do not end the line); default class unset, origin absent or ex./example.")
    ctx.assume("texts are compared through the readers, not literally")
    ctx.assume("type sweep: hand-assembled wire RDATA per type; only the round-trip law is stated for it")
    ctx.assume("zones: pool of 6 records (3 classes, 5 TTLs, 4 owners, TXT/NS/MX/HINFO/generic), up to 2 (quick) / 3 (thorough) records per file; strict reader: the RFC 1035 5.2 same-class check is part of the expectation")
    ctx.assume("routes (record / data constructors, data types written, reader constructors) are aliases: one combination per case, spread over the grid")
    ctx.assume("restricted-alphabet fields: CAA tag (strings over 'A' 'Z' 'a' 'z' '0' '9' to length 2 quick / 3 thorough, longer mixed-case tags, the characters just outside, the empty tag), u8 / u16 / IANA-integer fields at the ends of their ranges and where the digit count changes, every type mnemonic and TYPEnnn next to them in an NSEC bitmap, NSEC3 salts; carriers CAA, NSEC, TLSA, NSEC3PARAM, MX; u32 fields of SOA / RRSIG data as octet quadruples over the whole range; the record TTL column up to 2^31 - 1")
    ctx.assume("names at the limits: labels of 'x'; wire lengths 255 / 256 quick, 253 .. 257 thorough; origin ex. for the relative spellings")
    ctx.assume("token route: the specification's tokens (field grid) and the library's tokens cut into words by the harness (type sweep) are read by IterScanner; SvcParams are outside it (Scanner::scan_svcb_octets is not implemented by IterScanner, documented)")
