"""X14 — IANA parameter types: codes, mnemonics and their presentation forms
(spec/IanaParams.tla, spec/IanaTables.tla)."""
import json
import os

import vlib

REPLAY_BIN = "replay_iana"
ACTIONS = ["Init", "Extend", "Expand"]
DEVS = ["D_plus_sign", "D_rcode_fromstr", "D_nsap_ptr_mnemonic", "D_tsig_notimpl_mnemonic",
        "D_new_lowercase_subset"]
TYPES = ["Rtype", "Class", "SvcParamKey", "ExtendedErrorCode", "Opcode", "OptionCode", "TsigRcode",
         "SecurityAlgorithm", "DigestAlgorithm", "Nsec3HashAlgorithm", "ZonemdScheme", "ZonemdAlgorithm",
         "TlsaCertificateUsage", "TlsaSelector", "TlsaMatchingType", "SshfpAlgorithm", "SshfpType",
         "IpseckeyAlgorithm", "IpseckeyGatewayType", "Rcode", "OptRcode", "RType", "RClass"]

META = {
    "category": "model_checking",
    "text": "IanaParams.tla is the generic algebra of one IANA registry type (code range, table of (code, mnemonic, required/optional), generic prefix, style: prefix / mnemonic-or-decimal / decimal-only / hand-written rcode / new-API display) with writer operators (Display, to_mnemonic, ZonefileFmt token, serde human-readable) and reader operators (FromStr = from_bytes = scan, from_mnemonic, Deserialize); IanaTables.tla instantiates it for 23 types (Rtype, Class, SvcParamKey, ExtendedErrorCode, Opcode, OptionCode, TsigRcode, SecurityAlgorithm, DigestAlgorithm, Nsec3HashAlgorithm, ZonemdScheme/Algorithm, the three TLSA and two SSHFP types, the two IPSECKEY types, Rcode, OptRcode, new RType/RClass) from tables transcribed from the RFCs / the IANA registry, not from the source. TLC enumerates every code of every type's width (all 65536 for Rtype in the quick tier, for all nine 16-bit types in the thorough tier; boundary windows otherwise) and a text alphabet (every mnemonic in four capitalisations, registry and as-built spellings; the empty head, the generic prefix in three capitalisations and a mnemonic, each extended over {0 1 2 3 5 6 + - NUL e-acute A blank} to length 3 (5 thorough); range boundaries, 2^32+1, 2^64+1, padded and signed numbers) and decides in every state: tables well formed (no code or name twice, no mnemonic that looks like a generic form), read(write(c)) = c for every writer/reader pair, the generic form read for named codes too (RFC 3597 5), readers accept nothing but a mnemonic or prefix+digits in range. Every state becomes a case replayed on the real types through every route: from_int/to_int, ==/Ord/Hash against the codes, Display, to_mnemonic(_str), ZonefileFmt, serde_json both ways, FromStr, from_bytes, from_mnemonic, scan over an IterScanner, the zone-file reader (class position; NSEC type bitmap; DS, NSEC3PARAM, TLSA, SSHFP fields) -- routes reading the same form must agree -- plus is_glue, uses_lowercase_canonical_form, Rcode->OptRcode->TsigRcode conversions, OptRcode parts, and 87 named constants of the hand-written and new-API types against the registry. I->S: recorded random writes and reads (case-mangled mnemonics, 25-digit numbers, padded / signed / damaged forms) are validated by Trace_IanaParams.",
    "note": "Properties stated by the builder (extension, not in properties.jsonl). Trusted: TLC, the transcription of the registries in IanaTables.tla (made offline from the RFCs; codes whose registry name could not be confirmed are listed as `unsure' and skipped: OptionCode 4/20292/26946, ExtendedErrorCode 19/28/30..40, SSHFP 0/2, all IPSECKEY names), the harness executor. A registry row registered after the date for which a type's documentation claims completeness is optional: for such a code the observation of the type without the row and of the type with the row (registry name, registry code) both conform (expectation `conforms'; a wrong code or name for it does not); the optional rows the library names today are listed as `adopted' in the tables (Rtype ZONEMD SVCB HTTPS NXNAME; the new API's constants) and are checked like required rows, so dropping one is reported. Display of Opcode/OptionCode/TsigRcode (`MNEMONIC(n)') is compared but no round trip is claimed for it. Case-insensitivity of Rcode/OptRcode::from_str is not claimed either way (undocumented). Not covered: Debug output, the zone-file comment of the decimal style, compact (non-human-readable) serde formats, wire parse/compose of the types (C01/C02), `*' as alias of ANY for Rtype and ANY as alias of `*' for Class. Open: D_plus_sign, D_rcode_fromstr, D_nsap_ptr_mnemonic, D_tsig_notimpl_mnemonic, D_new_lowercase_subset.",
    "technique": "TLA+ spec (IanaParams.tla + IanaTables.tla) + TLC exhaustive over codes and a text alphabet; spec->impl case replay through every route; impl->spec trace validation",
    "design_ref": "DESIGN.md §8 (extensions), §10.7 X14",
}


def explain(ctx, dev):
    print("%s is a deviation of a function; see the generated cases with key dev.%s "
          "(bin/check X14 prints one KNOWN line with the witness)" % (dev, dev))


def _head(src, dst, n):
    with open(src) as f, open(dst, "w") as g:
        for i, line in enumerate(f):
            if i >= n:
                break
            g.write(line)


def _guard(path):
    """Vacuity guard on the generated inputs: every type with codes, every
    reading type with accepted and rejected texts, constants, and inputs that
    reach each deviation."""
    seen = {}
    devs = set()
    with open(path) as f:
        for line in f:
            c = json.loads(line)
            i = c["in"]
            k = i["k"]
            if k == "code":
                seen.setdefault(("code", i["ty"]), 0)
                seen[("code", i["ty"])] += 1
            elif k == "text":
                ok = "ok" in c["exp"]["fromstr"]
                seen.setdefault(("text", i["ty"], ok), 0)
                seen[("text", i["ty"], ok)] += 1
            else:
                seen.setdefault(("const",), 0)
                seen[("const",)] += 1
            for d in c.get("dev", {}):
                devs.add(d)
    missing = [t for t in TYPES if ("code", t) not in seen]
    missing += ["text+" + t for t in TYPES[:21] if ("text", t, True) not in seen]
    missing += ["text-" + t for t in TYPES[:21] if ("text", t, False) not in seen]
    if ("const",) not in seen or seen[("const",)] < 80:
        missing.append("constants")
    missing += [d for d in DEVS if d not in devs]
    if missing:
        raise vlib.ToolError("generator is vacuous for: " + ", ".join(missing))
    return seen


def run(ctx):
    thorough = ctx.tier == "thorough"
    ctx.build("replay_iana", "record_iana")
    sfx = "_thorough" if thorough else ""
    # 1. the laws on the specification's own writers / readers, every code and text
    # (with -coverage for the vacuity guard, boundary windows of the 16-bit types;
    # the generator run below decides the same laws in every state it emits)
    mc = ctx.tlc("MC_IanaParams", "MC_IanaParams", workers=8, label="mc", xmx="8g")
    ctx.require_ok(mc, "MC_IanaParams")
    ctx.require_actions(mc, ACTIONS)
    ctx.exhaustive_flags.append(True)
    # 2. S->I: every state becomes a case
    cases = os.path.join(ctx.work, "cases.ndjson")
    gen = ctx.tlc("MC_IanaParams", "Gen_IanaParams" + sfx, workers=8, label="gen", coverage=False,
                  cases_to=cases, xmx="8g", timeout=3000)
    ctx.require_ok(gen, "Gen_IanaParams")
    if gen.ncases < 100000:
        raise vlib.ToolError("generator produced too few cases (%d)" % gen.ncases)
    _guard(cases)
    head = os.path.join(ctx.work, "head.ndjson")
    _head(cases, head, 50)
    rc, out, err, _ = ctx.run_bin("replay_iana", ["--selftest-perturb"], stdin_path=head)
    ctx.selftest("perturbed expectation is reported by replay_iana", "FAIL " in out)
    ctx.replay_cases("replay_iana", cases, label="iana")
    if not os.environ.get("VERIF_KEEP_WORK"):
        os.remove(cases)
    # 3. I->S: recorded random writes / reads validated against the tables
    n_traces = 6 if thorough else 2
    for i in range(n_traces):
        tr = os.path.join(ctx.work, "trace-%d.ndjson" % i)
        rc, out, err, _ = ctx.run_bin("record_iana", [tr, str(ctx.seed * 100 + i),
                                                       "20000" if thorough else "6000"])
        if rc != 0:
            if "ROUTES-DISAGREE" in err:
                ctx.violation("readers of the same text form disagree", {"stderr": err[-800:]})
                continue
            raise vlib.ToolError("record_iana failed: " + err[-500:])
        ok, res, rej = ctx.validate_trace("Trace_IanaParams", "Trace_IanaParams", tr, label="trace-%d" % i)
        ctx.traces += 1
        if not ok:
            ctx.violation("recorded write/read is not explained by IanaParams.tla over the registry tables", rej)
        if i == 0:
            lines = open(tr).read().splitlines()
            # corrupt one mnemonic written / one number read: TLC must reject
            bad = os.path.join(ctx.work, "trace-bad-w.ndjson")
            hit = False
            for j, l in enumerate(lines):
                o = json.loads(l)
                if o["ev"] == "write" and o["ty"] == "Rtype" and o.get("mn"):
                    o["mn"][0] ^= 1
                    o["display"][0] ^= 1
                    lines2 = list(lines)
                    lines2[j] = json.dumps(o)
                    hit = True
                    break
            if not hit:
                raise vlib.ToolError("recorder wrote no named Rtype")
            open(bad, "w").write("\n".join(lines2) + "\n")
            ok2, _, _ = ctx.validate_trace("Trace_IanaParams", "Trace_IanaParams", bad, label="trace-selftest-w")
            ctx.selftest("corrupted mnemonic is rejected by Trace_IanaParams", not ok2)
            bad = os.path.join(ctx.work, "trace-bad-r.ndjson")
            hit = False
            for j, l in enumerate(lines):
                o = json.loads(l)
                if o["ev"] == "read" and "ok" in o["fromstr"] and o["ty"] not in ("IpseckeyAlgorithm", "IpseckeyGatewayType"):
                    o["fromstr"]["ok"] ^= 1
                    lines2 = list(lines)
                    lines2[j] = json.dumps(o)
                    hit = True
                    break
            if not hit:
                raise vlib.ToolError("recorder read no accepted text")
            open(bad, "w").write("\n".join(lines2) + "\n")
            ok3, _, _ = ctx.validate_trace("Trace_IanaParams", "Trace_IanaParams", bad, label="trace-selftest-r")
            ctx.selftest("corrupted read result is rejected by Trace_IanaParams", not ok3)
    ctx.assume("registry tables transcribed offline from the RFCs / IANA pages; unsure rows are skipped (see note)")
    ctx.assume("optional registry rows (registered after a type's documented completeness date) are checked only where the library names them (adopted)")
    ctx.assume("quick tier: all 65536 codes for Rtype, boundary windows for the other 16-bit types; thorough: all codes of all types")
    ctx.assume("text alphabet {0 1 2 3 5 6 + - NUL U+00E9 A blank}, tails up to 3 (5 thorough) after each head")
