"""C07 — the zone-file reader is total and depends only on logical content
(spec/ZoneFile.tla, MC_ZoneFile.tla, MC_ZoneLayout.tla, Trace_ZoneFile.tla)."""
import json
import os
import vlib

CHAR_ACTIONS = ["PushSpace", "PushLineFeed", "PushOpen", "PushClose",
                "PushSemicolon", "PushQuote", "PushBackslash", "PushWordChar"]
LAYOUT_ACTIONS = ["OriginDirective", "TtlDirective", "IncludeDirective",
                  "RecordExplicit", "RecordAtSign", "RecordInherited", "Rejected"]

META = {
    "category": "model_checking",
    "text": "ZoneFile.tla transcribes the reader as a tokenizer machine (one step per octet, one branch per character class, parenthesis depth, comments, quotes, escapes) feeding an entry machine (origin, last owner, last TTL, $TTL, last class; $ORIGIN/$TTL/$INCLUDE, explicit/@/inherited owner, TTL-class orders, TXT/NS/CNAME/PTR/DNAME/MX/HINFO and RFC 3597 generic data). TLC checks on it, for every string over ten character classes up to length 5 (quick) / 6 (thorough) in two contexts, that the reader is total, never panics, keeps parentheses non-negative, never writes past its read cursor, treats end of input inside a token as an error and keeps errors sticky; and, for every logical file of up to 2 / 3 entries over a dictionary and every layout (owner absolute / relative / @ / inherited, TTL and class written or inherited, order, spacing, CRLF, parenthesised continuation, comments, blank lines, plain / escaped / quoted tokens), that the reader returns exactly the logical records; and, for strings / labels / names just below, at and above their length limits (255 / 63 / 255 octets) in nine spellings (plain, quoted, one \\DDD or \\c escape at the start, middle, end), that every spelling gives the same limit-respecting outcome; and, for 35 numeric fields (u8 / u16 / u32 / Serial / Ttl / time stamps in both notations in SOA, RRSIG, MX, SRV, NAPTR, DS, DNSKEY, NSEC3, TLSA, CAA data, the TTL column, $TTL, CLASSnnn, TYPEnnn, the \\# length) x the values 0, 1, max-1, max, max+1, max+4, past the multiplication guard, 10*max, max with leading zeros and a 100-digit number, that the outcome is an error or the record with exactly that value. Every explored string and every (file, layout) is replayed into zonefile::inplace::Zonefile with the full expected entry list; recorded runs on random octets, token soup and mutated test-data zone files (panic / hang watch on all, outcome validated by TLC for short ones) and pairs of random renderings of random logical files are validated by TLC against the machines; about 400 hostile-size inputs per trace (name tokens of 300 ... 140000 octets in four label shapes and six positions, 1 MiB strings, lines, hex / Base64 / Base32 blobs, 100-digit integers, 10^5 nested parentheses) must end in entries or an error, never a panic or a hang.",
    "note": "Trusted: TLC, the transcription in ZoneFile.tla, the harness executors, the Rust layout renderer of the recorder. Errors are compared as accept/reject (not message or position). Record types other than TXT, NS, CNAME, PTR, DNAME, MX, HINFO and the generic form, TTL values >= 2^31, UTF-8 in $INCLUDE paths are 'unmodelled': the spec abstains. Inputs beyond the explored lengths are sampled. $INCLUDE is only reported, not resolved. Five defects of the reader are modelled as named deviations (known findings).",
    "technique": "TLA+ spec (ZoneFile.tla) + TLC exhaustive; spec->impl case replay; impl->spec trace validation",
    "design_ref": "DESIGN.md §4 C07",
}

WHAT = {}


def _known_from_trace(ctx, res):
    for t in res.tagged.get("TRACE_DEV", []):
        if isinstance(t, dict):
            for d in t.get("devs", []):
                ctx.known(d, {"text": t.get("text"), "res": t.get("res")})


def _actions_from_cases(ctx, res, path):
    """TLC's -coverage cost model does not terminate on ZoneFile.tla (nested
    operator definitions); the vacuity guard therefore counts, per named
    action of Next, the transitions witnessed by the generated cases (each
    case carries the action that produced its state)."""
    counts = {}
    with open(path) as f:
        for line in f:
            i = line.find('"act":"')
            if i >= 0:
                a = line[i + 7:line.index('"', i + 7)]
                counts[a] = counts.get(a, 0) + 1
    for a, n in counts.items():
        res.coverage[a] = (n, n)
        od, og = ctx.coverage_actions.get(a, (0, 0))
        ctx.coverage_actions[a] = (od + n, og + n)


def run(ctx):
    thorough = ctx.tier == "thorough"
    suffix = "_thorough" if thorough else ""
    ctx.build("replay_zonefile", "record_zonefile")

    # 1. TLC decides the properties on the specification -------------------
    mc = ctx.tlc("MC_ZoneFile", "MC_ZoneFile" + suffix, workers=8, label="mc-chars", coverage=False)
    ctx.require_ok(mc, "MC_ZoneFile")
    mcl = ctx.tlc("MC_ZoneLayout", "MC_ZoneLayout" + suffix, workers=8, label="mc-layout", coverage=False)
    ctx.require_ok(mcl, "MC_ZoneLayout")
    # limit shapes: strings of 254..257, labels of 62..65, names of 253..256 octets
    # in nine spellings (plain, quoted, \\DDD / \\c at the start, middle, end)
    mclim = ctx.tlc("MC_ZoneLimits", "MC_ZoneLimits", workers=4, label="mc-limits", coverage=False)
    ctx.require_ok(mclim, "MC_ZoneLimits")
    # integer boundaries: every numeric field kind x 0, 1, max-1, max, max+1, max+4, ...
    mcint = ctx.tlc("MC_ZoneInts", "MC_ZoneInts", workers=4, label="mc-ints", coverage=False)
    ctx.require_ok(mcint, "MC_ZoneInts")
    ctx.exhaustive_flags.append(True)
    # documentation of the findings: with the deviations on, the properties fail
    d1 = ctx.tlc("MC_ZoneFile", "MC_ZoneFile_dev", workers=2, label="mc-chars-dev",
                 expect_violation="NeverPanics", coverage=False, count=False)
    ctx.require_ok(d1, "MC_ZoneFile_dev (expected counterexample)")
    d2 = ctx.tlc("MC_ZoneLayout", "MC_ZoneLayout_dev", workers=2, label="mc-layout-dev",
                 expect_violation="Metamorphic", coverage=False, count=False)
    ctx.require_ok(d2, "MC_ZoneLayout_dev (expected counterexample)")

    # 2. S->I ---------------------------------------------------------------
    cases = os.path.join(ctx.work, "cases-chars.ndjson")
    gen = ctx.tlc("MC_ZoneFile", "Gen_ZoneFile" + suffix, workers=8, label="gen-chars",
                  coverage=False, cases_to=cases, count=False)
    ctx.require_ok(gen, "Gen_ZoneFile")
    _actions_from_cases(ctx, gen, cases)
    ctx.require_actions(gen, CHAR_ACTIONS)
    if gen.ncases < 10000:
        raise vlib.ToolError("character-level generator produced too few cases")
    head = os.path.join(ctx.work, "head.ndjson")
    with open(cases) as f, open(head, "w") as g:
        for i, line in enumerate(f):
            if i >= 50:
                break
            g.write(line)
    rc, out, err, _ = ctx.run_bin("replay_zonefile", ["--selftest-perturb"], stdin_path=head)
    ctx.selftest("perturbed expectation is reported by replay_zonefile", "FAIL " in out)
    ctx.replay_cases("replay_zonefile", cases, label="chars")

    lcases = os.path.join(ctx.work, "cases-layout.ndjson")
    genl = ctx.tlc("MC_ZoneLayout", "Gen_ZoneLayout" + suffix, workers=8, label="gen-layout",
                   coverage=False, cases_to=lcases, count=False)
    ctx.require_ok(genl, "Gen_ZoneLayout")
    _actions_from_cases(ctx, genl, lcases)
    ctx.require_actions(genl, LAYOUT_ACTIONS)
    if genl.ncases < 1000:
        raise vlib.ToolError("layout generator produced too few cases")
    ctx.replay_cases("replay_zonefile", lcases, label="layouts")

    limcases = os.path.join(ctx.work, "cases-limits.ndjson")
    genlim = ctx.tlc("MC_ZoneLimits", "Gen_ZoneLimits", workers=4, label="gen-limits",
                     coverage=False, cases_to=limcases, count=False)
    ctx.require_ok(genlim, "Gen_ZoneLimits")
    _actions_from_cases(ctx, genlim, limcases)
    ctx.require_actions(genlim, ["txt", "txt2", "hinfo", "label", "rdlabel", "name"])
    ctx.replay_cases("replay_zonefile", limcases, label="limits")

    intcases = os.path.join(ctx.work, "cases-ints.ndjson")
    genint = ctx.tlc("MC_ZoneInts", "Gen_ZoneInts", workers=4, label="gen-ints",
                     coverage=False, cases_to=intcases, count=False)
    ctx.require_ok(genint, "Gen_ZoneInts")
    _actions_from_cases(ctx, genint, intcases)
    ctx.require_actions(genint, ["soa-serial", "soa-minimum", "rrsig-origttl", "rrsig-expiration", "mx-preference",
                                 "srv-port", "naptr-order", "ds-keytag", "dnskey-protocol", "nsec3-iterations",
                                 "tlsa-usage", "caa-flags", "ttl-column", "dollar-ttl", "class-nnn", "type-nnn",
                                 "generic-len"])
    ctx.replay_cases("replay_zonefile", intcases, label="ints")

    # 3. I->S ----------------------------------------------------------------
    n_traces = 4 if thorough else 2
    n_total = 120000 if thorough else 40000
    n_meta = 1500 if thorough else 500
    devs = ",".join(sorted(ctx.open_devs))
    for i in range(n_traces):
        tr = os.path.join(ctx.work, "trace-%d.ndjson" % i)
        rc, out, err, _ = ctx.run_bin(
            "record_zonefile",
            [tr, str(ctx.seed * 100 + i), str(n_total), str(n_meta),
             os.path.join(os.environ.get("VERIF_REPO", "/repo"), "test-data/zonefiles"),
             "--open-devs", devs])
        if "FAIL " in out:
            for line in out.splitlines():
                if line.startswith("FAIL "):
                    ctx.violation("the reader hangs", json.loads(line[5:]))
            continue
        if rc != 0 or "RECORDED " not in out:
            raise vlib.ToolError("record_zonefile failed: " + (out + err)[-500:])
        rec = json.loads(out[out.index("RECORDED ") + 9:].splitlines()[0])
        ctx.evaluations += rec["inputs"] + 2 * rec["meta"] + rec.get("hostile", 0)
        if rec.get("hostile", 0) < 300:
            raise vlib.ToolError("hostile-size generator produced too few inputs")
        ctx.stage("record-%d" % i, rec)
        ok, res, rej = ctx.validate_trace("Trace_ZoneFile", "Trace_ZoneFile", tr, label="trace-%d" % i)
        ctx.traces += 1
        _known_from_trace(ctx, res)
        if not ok:
            ctx.violation("recorded reader run is not a behaviour of ZoneFile.tla", rej)
        if i == 0:
            # binding self-test: corrupt one recorded outcome, TLC must reject
            bad = os.path.join(ctx.work, "trace-bad.ndjson")
            lines = open(tr).read().splitlines()
            done = False
            for j, l in enumerate(lines):
                o = json.loads(l)
                if o["ev"] == "meta" and not o["ra"].get("err", True) and o["ra"].get("entries"):
                    e = o["ra"]["entries"][0]
                    if "ttl" in e:
                        e["ttl"] = (e["ttl"] + 1) % 1000
                        lines[j] = json.dumps(o)
                        done = True
                        break
            if not done:
                raise vlib.ToolError("no event to corrupt for the trace self-test")
            open(bad, "w").write("\n".join(lines) + "\n")
            ok2, _, _ = ctx.validate_trace("Trace_ZoneFile", "Trace_ZoneFile", bad, label="trace-selftest")
            ctx.selftest("corrupted trace is rejected by Trace_ZoneFile", not ok2)
    ctx.assume("character classes: SP LF CR ( ) ; \" \\ 0 a; contexts: whole file, data of a TXT record, owner of a TXT record")
    ctx.assume("errors are compared as accept/reject; entries returned before the error are compared in full")
    ctx.assume("record types outside TXT/NS/CNAME/PTR/DNAME/MX/HINFO/generic, TTL >= 2^31 and UTF-8 in $INCLUDE paths are unmodelled (spec abstains)")
    ctx.assume("where a known deviation makes the code overwrite unread input (TXT without data followed by an unquoted token at the line start) or skip an octet unseen (after \\#), the deviant outcome is not predicted and the case is skipped / accepted as explained by the deviation")
