"""C07 — the zone-file reader is total and depends only on logical content
(spec/ZoneFile.tla, MC_ZoneFile.tla, MC_ZoneLayout.tla, Trace_ZoneFile.tla)."""
import json
import os
import vlib

CHAR_ACTIONS = ["PushSpace", "PushLineFeed", "PushOpen", "PushClose",
                "PushSemicolon", "PushQuote", "PushBackslash", "PushWordChar"]
LAYOUT_ACTIONS = ["OriginDirective", "TtlDirective", "IncludeDirective",
                  "RecordExplicit", "RecordAtSign", "RecordInherited", "Rejected"]

META = {
    "category": "model_checking",
    "text": "ZoneFile.tla transcribes the reader as a tokenizer machine (one step per octet, one branch per character class, parenthesis depth, comments, quotes, escapes) feeding an entry machine (origin, last owner, last TTL, $TTL, last class; $ORIGIN/$TTL/$INCLUDE, explicit/@/inherited owner, TTL-class orders, TXT/NS/CNAME/PTR/DNAME/MX/HINFO and RFC 3597 generic data). TLC checks on it, for every string over ten character classes up to length 5 (quick) / 6 (thorough) in two contexts, that the reader is total, never panics, keeps parentheses non-negative, never writes past its read cursor, treats end of input inside a token as an error and keeps errors sticky; and, for every logical file of up to 2 / 3 entries over a dictionary and every layout (owner absolute / relative / @ / inherited, TTL and class written or inherited, order, spacing, CRLF, parenthesised continuation, comments, blank lines, plain / escaped / quoted tokens), that the reader returns exactly the logical records; and, for strings / labels / names just below, at and above their length limits (255 / 63 / 255 octets) in nine spellings (plain, quoted, one \\DDD or \\c escape at the start, middle, end), that every spelling gives the same limit-respecting outcome; and, for 35 numeric fields (u8 / u16 / u32 / Serial / Ttl / time stamps in both notations in SOA, RRSIG, MX, SRV, NAPTR, DS, DNSKEY, NSEC3, TLSA, CAA data, the TTL column, $TTL, CLASSnnn, TYPEnnn, the \\# length) x the values 0, 1, max-1, max, max+1, max+4, past the multiplication guard, 10*max, max with leading zeros and a 100-digit number, that the outcome is an error or the record with exactly that value. Every explored string and every (file, layout) is replayed into zonefile::inplace::Zonefile with the full expected entry list; recorded runs on random octets, token soup and mutated test-data zone files (panic / hang watch on all, outcome validated by TLC for short ones) and pairs of random renderings of random logical files are validated by TLC against the machines; about 400 hostile-size inputs per trace (name tokens of 300 ... 140000 octets in four label shapes and six positions, 1 MiB strings, lines, hex / Base64 / Base32 blobs, 100-digit integers, 10^5 nested parentheses) must end in entries or an error, never a panic or a hang.",
    "note": "Trusted: TLC, the transcription in ZoneFile.tla, the harness executors, the Rust layout renderer of the recorder. Errors are compared as accept/reject (not message or position). Record types other than TXT, NS, CNAME, PTR, DNAME, MX, HINFO and the generic form, TTL values >= 2^31, UTF-8 in $INCLUDE paths are 'unmodelled': the spec abstains. Inputs beyond the explored lengths are sampled. $INCLUDE is only reported, not resolved. Five defects of the reader are modelled as named deviations (known findings).",
    "technique": "TLA+ spec (ZoneFile.tla) + TLC exhaustive; spec->impl case replay; impl->spec trace validation",
    "design_ref": "DESIGN.md §4 C07",
}

WHAT = {}


def _known_from_trace(ctx, res):
    for t in res.tagged.get("TRACE_DEV", []):
        if isinstance(t, dict):
            for d in t.get("devs", []):
                ctx.known(d, {"text": t.get("text"), "res": t.get("res")})


def _actions_from_cases(ctx, res, path):
    """TLC's -coverage cost model does not terminate on ZoneFile.tla (nested
    operator definitions); the vacuity guard therefore counts, per named
    action of Next, the transitions witnessed by the generated cases (each
    case carries the action that produced its state)."""
    counts = {}
    with open(path) as f:
        for line in f:
            i = line.find('"act":"')
            if i >= 0:
                a = line[i + 7:line.index('"', i + 7)]
                counts[a] = counts.get(a, 0) + 1
    for a, n in counts.items():
        res.coverage[a] = (n, n)
        od, og = ctx.coverage_actions.get(a, (0, 0))
        ctx.coverage_actions[a] = (od + n, og + n)


def _count_field(path, field):
    """occurrences of the values of `"field":"value"` in the generated cases"""
    counts = {}
    key = '"%s":"' % field
    with open(path) as f:
        for line in f:
            i = line.find(key)
            while i >= 0:
                v = line[i + len(key):line.index('"', i + len(key))]
                counts[v] = counts.get(v, 0) + 1
                i = line.find(key, i + len(key))
    return counts


def _checked_and_generated(ctx, module, cfg, label, min_cases, workers=4):
    """One TLC run decides the invariants / properties of the configuration on
    the specification and prints the cases of the S->I binding (the Gen_*
    configurations carry both)."""
    cases = os.path.join(ctx.work, "cases-%s.ndjson" % label)
    res = ctx.tlc(module, cfg, workers=workers, label="mc-" + label, coverage=False, cases_to=cases)
    ctx.require_ok(res, cfg)
    _actions_from_cases(ctx, res, cases)
    if res.ncases < min_cases:
        raise vlib.ToolError("%s produced too few cases (%d)" % (cfg, res.ncases))
    return res, cases


def run(ctx):
    thorough = ctx.tier == "thorough"
    suffix = "_thorough" if thorough else ""
    ctx.build("replay_zonefile", "record_zonefile")

    # 1. + 2.  TLC decides the properties on the specification; the same runs
    # print the cases that are replayed into the real reader (S->I) ---------
    gen, cases = _checked_and_generated(ctx, "MC_ZoneFile", "Gen_ZoneFile" + suffix, "chars", 10000, workers=8)
    ctx.require_actions(gen, CHAR_ACTIONS)
    # every context of the character level and every completing suffix occurs
    seen = _count_field(cases, "ctx")
    missing = [c for c in ("file", "txt", "own", "inc", "inc-q", "inc-l", "at", "at-own", "b64", "b64-l", "b64-p") if not seen.get(c)]
    if missing:
        raise vlib.ToolError("vacuity: character-level contexts without cases: %s" % missing)
    head = os.path.join(ctx.work, "head.ndjson")
    with open(cases) as f, open(head, "w") as g:
        for i, line in enumerate(f):
            if i >= 50:
                break
            g.write(line)
    rc, out, err, _ = ctx.run_bin("replay_zonefile", ["--selftest-perturb"], stdin_path=head)
    ctx.selftest("perturbed expectation is reported by replay_zonefile", "FAIL " in out)
    ctx.replay_cases("replay_zonefile", cases, label="chars")

    genl, lcases = _checked_and_generated(ctx, "MC_ZoneLayout", "Gen_ZoneLayout" + suffix, "layout", 1000, workers=8)
    ctx.require_actions(genl, LAYOUT_ACTIONS)
    routes = _count_field(lcases, "route")
    missing = [r for r in ("from_slice", "from_str", "load", "bufmut", "extend", "default_reserve") if not routes.get(r)]
    if missing:
        raise vlib.ToolError("vacuity: construction routes without cases: %s" % missing)
    kinds = _count_field(lcases, "kind")
    if not kinds.get("MissingSoa") or not kinds.get("ClassMismatch"):
        raise vlib.ToolError("vacuity: zonetree::parsed error kinds without cases: %s" % kinds)
    ctx.replay_cases("replay_zonefile", lcases, label="layouts")

    # limit shapes: strings of 254..257, labels of 62..65, names of 253..256 octets
    # in nine spellings (plain, quoted, \\DDD / \\c at the start, middle, end)
    genlim, limcases = _checked_and_generated(ctx, "MC_ZoneLimits", "Gen_ZoneLimits", "limits", 200)
    ctx.require_actions(genlim, ["txt", "txt2", "hinfo", "label", "rdlabel", "name"])
    ctx.replay_cases("replay_zonefile", limcases, label="limits")

    # integer boundaries: every numeric field kind x 0, 1, max-1, max, max+1, max+4, ...
    genint, intcases = _checked_and_generated(ctx, "MC_ZoneInts", "Gen_ZoneInts", "ints", 300)
    ctx.require_actions(genint, ["soa-serial", "soa-minimum", "rrsig-origttl", "rrsig-expiration", "mx-preference",
                                 "srv-port", "naptr-order", "ds-keytag", "dnskey-protocol", "nsec3-iterations",
                                 "tlsa-usage", "caa-flags", "ttl-column", "dollar-ttl", "class-nnn", "type-nnn",
                                 "generic-len"])
    ctx.replay_cases("replay_zonefile", intcases, label="ints")

    # characters at the boundaries of the symbol alphabet in every symbol consumer
    gensym, symcases = _checked_and_generated(ctx, "MC_ZoneSyms", "Gen_ZoneSyms", "syms", 2000)
    ctx.require_actions(gensym, ["owner", "rdata-name", "charstr", "type", "mx-preference", "control-word", "include-path",
                                 "base64", "base64-dnskey", "base16", "base32", "salt", "generic-data", "svcb-param",
                                 "after-at", "after-marker", "comment"])
    ctx.replay_cases("replay_zonefile", symcases, label="syms")

    # the record-data grammar through the string-token scanner (IterScanner)
    genit, itcases = _checked_and_generated(ctx, "MC_ZoneIter", "Gen_ZoneIter", "iter", 300)
    ctx.require_actions(genit, ["txt", "ns", "ns-rel", "mx", "soa", "ds", "dnskey", "openpgpkey", "tlsa", "nsec",
                                "nsec3param", "nsec3", "generic"])
    ctx.replay_cases("replay_zonefile", itcases, label="iter")
    ctx.exhaustive_flags.append(True)

    # documentation of the (repaired) findings: with the deviations on, the properties fail
    d1 = ctx.tlc("MC_ZoneFile", "MC_ZoneFile_dev", workers=2, label="mc-chars-dev",
                 expect_violation="NeverPanics", coverage=False, count=False)
    ctx.require_ok(d1, "MC_ZoneFile_dev (expected counterexample)")
    d2 = ctx.tlc("MC_ZoneLayout", "MC_ZoneLayout_dev", workers=2, label="mc-layout-dev",
                 expect_violation="Metamorphic", coverage=False, count=False)
    ctx.require_ok(d2, "MC_ZoneLayout_dev (expected counterexample)")

    # 3. I->S ----------------------------------------------------------------
    n_traces = 4 if thorough else 2
    n_total = 120000 if thorough else 40000
    n_meta = 1500 if thorough else 500
    devs = ",".join(sorted(ctx.open_devs))
    for i in range(n_traces):
        tr = os.path.join(ctx.work, "trace-%d.ndjson" % i)
        rc, out, err, _ = ctx.run_bin(
            "record_zonefile",
            [tr, str(ctx.seed * 100 + i), str(n_total), str(n_meta),
             os.path.join(os.environ.get("VERIF_REPO", "/repo"), "test-data/zonefiles"),
             "--open-devs", devs])
        if "FAIL " in out:
            for line in out.splitlines():
                if line.startswith("FAIL "):
                    ctx.violation("the reader hangs", json.loads(line[5:]))
            continue
        if rc != 0 or "RECORDED " not in out:
            raise vlib.ToolError("record_zonefile failed: " + (out + err)[-500:])
        rec = json.loads(out[out.index("RECORDED ") + 9:].splitlines()[0])
        ctx.evaluations += rec["inputs"] + 2 * rec["meta"] + rec.get("hostile", 0)
        if rec.get("hostile", 0) < 300:
            raise vlib.ToolError("hostile-size generator produced too few inputs")
        ctx.stage("record-%d" % i, rec)
        ok, res, rej = ctx.validate_trace("Trace_ZoneFile", "Trace_ZoneFile", tr, label="trace-%d" % i)
        ctx.traces += 1
        _known_from_trace(ctx, res)
        if not ok:
            ctx.violation("recorded reader run is not a behaviour of ZoneFile.tla", rej)
        # vacuity guard: the specification decides (almost) all random logical files
        abstained = len(res.tagged.get("TRACE_ABSTAINED", []))
        if abstained * 10 > rec["meta"]:
            raise vlib.ToolError("the specification abstained on %d of %d random logical files" % (abstained, rec["meta"]))
        if i == 0:
            # binding self-test: corrupt one recorded outcome, TLC must reject
            bad = os.path.join(ctx.work, "trace-bad.ndjson")
            lines = open(tr).read().splitlines()
            done = False
            for j, l in enumerate(lines):
                o = json.loads(l)
                if o["ev"] == "meta" and not o["ra"].get("err", True) and o["ra"].get("entries"):
                    e = o["ra"]["entries"][0]
                    if "ttl" in e:
                        e["ttl"] = (e["ttl"] + 1) % 1000
                        lines[j] = json.dumps(o)
                        done = True
                        break
            if not done:
                raise vlib.ToolError("no event to corrupt for the trace self-test")
            open(bad, "w").write("\n".join(lines) + "\n")
            ok2, _, _ = ctx.validate_trace("Trace_ZoneFile", "Trace_ZoneFile", bad, label="trace-selftest")
            ctx.selftest("corrupted trace is rejected by Trace_ZoneFile", not ok2)
    ctx.assume("character classes: SP LF CR ( ) ; \" \\ 0 a (and = C2 80 in the Base 64 context); contexts: whole file, data of a TXT record, owner of a TXT record, after $INCLUDE, after a leading @, data of an OPENPGPKEY record")
    ctx.assume("errors are compared as accept/reject; entries returned before the error are compared in full")
    ctx.assume("record types outside TXT/NS/CNAME/PTR/DNAME/MX/HINFO/SOA/SVCB/HTTPS/DNSKEY/CDNSKEY/DS/CDS/OPENPGPKEY/TLSA/NSEC/NSEC3/NSEC3PARAM/generic, TTL >= 2^31 and (in the reader machine; the boundary-character table states it) UTF-8 in $INCLUDE paths are unmodelled (spec abstains)")
    ctx.assume("the string-token scanner is compared with the reader only where both define the token: no decimal escapes in ASCII-string tokens (the reader accepts them, IterScanner does not), no SVCB")
    ctx.assume("ZoneBuilder::try_from(parsed::Zonefile): only 'has to fail' (no apex, records outside the zone, DS without NS) and 'does not panic' are stated")
    ctx.assume("where a known deviation makes the code overwrite unread input (TXT without data followed by an unquoted token at the line start) or skip an octet unseen (after \\#), the deviant outcome is not predicted and the case is skipped / accepted as explained by the deviation")
