"""C17 — RFC 1982 serial arithmetic (spec/Serial.tla, spec/SerialLimbs.tla)."""
import json
import os
import re
import shutil
import subprocess
import time

import vlib

ACTIONS = ["Init", "Bump", "Shift", "Swap"]

# read by bin/mkmanifest
META = {
    "category": "model_checking",
    "text": "TLC checks the four RFC 1982 laws (a+n > a for n in 1..2^(k-1)-1, antisymmetry, undefined exactly at distance 2^(k-1), shift invariance) and the equality of the transcribed partial_cmp/add with the RFC text for all pairs and all addends at 8 bits (9 and 11 bits thorough); every one of these k-bit evaluations is lifted to 32 bits by the exact embedding x*2^(32-k)+c (several offsets c, for ordered pairs also different offsets per side, which reaches the distances 2^31-1 and 2^31+1) and executed on Serial (partial_cmp, the five operators, add), Timestamp, SOA/RRSIG wire round trips, sign_rrset's validity-period check, the zone diff builder's serial-range check, the XFR middleware's IXFR decision (single SOA for a client with the same or a newer serial, transfer otherwise; XfrMiddlewareSvc::preprocess with a data provider that offers diffs and with one that has none, i.e. both comparisons of the middleware), new::base::Serial and the new API's signature time (the Timestamp returned by new::rdata::Rrsig::expiration(): partial_cmp, the five operators, into_int, Display, the conversion into rdata::dnssec::Timestamp, Range::contains, its own to_system_time); the sites are a table in the specification (SerialSites.tla: kind, site, operator of Serial.tla) from which every generated case takes one expectation per site and which the executor has to reproduce; validity windows InWindow(lo, hi, x) (new::edns::Cookie::verify, Range::contains over all four serial / time types) are checked for every triple incl. windows straddling the wrap; the freshness decision of the server cookies middleware (CookiesMiddlewareSvc::timestamp_ok: at most one hour old, at most five minutes ahead, both by RFC 1982) is specified as Fresh(now, ts, past, future) with its laws (window form = distance form = two serial comparisons, exactly past+future+1 fresh values at any clock value, never fresh at the undefined distance, shift invariance, Tick / Renew steps) checked by TLC for all k-bit (clock, timestamp) pairs, and every pair is lifted inside TLC to 32 bits in limb form (five clock offsets x eleven second offsets around both window ends, so that pairs exactly 2^31 apart, pairs more than 2^31 'ahead' numerically and pairs on either side of the 2^32 wrap occur for every clock value) and put to the real middleware with correctly hashed cookies and the process clock set to the case's clock value (prefetch request and deny-listed UDP query) and to base::opt::Cookie::check_server_hash; the placement of a signature time next to a reference time (to_system_time of both timestamp types) is specified as Place(ref, ts) with its order-embedding, shift and era laws and the documented contract (same serial, difference fits a signed 32-bit integer, hence a serial exactly 2^31 from the reference is placed at reference - 2^31: LawPlaceDoc, LawPlaceTie) checked by TLC for all reference times in three eras (6 bits quick, 7 thorough), and every case is lifted (independent offsets on reference and serial) and executed; the text entry points of Timestamp (FromStr, Timestamp::scan through IterScanner, the zone-file reader's RRSIG fields; date form and integer form; Display and the zone-file formatter) are specified as 'text denotes a time t, the field holds t mod 2^k' and executed for every pair of times in three eras with real dates rendered by the harness (2106-02-07 and later included); recorded library runs on dense 32-bit operands (boundary distances 2^31+-2, neighbourhoods of 0 and 2^32-1, panicking addends, the zone store's SOA serial bump on commit) are validated by TLC through a 16-bit-limb model that TLC proves equal to the integer model at small widths.",
    "note": "Trusted: TLC, the transcription of RFC 1982 in Serial.tla, the uniformity in the limb base of SerialLimbs.tla (equivalence is TLC-checked at limb widths 4/5, used at 16), the harness. zonetree's Version type is private (not driven; derives its order from Serial). The harness interposes clock_gettime(CLOCK_REALTIME) for the freshness sites (self-tested at start-up together with the harness's own SipHash). Sites that use serials/times but are not bound here (NotBound in SerialSites.tla, listed in the evidence): validator check_sig / ttl_for_sig (compare in plain u32 order through canonical_gt/lt and saturating_sub: an observation DESIGN 10.3 deliberately leaves outside the claim), Soa / Rrsig / Zonemd record ordering (plain order by design), net::client::stream and the XFR interpreter (serial equality only), zonetree Version (private), keyset UnixTime (64-bit). Dense 2^64 coverage is sampled by traces; the full sweep of all 2^32 differences uses a Rust reference that the same TLC runs bind to the spec and is reported separately as an extension, as is the optional Apalache run for BITS=32.",
    "technique": "TLA+ spec (Serial.tla, SerialLimbs.tla) + TLC exhaustive; spec->impl replay through scaled embedding; impl->spec limb-encoded trace validation; reference sweep and Apalache as extensions",
    "design_ref": "DESIGN.md §4 C17",
}

RESULTS = ["LT", "EQ", "GT", "UNDEF"]


def _count_case_kinds(path):
    """vacuity guard over the generated cases: every comparison result and
    both addition outcomes must occur"""
    c = {r: 0 for r in RESULTS}
    c["add_ok"] = 0
    c["add_panic"] = 0
    pat = re.compile(r'"serial":"(LT|EQ|GT|UNDEF)"')
    with open(path) as f:
        for line in f:
            if '"kind":"cmp"' in line:
                m = pat.search(line)
                if m:
                    c[m.group(1)] += 1
            elif '"serial":{"ok"' in line:
                c["add_ok"] += 1
            elif '"serial":{"panic"' in line:
                c["add_panic"] += 1
    return c


def _trace_stats(path):
    """kinds of recorded events; for placements the kind is derived from the
    *inputs* (era of the reference, whether the placed time has to cross an
    era boundary), never from the library's answer"""
    c = {}
    cur = 0
    for o in vlib.read_ndjson(path):
        if o["ev"] == "cmp":
            k = "cmp:" + o["serial"]
        elif o["ev"] == "add":
            k = "add:" + ("ok" if "ok" in o["serial"] else "panic")
        elif o["ev"] == "zonebump":
            k = "zonebump:" + ("ok" if "ok" in o["serial"] else "failed")
        elif o["ev"] == "place":
            r = (o["r"][0] << 16) | o["r"][1]
            d = (cur - r) % (1 << 32)
            if d == 1 << 31:
                how = "half"
            elif d < 1 << 31:
                how = "up" if cur < r else "same"
            else:
                how = "down" if cur > r else "same"
            k = "place:era%d:%s" % (o["era"], how)
        else:
            k = o["ev"]
        c[k] = c.get(k, 0) + 1
        if o["ev"] == "text":
            c["text:era%d" % o["era"]] = c.get("text:era%d" % o["era"], 0) + 1
        if o["ev"] == "instant":
            k = "instant:" + ("pre" if o["era"] < 0 else "post")
            c[k] = c.get(k, 0) + 1
        if o["ev"] == "window":
            # kind derived from the inputs only: shape of the window and where
            # the timestamp lies relative to it
            lo, hi = _val(o["lo"]), _val(o["hi"])
            w = (hi - lo) % (1 << 32)
            if w >= 1 << 31:
                k = "window:illformed"
            else:
                k = "window:%s:%s" % ("straddle" if lo > hi else "plain",
                                      "in" if (cur - lo) % (1 << 32) < w else "out")
            c[k] = c.get(k, 0) + 1
        if o["ev"] == "fresh":
            # kind derived from the inputs only: where the timestamp lies
            # relative to the clock, and whether the two are on different
            # sides of the wrap-around
            now = _val(o["now"])
            d = (cur - now) % (1 << 32)
            if d == 300 or d == (1 << 32) - 3600:
                k = "fresh:end"
            elif d <= 300 or d >= (1 << 32) - 3600:
                k = "fresh:in:%s" % ("straddle" if (cur < now) != (d >= 1 << 31) else "plain")
            elif d == 1 << 31:
                k = "fresh:half"
            else:
                k = "fresh:out:%s" % ("above" if cur > now else "below")
            c[k] = c.get(k, 0) + 1
        if o["ev"] == "set" or (o["ev"] in ("text", "instant") and "ok" in o["got"]):
            cur = (o["v"][0] << 16) | o["v"][1]
        elif o["ev"] in ("add", "zonebump") and "ok" in o["serial"]:
            cur = (o["serial"]["ok"][0] << 16) | o["serial"]["ok"][1]
    return c


def _site_table(cases_path):
    """the site table as the specification has it: the `sites` case of the
    generator (kind -> site -> operator; the executor had to return the same),
    joined with the api column of spec/SerialSites.tla"""
    table = None
    with open(cases_path) as f:
        for line in f:
            if '"kind":"sites"' in line:
                table = json.loads(line)["exp"]
                break
    if table is None:
        raise vlib.ToolError("the generator did not emit the site table")
    text = open(os.path.join(vlib.SPEC, "SerialSites.tla")).read()
    api = {}
    for m in re.finditer(r'\[kind \|-> "(\w+)", site \|-> "(\w+)",\s+op \|-> "(\w+)",\s+api \|-> "([^"]*)"\]',
                         text):
        api[(m.group(1), m.group(2))] = (m.group(3), m.group(4))
    rows = []
    for kind in sorted(table):
        for site in sorted(table[kind]):
            op, a = api.get((kind, site), (None, None))
            if op != table[kind][site]:
                raise vlib.ToolError("site table: %s/%s is %r in the generated case, %r in "
                                     "SerialSites.tla" % (kind, site, table[kind][site], op))
            rows.append({"kind": kind, "site": site, "operator": op, "api": a})
    if len(rows) != len(api):
        raise vlib.ToolError("site table: %d rows generated, %d in SerialSites.tla"
                             % (len(rows), len(api)))
    not_bound = [{"site": m.group(1), "why": m.group(2)} for m in
                 re.finditer(r'\[site \|-> "([^"]*)", why \|-> "([^"]*)"\]', text)]
    return rows, not_bound


def _val(limbs):
    return (limbs[0] << 16) | limbs[1]


def _cur_before(trace_path, index):
    """the machine's current serial before the event with 1-based `index`"""
    cur = 0
    for i, o in enumerate(vlib.read_ndjson(trace_path), 1):
        if i >= index:
            break
        if o["ev"] == "set" or (o["ev"] in ("text", "instant") and "ok" in o["got"]):
            cur = _val(o["v"])
        elif o["ev"] in ("add", "zonebump") and "ok" in o["serial"]:
            cur = _val(o["serial"]["ok"])
    return cur


def _confirm(ctx, calls, label):
    """Perform the given calls ("cmp a b" / "add a n") afresh on the real
    library in isolation and let TLC judge the recorded results.  Returns
    (accepted, rejection)."""
    pf = os.path.join(ctx.work, label + ".calls")
    with open(pf, "w") as f:
        f.write("\n".join(calls) + "\n")
    tr = os.path.join(ctx.work, label + ".ndjson")
    rc, out, err, _ = ctx.run_bin("record_serial", [tr, "0", "0", "--pairs", pf])
    if rc != 0:
        raise vlib.ToolError("record_serial --pairs failed: " + err[-500:])
    ok, res, rej = ctx.validate_trace("Trace_Serial", "Trace_Serial", tr, label=label)
    return ok, rej


def _reject_to_violation(ctx, trace_path, rej, what):
    """DESIGN §7.4: a rejected event is re-executed in isolation before it is
    reported."""
    idx = rej.get("matched", 0) + 1
    ev = rej.get("event", {})
    cur = _cur_before(trace_path, idx)
    if ev.get("ev") == "cmp":
        call = "cmp %d %d" % (cur, _val(ev["b"]))
    elif ev.get("ev") == "add":
        call = "add %d %d" % (cur, _val(ev["n"]))
    elif ev.get("ev") == "zonebump":
        call = "bump %d 0" % cur
    elif ev.get("ev") == "place":
        call = "place %d %d %d" % (cur, _val(ev["r"]), ev["era"])
    elif ev.get("ev") == "text":
        call = "text %d %d" % (ev["era"], _val(ev["v"]))
    elif ev.get("ev") == "instant":
        call = "instant %d %d" % (ev["era"] + 4, _val(ev["v"]))
    elif ev.get("ev") == "window":
        call = "window %d %d %d" % (cur, _val(ev["lo"]), _val(ev["hi"]))
    elif ev.get("ev") == "fresh":
        call = "fresh %d %d" % (cur, _val(ev["now"]))
    else:
        raise vlib.ToolError("trace rejected at a %r event: %r" % (ev.get("ev"), rej))
    ok, rej2 = _confirm(ctx, [call], "confirm")
    if ok:
        raise vlib.ToolError("rejected event %r did not reproduce in isolation" % call)
    ctx.violation(what, {"call": call, "cur": cur, "event": ev, "isolated": rej2})


def _apalache(ctx):
    """Extension, never part of the verdict: the four laws and Impl = RFC for
    BITS = 32 symbolically."""
    info = {"ran": False, "note": "extension; its failure or timeout never fails the check"}
    exe = shutil.which("apalache-mc")
    typed = os.path.join(vlib.SPEC, "Serial_typed.tla")
    if not exe or not os.path.exists(typed):
        info["skipped"] = "apalache-mc or spec/Serial_typed.tla not available"
        return info
    out_dir = os.path.join(ctx.work, "apalache")
    os.makedirs(out_dir, exist_ok=True)
    # AllLaws: the four laws + ImplCmp/ImplCmpNew = Cmp at BITS = 32;
    # LimbsMatch: SerialLimbs at limb width 16 = the integer model at BITS = 32
    invs = ["AllLaws", "LimbsMatch"]
    t = time.time()
    results = {}
    for inv in invs:
        left = int(300 - (time.time() - t))       # one 300 s budget for all
        if left < 15:
            results[inv] = "skipped (budget)"
            continue
        cmd = ["timeout", str(left), exe, "check", "--length=0", "--inv=" + inv,
               "--out-dir=" + out_dir, "--run-dir=" + os.path.join(out_dir, "run-" + inv),
               typed]
        try:
            p = subprocess.run(cmd, cwd=out_dir, stdout=subprocess.PIPE,
                               stderr=subprocess.STDOUT, text=True, timeout=left + 30)
            o = p.stdout
            if p.returncode == 124:
                results[inv] = "timeout"
            elif "The outcome is: NoError" in o:
                results[inv] = "NoError"
            else:
                m = re.search(r"The outcome is: (\w+)", o)
                results[inv] = m.group(1) if m else "rc=%d" % p.returncode
        except Exception as e:  # noqa: BLE001
            results[inv] = "error: %s" % e
        info["cmd"] = " ".join(cmd[2:6] + ["Serial_typed.tla"])
    info["ran"] = True
    info["results"] = results
    info["wall_s"] = round(time.time() - t, 1)
    info["all_proved_for_32_bits"] = all(v == "NoError" for v in results.values())
    info["obligations"] = len(invs)
    info["discharged"] = sum(1 for v in results.values() if v == "NoError")
    return info


def run(ctx):
    thorough = ctx.tier == "thorough"
    ctx.build("replay_serial", "record_serial", "sweep_serial")

    # 1. TLC decides the property on the specification -------------------
    mcs = [("MC_Serial", "mc-8bit")]
    if thorough:
        mcs.append(("MC_Serial_thorough", "mc-9bit"))
    for cfg, label in mcs:
        mc = ctx.tlc("MC_Serial", cfg, workers=8, label=label, timeout=3000)
        ctx.require_ok(mc, cfg)
        ctx.require_actions(mc, ACTIONS)
    if thorough:
        mp = ctx.tlc("MC_Serial", "MC_Serial_pairs", workers=8, label="mc-pairs-11bit",
                     coverage=False, timeout=3000)
        ctx.require_ok(mp, "MC_Serial_pairs")
    # placement of a serial next to a reference time (Timestamp::to_system_time)
    pl = ctx.tlc("MC_SerialPlace", "MC_SerialPlace_thorough" if thorough else "MC_SerialPlace",
                 workers=8, label="mc-place", timeout=3000)
    ctx.require_ok(pl, "MC_SerialPlace")
    ctx.require_actions(pl, ["Init", "Tick", "Later"])
    # signature times given as text: what the field holds, how fields compare
    tx = ctx.tlc("MC_SerialText", "MC_SerialText_thorough" if thorough else "MC_SerialText",
                 workers=8, label="mc-text", timeout=3000)
    ctx.require_ok(tx, "MC_SerialText")
    ctx.require_actions(tx, ["Init", "Tick1", "Tick2", "TickBoth"])
    # validity windows: membership, shift invariance, sliding
    wn = ctx.tlc("MC_SerialWindow", "MC_SerialWindow_thorough" if thorough else "MC_SerialWindow",
                 workers=8, label="mc-window", timeout=3000)
    ctx.require_ok(wn, "MC_SerialWindow")
    ctx.require_actions(wn, ["Init", "Shift", "Slide", "Renew"])
    # freshness of a timestamp at a clock value (server cookies middleware)
    fr = ctx.tlc("MC_SerialSites", "MC_SerialSites_thorough" if thorough else "MC_SerialSites",
                 workers=8, label="mc-sites", timeout=3000)
    ctx.require_ok(fr, "MC_SerialSites")
    ctx.require_actions(fr, ["Init", "Shift", "Tick", "Renew"])
    # the limb model used for 32-bit operands equals the integer model
    lim = ctx.tlc("MC_SerialLimbs", "MC_SerialLimbs_thorough" if thorough else "MC_SerialLimbs",
                  workers=8, label="limbs-equiv", timeout=3000)
    ctx.require_ok(lim, "MC_SerialLimbs")
    ctx.require_actions(lim, ["Init"])
    ctx.exhaustive_flags.append(True)

    # 2. S->I: every k-bit evaluation, lifted to 32 bits, on the real code --
    gens = [("Gen_Serial", "k8"), ("Gen_Serial_k5", "k5")]
    if thorough:
        gens.append(("Gen_Serial_thorough", "k10"))
    first = True
    kinds_total = {}
    for cfg, tag in gens:
        cases = os.path.join(ctx.work, "cases-%s.ndjson" % tag)
        gen = ctx.tlc("MC_Serial", cfg, workers=8, label="gen-" + tag, coverage=False,
                      cases_to=cases, count=False, timeout=3000)
        ctx.require_ok(gen, cfg)
        if gen.ncases < 2000:
            raise vlib.ToolError("generator %s produced too few cases" % cfg)
        kinds = _count_case_kinds(cases)
        for k, v in kinds.items():
            kinds_total[k] = kinds_total.get(k, 0) + v
        missing = [k for k, v in kinds.items() if v == 0]
        if missing:
            raise vlib.ToolError("vacuity: generated cases never have outcome %s" % missing)
        if first:
            first = False
            head = os.path.join(ctx.work, "head.ndjson")
            with open(cases) as f, open(head, "w") as g:
                for i, line in enumerate(f):
                    if i >= 50:
                        break
                    g.write(line)
            rc, out, err, _ = ctx.run_bin("replay_serial", ["--selftest-perturb"],
                                          stdin_path=head)
            ctx.selftest("perturbed expectation is reported by replay_serial", "FAIL " in out)
        ctx.replay_cases("replay_serial", cases, label="serial-" + tag)
        if tag == "k8":
            sites_bound, sites_not_bound = _site_table(cases)

    # text entry points: every pair of times in 3 eras, as dates and integers
    tcases = os.path.join(ctx.work, "cases-text.ndjson")
    tg = ctx.tlc("MC_SerialText", "Gen_SerialText_thorough" if thorough else "Gen_SerialText",
                 workers=8, label="gen-text", coverage=False, cases_to=tcases, count=False,
                 timeout=3000)
    ctx.require_ok(tg, "Gen_SerialText")
    if tg.ncases < 5000:
        raise vlib.ToolError("generator Gen_SerialText produced too few cases")
    n_text = n_inst = n_pre = n_cross = 0
    with open(tcases) as f:
        for line in f:
            if '"kind":"text"' in line:
                n_text += 1
            elif '"kind":"instant"' in line:
                n_inst += 1
                o = json.loads(line)["in"]
                if o["t1"] < 0 and o["t2"] < 0:
                    n_pre += 1
                elif (o["t1"] < 0) != (o["t2"] < 0):
                    n_cross += 1
    if n_text < 5000 or n_pre < 1000 or n_cross < 1000:
        raise vlib.ToolError("vacuity: text pairs %d, instant pairs before the epoch %d, "
                             "across it %d" % (n_text, n_pre, n_cross))
    kinds_total["text_pairs"] = n_text
    kinds_total["instant_pairs"] = n_inst
    kinds_total["instant_pairs_before_epoch"] = n_pre
    kinds_total["instant_pairs_across_epoch"] = n_cross
    ctx.replay_cases("replay_serial", tcases, label="serial-text")

    # validity windows: every triple (window start, end, timestamp)
    wcases = os.path.join(ctx.work, "cases-window.ndjson")
    wg = ctx.tlc("MC_SerialWindow",
                 "Gen_SerialWindow_thorough" if thorough else "Gen_SerialWindow",
                 workers=8, label="gen-window", coverage=False, cases_to=wcases, count=False,
                 timeout=3000)
    ctx.require_ok(wg, "Gen_SerialWindow")
    wk = {"accept": 0, "reject": 0, "any": 0, "straddle_accept": 0, "straddle_reject": 0}
    with open(wcases) as f:
        for line in f:
            m = re.search(r'"cookie":"(accept|reject|any)"', line)
            if not m:
                continue
            wk[m.group(1)] += 1
            if '"straddle":true' in line:
                wk["straddle_" + m.group(1)] += 1
    missing = [k for k, v in wk.items() if v == 0]
    if missing:
        raise vlib.ToolError("vacuity: window cases never have %s" % missing)
    for k, v in wk.items():
        kinds_total["window_" + k] = v
    ctx.replay_cases("replay_serial", wcases, label="serial-window")

    # freshness: every k-bit (clock, timestamp) pair, lifted by TLC in limb
    # form around both ends of the middleware's fixed window
    fcases = os.path.join(ctx.work, "cases-fresh.ndjson")
    fg = ctx.tlc("MC_SerialSites",
                 "Gen_SerialSites_thorough" if thorough else "Gen_SerialSites",
                 workers=8, label="gen-fresh", coverage=False, cases_to=fcases, count=False,
                 timeout=3000)
    ctx.require_ok(fg, "Gen_SerialSites")
    fk = {"accept": 0, "reject": 0, "any": 0, "straddle_accept": 0, "half_reject": 0,
          "above_reject": 0, "below_reject": 0}
    with open(fcases) as f:
        for line in f:
            m = re.search(r'"mwprefetch":"(accept|reject|any)"', line)
            if not m:
                continue
            fk[m.group(1)] += 1
            o = json.loads(line)["in"]
            now, ts = _val(o["now"]), _val(o["ts"])
            if m.group(1) == "accept" and o["straddle"]:
                fk["straddle_accept"] += 1
            if m.group(1) == "reject":
                if (ts - now) % (1 << 32) == 1 << 31:
                    fk["half_reject"] += 1
                elif ts > now:
                    fk["above_reject"] += 1
                else:
                    fk["below_reject"] += 1
    missing = [k for k, v in fk.items() if v == 0]
    if missing:
        raise vlib.ToolError("vacuity: freshness cases never have %s" % missing)
    for k, v in fk.items():
        kinds_total["fresh_" + k] = v
    ctx.replay_cases("replay_serial", fcases, label="serial-fresh")

    # placement cases: every (reference time in 3 eras, serial) pair
    pcases = os.path.join(ctx.work, "cases-place.ndjson")
    pg = ctx.tlc("MC_SerialPlace", "Gen_SerialPlace_thorough" if thorough else "Gen_SerialPlace",
                 workers=8, label="gen-place", coverage=False, cases_to=pcases, count=False,
                 timeout=3000)
    ctx.require_ok(pg, "Gen_SerialPlace")
    with open(pcases) as f:
        text = f.read()
    n_free = text.count('"free":true')
    n_con = text.count('"free":false')
    if n_free == 0 or n_con < 1000:
        raise vlib.ToolError("vacuity: placement cases free=%d constrained=%d" % (n_free, n_con))
    kinds_total["place_constrained"] = n_con
    kinds_total["place_free"] = n_free
    # the serial exactly half a cycle from the reference: the documented
    # result is the earlier time; per era of the reference, with the serial
    # numerically below / above the reference's, and before the epoch (free)
    ties = {}
    for line in text.splitlines():
        if '"tie":true' not in line:
            continue
        o = json.loads(line[line.index("{"):])["in"]
        m = 1 << o["k"]
        key = ("tie_free" if o["free"] else
               "tie_era%d_%s" % (o["ref"] // m, "below" if o["ts"] < o["ref"] % m else "above"))
        ties[key] = ties.get(key, 0) + 1
    eras = 1 + max(int(k[7]) for k in ties if k.startswith("tie_era"))
    want = (["tie_free", "tie_era0_below"]
            + ["tie_era%d_%s" % (e, s) for e in range(1, eras) for s in ("below", "above")])
    missing = [k for k in want if ties.get(k, 0) == 0]
    if missing or eras < 3:
        raise vlib.ToolError("vacuity: placement cases lack the ties %s (eras %d)"
                             % (missing, eras))
    kinds_total.update({"place_" + k: v for k, v in ties.items()})
    ctx.replay_cases("replay_serial", pcases, label="serial-place")

    # 3. I->S: recorded runs on dense 32-bit operands, judged through limbs --
    n_traces = 6 if thorough else 2
    n_events = 50000 if thorough else 20000
    tstats = {}
    events_validated = 0
    for i in range(n_traces):
        tr = os.path.join(ctx.work, "trace-%d.ndjson" % i)
        rc, out, err, _ = ctx.run_bin("record_serial", [tr, str(ctx.seed * 100 + i),
                                                         str(n_events)])
        if rc != 0:
            raise vlib.ToolError("record_serial failed: " + err[-500:])
        for k, v in _trace_stats(tr).items():
            tstats[k] = tstats.get(k, 0) + v
        ok, res, rej = ctx.validate_trace("Trace_Serial", "Trace_Serial", tr,
                                          label="trace-%d" % i)
        ctx.traces += 1
        if ok:
            events_validated += n_events
        else:
            if rej is None:
                raise vlib.ToolError("Trace_Serial failed without a rejection record")
            _reject_to_violation(ctx, tr, rej,
                                 "recorded library result is not RFC 1982 (Trace_Serial)")
        if i == 0:
            lines = open(tr).read().splitlines()
            ctx.sample(json.loads(lines[1]))
            ctx.sample(json.loads(lines[2]))
            # binding self-tests: TLC must reject a corrupted comparison
            # result and a corrupted sum
            for kind in ("cmp", "add", "window", "newts", "fresh"):
                bad = os.path.join(ctx.work, "trace-bad-%s.ndjson" % kind)
                lines2 = list(lines)
                for j, l in enumerate(lines2):
                    o = json.loads(l)
                    if kind == "cmp" and o["ev"] == "cmp" and o["serial"] == "LT" and j > 100:
                        o["serial"] = "GT"
                        lines2[j] = json.dumps(o)
                        break
                    if kind == "add" and o["ev"] == "add" and "ok" in o["serial"] and j > 100:
                        o["serial"]["ok"][1] ^= 1
                        lines2[j] = json.dumps(o)
                        break
                    if kind == "newts" and o["ev"] == "cmp" and o["newts"] == "UNDEF":
                        o["newts"] = "LT"
                        o["newtsrev"] = "LT"
                        lines2[j] = json.dumps(o)
                        break
                    if (kind == "fresh" and o["ev"] == "fresh" and j > 100
                            and o["mwprefetch"] == "reject" and o["mwdenied"] == "reject"
                            and (_val(o["now"]) - _cur_before(tr, j + 1)) % (1 << 32) > 1 << 31):
                        o["mwprefetch"] = "accept"
                        o["mwdenied"] = "accept"
                        lines2[j] = json.dumps(o)
                        break
                    if (kind == "window" and o["ev"] == "window" and j > 100
                            and o["cookie"] == "accept" and o["range"] == "accept"
                            and (_val(o["hi"]) - _val(o["lo"])) % (1 << 32) < 1 << 31):
                        o["cookie"] = "reject"
                        lines2[j] = json.dumps(o)
                        break
                open(bad, "w").write("\n".join(lines2) + "\n")
                ok2, _, _ = ctx.validate_trace("Trace_Serial", "Trace_Serial", bad,
                                               label="trace-selftest-" + kind)
                ctx.selftest("corrupted %s result is rejected by Trace_Serial" % kind, not ok2)
    need = ["set", "cmp:LT", "cmp:EQ", "cmp:GT", "cmp:UNDEF", "add:ok", "add:panic",
            "zonebump:ok", "place:era0:same", "place:era0:up", "place:era0:down",
            "place:era1:up", "place:era1:down", "place:era2:up", "place:half",
            "text:era0", "text:era1", "text:era2", "instant:pre", "instant:post",
            "window:plain:in", "window:plain:out", "window:straddle:in",
            "window:straddle:out", "window:illformed",
            "fresh:in:plain", "fresh:in:straddle", "fresh:end", "fresh:half",
            "fresh:out:above", "fresh:out:below"]
    tstats["place:half"] = sum(v for k, v in tstats.items()
                               if k.startswith("place:") and k.endswith(":half"))
    missing = [k for k in need if tstats.get(k, 0) == 0]
    if missing and not ctx.violations:
        raise vlib.ToolError("vacuity: recorded traces never contain %s" % missing)

    # 4. extension: sweep the 2^32 differences with the TLC-bound reference --
    bases = [(ctx.seed * 2654435761 + 12345) & 0xFFFFFFFF]
    if thorough:
        bases = [0, 1, 0x80000000, 0xFFFFFFFF] + bases
    # thorough: every difference; quick: every 61st difference plus dense
    # windows of 2^20 around the differences 0, 2^31 and 2^32
    sw = ["8", "1", "0"] if thorough else ["8", "61", str(1 << 20)]
    rc, out, err, wall = ctx.run_bin("sweep_serial", sw + [str(b) for b in bases],
                                     timeout=3000)
    sweep = None
    calls = []
    for line in out.splitlines():
        if line.startswith("SWEEP "):
            sweep = json.loads(line[6:])
        elif line.startswith("PAIR "):
            calls.append(line[5:])
    if sweep is None:
        raise vlib.ToolError("sweep_serial produced no summary: " + err[-500:])
    sweep["wall_s"] = round(wall, 1)
    sweep["note"] = ("extension: library vs the Rust reference ref_cmp/ref_add, which the "
                     "TLC runs above bind to Serial.tla; not counted in states/traces")
    if calls:
        # put the disagreeing calls before TLC: it, not the reference, decides
        ok, rej = _confirm(ctx, calls[:64], "sweep-confirm")
        if ok:
            raise vlib.ToolError("sweep disagreements %r are accepted by TLC: reference "
                                 "and library disagree but both match the spec?" % calls[:3])
        ctx.violation("sweep found a pair where the library is not RFC 1982 (confirmed by "
                      "Trace_Serial)", {"calls": calls[:8], "isolated": rej})
    ctx.stage("sweep", sweep)

    # 5. extension: Apalache, BITS = 32, symbolic --------------------------
    apa = _apalache(ctx)
    ctx.stage("apalache", apa)

    ctx.extra = {
        "sites_bound": sites_bound,
        "sites_listed_not_bound": sites_not_bound,
        "generated_case_outcomes": kinds_total,
        "trace_event_kinds": tstats,
        "trace_events_validated": events_validated,
        "extension_sweep": sweep,
        "extension_apalache_bits32": apa,
    }
    ctx.assume("Serial::add for an addend above 2^31-1 must panic: taken from the method's "
               "documentation ('# Panics'), RFC 1982 itself leaves that addition undefined")
    ctx.assume("at distance exactly 2^31 sign_rrset may accept or reject the validity period "
               "(RFC 1982 leaves the order undefined)")
    ctx.assume("the limb operators of SerialLimbs.tla are uniform in the limb base: their "
               "equality with Serial.tla is TLC-checked for all values at limb width 4 (5 in "
               "the thorough tier) and relied upon at width 16")
    ctx.assume("Soa's PartialOrd/Ord/CanonicalOrd compare serials as plain integers by design "
               "(record ordering, not zone-version ordering) and are not part of this property")
    ctx.assume("to_system_time: at distance exactly 2^31 the placed time is reference - 2^31 "
               "(documented: the difference fits in an i32, i.e. -2^31 .. 2^31-1); where the "
               "placement would lie before the epoch only 'result = ts (mod 2^32)' is required")
    ctx.assume("text forms: dates before 1970 and integer tokens above 2^32-1 are outside the "
               "property and not generated; dates are rendered by the harness's own "
               "days-to-civil routine (proleptic Gregorian, UTC, no leap seconds)")
    ctx.assume("zonetree Version (private type, derives PartialOrd from Serial) is not driven "
               "directly; Versioned::get's `item.0 <= version` would need 2^31 commits to wrap")
    ctx.assume("IXFR decision: RFC 1995 section 2 (same or newer client serial -> single SOA); "
               "a transfer is any answer with more than one record (diff sequence or AXFR "
               "fallback); at distance exactly 2^31 either answer is accepted")
    ctx.assume("freshness (RFC 9018 4.3): a timestamp exactly at an end of the window (one hour "
               "old, five minutes ahead) may be accepted or refused; the wall clock the "
               "middleware reads is the harness's interposed clock_gettime")
    ctx.assume("not bound (listed, not checked): validator check_sig/ttl_for_sig signature-time "
               "tests (plain u32 order by way of canonical_gt/lt and saturating_sub; observation "
               "outside the claim, DESIGN 10.3); record ordering of Soa / Rrsig / Zonemd; client "
               "stream / XFR interpreter use serial equality only")


def replay(ctx, case):
    """bin/check C17 --replay <file>"""
    ctx.build("replay_serial", "record_serial")
    c = case.get("case", case)
    if isinstance(c, dict) and "in" in c:
        p = os.path.join(ctx.work, "replay.ndjson")
        vlib.write_ndjson(p, [c])
        ctx.replay_cases("replay_serial", p, label="replay")
    elif isinstance(c, dict) and ("call" in c or "calls" in c):
        calls = [c["call"]] if "call" in c else c["calls"]
        ok, rej = _confirm(ctx, calls, "replay")
        if not ok:
            ctx.violation("replayed call is not RFC 1982", {"calls": calls, "isolated": rej})
    else:
        raise vlib.ToolError("unrecognised replay file")
    print("replay: %s" % ("VIOLATION reproduced" if ctx.violations else "no disagreement"))
