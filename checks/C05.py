"""C05 — record data of every type survives compose/parse (spec/Rdata.tla)."""
import json
import os
import vlib

ACTIONS = ["Init", "Next"]

META = {
    "category": "model_checking",
    "text": "The RDATA layout of all 38 record types the library implements (plus OPT options and unknown types) is one table in Rdata.tla, transcribed from the RFCs, with generic compose / parse / length / canonical-form operators. TLC checks the table's own laws (parse inverts compose, length, canonical form lower-cases exactly the RFC 4034 6.2 / RFC 6840 5.1 names, trailing octets rejected, compressed input names) over boundary values per field kind with up to 2 (quick) / 3 (thorough) fields varied per value. Every explored value, its compressed-name renderings and five damaged variants are replayed through the real parsers (AllRecordData, ZoneRecordData, UnknownRecordData), plain and compressing composers, rdlen and compose_canonical_rdata; the builders are bound to the table as small machines (RtypeBitmapBuilder add sequences, SvcParamsBuilder / from_values push orders, TxtBuilder operation sequences, AlpnBuilder), as are ProtoRrsig, the reference forwarding impls and flatten conversions; recorded runs on random values of every type up to the 65535-octet limit are validated by TLC against the table.",
    "note": "Trusted: TLC, the transcription of the RFC layouts in Rdata.tla, the harness. Inputs that break only an RFC content rule (empty TXT, non-minimal type bitmap, unordered SvcParams, short ZONEMD digest, undefined IPSECKEY gateway type) may be accepted or rejected. Per-type new() constructors of plain field structs are not bound to the table (values are obtained by parsing, through the listed builders, or by conversion). Field identity between wire and presentation format / accessors is not checked (a parse/compose pair that swaps two equal-width fields consistently is invisible here). Values beyond the boundary domains are sampled, not enumerated. Semantic validation of individual EDNS option / SvcParam values is not checked beyond framing.",
    "technique": "TLA+ spec (Rdata.tla table) + TLC exhaustive over boundary domains; spec->impl case replay; impl->spec trace validation",
    "design_ref": "DESIGN.md §4 C05",
}

ISSUE_DEV = {
    "value parsed back compares unequal (==)": "D_alldata_eq_opt_unknown",
}


def run(ctx):
    thorough = ctx.tier == "thorough"
    suffix = "_thorough" if thorough else ""
    ctx.build("replay_rdata", "record_rdata")
    # 1. the table satisfies its own laws
    mc = ctx.tlc("MC_Rdata", "MC_Rdata" + suffix, workers=8, label="mc")
    ctx.require_ok(mc, "MC_Rdata")
    ctx.require_actions(mc, ACTIONS)
    ctx.exhaustive_flags.append(False)   # boundary domains, not all values
    layout = mc.tagged.get("LAYOUT")
    if not layout or not isinstance(layout[0], dict):
        raise vlib.ToolError("MC_Rdata did not print the layout table")
    layout_path = os.path.join(ctx.work, "layout.json")
    json.dump(layout[0], open(layout_path, "w"))
    # the deviations, as statements about the table (documentation of the findings)
    devrun = ctx.tlc("MC_Rdata", "MC_Rdata_dev", workers=4, label="mc-dev", coverage=False,
                     count=False, expect_violation="LawImplEq")
    ctx.require_ok(devrun, "MC_Rdata_dev (expected counterexample for D_alldata_eq_opt_unknown)")
    # 2. S->I
    cases = os.path.join(ctx.work, "cases.ndjson")
    gen = ctx.tlc("MC_Rdata", "Gen_Rdata" + suffix, workers=8, label="gen", coverage=False,
                  cases_to=cases, count=False)
    ctx.require_ok(gen, "Gen_Rdata")
    if gen.ncases < 10000:
        raise vlib.ToolError("generator produced too few cases (%d)" % gen.ncases)
    head = os.path.join(ctx.work, "head.ndjson")
    with open(cases) as f, open(head, "w") as g:
        for i, line in enumerate(f):
            if i >= 50:
                break
            g.write(line)
    rc, out, err, _ = ctx.run_bin("replay_rdata", ["--selftest-perturb"], stdin_path=head)
    ctx.selftest("perturbed expectation is reported by replay_rdata", "FAIL " in out)
    ctx.replay_cases("replay_rdata", cases, label="rdata")
    # 3. I->S
    n_traces = 4 if thorough else 2
    n_events = 4000 if thorough else 1500
    devline = json.dumps({"ev": "devs", "open": sorted(ctx.open_devs)})
    for i in range(n_traces):
        raw = os.path.join(ctx.work, "raw-%d.ndjson" % i)
        rc, out, err, _ = ctx.run_bin("record_rdata", [raw, str(ctx.seed * 100 + i),
                                                        str(n_events), layout_path])
        if rc != 0:
            raise vlib.ToolError("record_rdata failed: " + err[-800:])
        tr = os.path.join(ctx.work, "trace-%d.ndjson" % i)
        lines = open(raw).read().splitlines()
        open(tr, "w").write("\n".join([devline] + lines) + "\n")
        ok, res, rej = ctx.validate_trace("Trace_Rdata", "Trace_Rdata", tr, label="trace-%d" % i,
                                          timeout=1500)
        ctx.traces += 1
        ctx.evaluations += len(lines)
        if not ok:
            ctx.violation("recorded record-data answers are not what the Layout table gives", rej)
        else:
            for l in lines:
                if '"issues":[]' in l or '"issues"' not in l:
                    continue
                e = json.loads(l)
                for d in sorted({ISSUE_DEV.get(x, "?") for x in e["issues"]}):
                    if d in ctx.open_devs:
                        ctx.known(d, {"rtype": e["rtype"], "rd": e["rd"][:64], "issues": e["issues"]})
        if i == 0:
            # binding self-test: corrupt one recorded canonical form / length
            bad = os.path.join(ctx.work, "trace-bad.ndjson")
            done = False
            for j, l in enumerate(lines):
                e = json.loads(l)
                if e.get("parse") == "ok" and len(e["canon"]) > 0 and j > 20:
                    e["canon"][-1] ^= 0x20
                    lines[j] = json.dumps(e)
                    done = True
                    break
            open(bad, "w").write("\n".join([devline] + lines) + "\n")
            ok2, _, _ = ctx.validate_trace("Trace_Rdata", "Trace_Rdata", bad, label="trace-selftest")
            ctx.selftest("corrupted trace is rejected by Trace_Rdata", done and not ok2)
    ctx.assume("inputs breaking only an RFC content rule (soft failures of ParseRd) may be accepted or rejected")
    ctx.assume("which embedded names are compressed on compressing targets is not judged: only a consistent RDLENGTH and a re-parse to an equal value with the same uncompressed octets are required there")
    ctx.assume("compressed names on input are generated only for the RFC 1035 types")
    ctx.assume("error class is not compared, only accept/reject")


def replay(ctx, case):
    """bin/check C05 --replay <file>: re-executes one failing case (S->I) or
    one rejected recorded event (I->S) against the current tree."""
    c = case.get("case", case)
    if "in" in c:
        ctx.build("replay_rdata")
        path = os.path.join(ctx.work, "replay.ndjson")
        vlib.write_ndjson(path, [{"in": c["in"], "exp": c["exp"], "dev": c.get("dev", {})}])
        ctx.replay_cases("replay_rdata", path, label="replay")
    elif "event" in c:
        path = os.path.join(ctx.work, "replay-trace.ndjson")
        vlib.write_ndjson(path, [{"ev": "devs", "open": sorted(ctx.open_devs)}, c["event"]])
        ok, res, rej = ctx.validate_trace("Trace_Rdata", "Trace_Rdata", path, label="replay-trace")
        if not ok:
            ctx.violation("recorded event is not what the specification gives", rej)
    else:
        raise vlib.ToolError("unrecognised replay file")
