"""C05 — record data of every type survives compose/parse (spec/Rdata.tla)."""
import json
import os
import vlib

ACTIONS = ["Init", "Next"]

META = {
    "category": "model_checking",
    "text": "The RDATA layout of all 38 record types the library implements (plus OPT options and unknown types) is one table in Rdata.tla, transcribed from the RFCs, with generic compose / parse / length / canonical-form operators. TLC checks the table's own laws (parse inverts compose, length, canonical form lower-cases exactly the RFC 4034 6.2 / RFC 6840 5.1 names, trailing octets rejected, compressed input names) over boundary values per field kind with up to 2 (quick) / 3 (thorough) fields varied per value. Every explored value, its compressed-name renderings and five damaged variants are replayed through the real parsers (AllRecordData, ZoneRecordData, UnknownRecordData), plain and compressing composers, rdlen and compose_canonical_rdata; the builders are bound to the table as small machines (RtypeBitmapBuilder add sequences, SvcParamsBuilder / from_values push orders, TxtBuilder operation sequences, AlpnBuilder), as are ProtoRrsig, the reference forwarding impls and flatten conversions; recorded runs on random values of every type up to the 65535-octet limit are validated by TLC against the table. Values that are CONSTRUCTED rather than parsed are bound as well: the twelve EDNS options have a value model in Rdata.tla (OptArgOk / OptNorm: what each constructor documents to refuse and to normalise, e.g. ClientSubnet::new clamping both prefix lengths to the family's width and clearing the address bits beyond the source prefix; OptData / OptValueOf: the value's option data and its reading), MC_OptBuild.tla is the OPT record under construction (Push over the boundary grid of every constructor's argument space: client-subnet prefix 0 / 1 / 7 / 8 / 9 / 31 / 32 / 33 / 63..65 / 127..129 / 255 x scope x all-ones / alternating / single bit at each prefix boundary, both families; cookie server lengths 0..40; idle timeouts as durations around 65535 units; EDE codes x UTF-8 texts; algorithm and key-tag lists of even and odd length; ...) with laws LawNorm, LawOptRoundTrip, LawEcsPrivacy, LawRecord, LawRefused; every reachable record of one or two options is built in the real library through every constructor of the option type, Opt::push, OptRecord::push and the typed and generic OptBuilder pushes, and read back through Opt::iter (AllOptData and typed), first() and the typed getters; recorded runs do the same with random arguments (events optbuild). Every explored value of every record type is also built through the type's own new() / builder from its fields (mode ctor) and the LongRecordData boundary is probed at 65534 / 65535 / 65536 octets for 14 types (mode ctorlong).",
    "note": "Trusted: TLC, the transcription of the RFC layouts in Rdata.tla, the harness. Inputs that break only an RFC content rule (empty TXT, non-minimal type bitmap, unordered SvcParams, short ZONEMD digest, undefined IPSECKEY gateway type) may be accepted or rejected. Constructor arguments are boundary grids, not all values; option data beyond Big (300 / 400) octets is not constructed (the 65535-octet limit of a single option and Opt::push's record limit are not probed); an ExtendedError with text Some("") and one with no text are the same value (RFC 8914) and their == is not judged; Cookie::create_initial / create_response, random_padding (random) and the unsafe *_unchecked constructors are not driven. Field identity between wire and presentation format / accessors is not checked (a parse/compose pair that swaps two equal-width fields consistently is invisible here). Values beyond the boundary domains are sampled, not enumerated. Semantic validation of individual EDNS option / SvcParam values is not checked beyond framing.",
    "technique": "TLA+ spec (Rdata.tla table) + TLC exhaustive over boundary domains; spec->impl case replay; impl->spec trace validation",
    "design_ref": "DESIGN.md §4 C05",
}

ISSUE_DEV = {
    "value parsed back compares unequal (==)": "D_alldata_eq_opt_unknown",
}
OPT_ACTIONS = ["Init", "PushFirst", "PushMore"]
OPT_KINDS = ["NSID", "DAU", "DHU", "N3U", "ECS", "EXPIRE", "COOKIE", "KEEPALIVE", "PADDING",
             "CHAIN", "KEYTAG", "EDE"]


def optbuild_guard(path):
    """Vacuity guard of the constructor stage, keyed on the generated inputs:
    every option kind, refused arguments, records of two options, and the
    client-subnet grid at its corners (prefix 0 / beyond the family's width
    with address bits set, both families)."""
    kinds, refused, pairs, singles, corners = set(), 0, 0, 0, set()
    with open(path) as f:
        for line in f:
            c = json.loads(line)
            ps = c["in"]["pushes"]
            pairs += len(ps) > 1
            singles += len(ps) == 1
            refused += any("refused" in st for st in c["exp"]["steps"])
            for a in ps:
                kinds.add(a["o"])
                if a["o"] == "ECS" and any(a["addr"]):
                    bits = 32 if a["fam"] == 1 else 128
                    for name, hit in (("src0", a["src"] == 0), ("srcmax", a["src"] == bits),
                                      ("srcover", a["src"] > bits), ("scopeover", a["scope"] > bits),
                                      ("midoctet", 0 < a["src"] < bits and a["src"] % 8 != 0)):
                        if hit:
                            corners.add((a["fam"], name))
    missing = [k for k in OPT_KINDS if k not in kinds]
    if missing or refused < 10 or pairs < 100 or len(corners) < 10:
        raise vlib.ToolError("vacuity: constructor cases lack kinds %s / refused %d / pairs %d / "
                             "client-subnet corners %d of 10" % (missing, refused, pairs, len(corners)))
    return {"Init": 1, "PushFirst": singles, "PushMore": pairs}


def run(ctx):
    thorough = ctx.tier == "thorough"
    suffix = "_thorough" if thorough else ""
    ctx.build("replay_rdata", "record_rdata")
    # 1. the table satisfies its own laws
    mc = ctx.tlc("MC_Rdata", "MC_Rdata" + suffix, workers=8, label="mc")
    ctx.require_ok(mc, "MC_Rdata")
    ctx.require_actions(mc, ACTIONS)
    ctx.exhaustive_flags.append(False)   # boundary domains, not all values
    layout = mc.tagged.get("LAYOUT")
    if not layout or not isinstance(layout[0], dict):
        raise vlib.ToolError("MC_Rdata did not print the layout table")
    layout_path = os.path.join(ctx.work, "layout.json")
    json.dump(layout[0], open(layout_path, "w"))
    # the deviations, as statements about the table (documentation of the findings)
    devrun = ctx.tlc("MC_Rdata", "MC_Rdata_dev", workers=4, label="mc-dev", coverage=False,
                     count=False, expect_violation="LawImplEq")
    ctx.require_ok(devrun, "MC_Rdata_dev (expected counterexample for D_alldata_eq_opt_unknown)")
    # 1b. option values as the constructors and the OPT builders make them
    # (documented normalisation, refusal, value -> data -> value, the record)
    # (without TLC's coverage instrumentation, which takes 40 s to evaluate the
    # argument domain; which actions were taken is measured on the generated
    # behaviours below: one case per reachable state)
    mco = ctx.tlc("MC_OptBuild", "MC_OptBuild" + suffix, workers=8, label="mc-optbuild", coverage=False)
    ctx.require_ok(mco, "MC_OptBuild")
    ctx.exhaustive_flags.append(False)
    devrun2 = ctx.tlc("MC_OptBuild", "MC_OptBuild_dev", workers=4, label="mc-optbuild-dev",
                      coverage=False, count=False, expect_violation="LawImplReadsBack")
    ctx.require_ok(devrun2, "MC_OptBuild_dev (expected counterexample for D_understood_odd_len)")
    # 2. S->I
    cases = os.path.join(ctx.work, "cases.ndjson")
    gen = ctx.tlc("MC_Rdata", "Gen_Rdata" + suffix, workers=8, label="gen", coverage=False,
                  cases_to=cases, count=False)
    ctx.require_ok(gen, "Gen_Rdata")
    if gen.ncases < 10000:
        raise vlib.ToolError("generator produced too few cases (%d)" % gen.ncases)
    head = os.path.join(ctx.work, "head.ndjson")
    with open(cases) as f, open(head, "w") as g:
        for i, line in enumerate(f):
            if i >= 50:
                break
            g.write(line)
    rc, out, err, _ = ctx.run_bin("replay_rdata", ["--selftest-perturb"], stdin_path=head)
    ctx.selftest("perturbed expectation is reported by replay_rdata", "FAIL " in out)
    ctx.replay_cases("replay_rdata", cases, label="rdata")
    ocases = os.path.join(ctx.work, "cases-optbuild.ndjson")
    geno = ctx.tlc("MC_OptBuild", "Gen_OptBuild" + suffix, workers=8, label="gen-optbuild",
                   coverage=False, cases_to=ocases, count=False)
    ctx.require_ok(geno, "Gen_OptBuild")
    if geno.ncases < 3000:
        raise vlib.ToolError("constructor-case generator produced too few cases (%d)" % geno.ncases)
    taken = optbuild_guard(ocases)
    if geno.distinct != mco.distinct or sum(taken.values()) != geno.distinct:
        raise vlib.ToolError("MC_OptBuild: law run and generator run explored different state spaces")
    for a in OPT_ACTIONS:
        if taken[a] == 0:
            raise vlib.ToolError("vacuity: action never taken: " + a)
        if a != "Init":
            ctx.coverage_actions[a] = (taken[a], taken[a])
    ohead = os.path.join(ctx.work, "head-optbuild.ndjson")
    with open(ocases) as f, open(ohead, "w") as g:
        for i, line in enumerate(f):
            if i >= 20:
                break
            g.write(line)
    rc, out, err, _ = ctx.run_bin("replay_rdata", ["--selftest-perturb"], stdin_path=ohead)
    ctx.selftest("perturbed expectation of a constructor case is reported by replay_rdata", "FAIL " in out)
    ctx.replay_cases("replay_rdata", ocases, label="optbuild")
    # 3. I->S
    n_traces = 4 if thorough else 2
    n_events = 4000 if thorough else 1500
    devline = json.dumps({"ev": "devs", "open": sorted(ctx.open_devs)})
    for i in range(n_traces):
        raw = os.path.join(ctx.work, "raw-%d.ndjson" % i)
        rc, out, err, _ = ctx.run_bin("record_rdata", [raw, str(ctx.seed * 100 + i),
                                                        str(n_events), layout_path])
        if rc != 0:
            raise vlib.ToolError("record_rdata failed: " + err[-800:])
        tr = os.path.join(ctx.work, "trace-%d.ndjson" % i)
        lines = open(raw).read().splitlines()
        open(tr, "w").write("\n".join([devline] + lines) + "\n")
        ok, res, rej = ctx.validate_trace("Trace_Rdata", "Trace_Rdata", tr, label="trace-%d" % i,
                                          timeout=1500)
        ctx.traces += 1
        ctx.evaluations += len(lines)
        if not ok:
            ctx.violation("recorded record-data answers are not what the Layout table gives", rej)
        else:
            n_opt = 0
            for l in lines:
                if '"ev":"optbuild"' in l:
                    n_opt += 1
                    if '"unreadable"' in l and "D_understood_odd_len" in ctx.open_devs:
                        ctx.known("D_understood_odd_len", {"pushes": json.loads(l)["pushes"]})
                    continue
                if '"issues":[]' in l or '"issues"' not in l:
                    continue
                e = json.loads(l)
                for d in sorted({ISSUE_DEV.get(x, "?") for x in e["issues"]}):
                    if d in ctx.open_devs:
                        ctx.known(d, {"rtype": e["rtype"], "rd": e["rd"][:64], "issues": e["issues"]})
            if n_opt < n_events // 20:
                raise vlib.ToolError("vacuity: trace has only %d constructor-built OPT records" % n_opt)
        if i == 0:
            # binding self-test: corrupt one recorded canonical form / length
            bad = os.path.join(ctx.work, "trace-bad.ndjson")
            done = False
            for j, l in enumerate(lines):
                e = json.loads(l)
                if e.get("parse") == "ok" and len(e.get("canon", [])) > 0 and j > 20:
                    e["canon"][-1] ^= 0x20
                    lines[j] = json.dumps(e)
                    done = True
                    break
            open(bad, "w").write("\n".join([devline] + lines) + "\n")
            ok2, _, _ = ctx.validate_trace("Trace_Rdata", "Trace_Rdata", bad, label="trace-selftest")
            ctx.selftest("corrupted trace is rejected by Trace_Rdata", done and not ok2)
            lines2 = open(raw).read().splitlines()
            done = False
            for j, l in enumerate(lines2):
                e = json.loads(l)
                if e.get("ev") == "optbuild" and e["obs"].get("iter") and e["obs"]["issues"] == []:
                    for w in e["obs"]["iter"]:
                        if w["o"] == "ECS":
                            w["addr"][0] ^= 0x80           # an address bit the value does not have
                            done = True
                            break
                    if done:
                        lines2[j] = json.dumps(e)
                        break
            bad2 = os.path.join(ctx.work, "trace-bad-optbuild.ndjson")
            open(bad2, "w").write("\n".join([devline] + lines2[:j + 1]) + "\n")
            ok3, _, _ = ctx.validate_trace("Trace_Rdata", "Trace_Rdata", bad2, label="trace-selftest-optbuild")
            ctx.selftest("corrupted constructor event is rejected by Trace_Rdata", done and not ok3)
    ctx.assume("inputs breaking only an RFC content rule (soft failures of ParseRd) may be accepted or rejected")
    ctx.assume("which embedded names are compressed on compressing targets is not judged: only a consistent RDLENGTH and a re-parse to an equal value with the same uncompressed octets are required there")
    ctx.assume("compressed names on input are generated only for the RFC 1035 types")
    ctx.assume("error class is not compared, only accept/reject")


def replay(ctx, case):
    """bin/check C05 --replay <file>: re-executes one failing case (S->I) or
    one rejected recorded event (I->S) against the current tree."""
    c = case.get("case", case)
    if "in" in c:
        ctx.build("replay_rdata")
        path = os.path.join(ctx.work, "replay.ndjson")
        vlib.write_ndjson(path, [{"in": c["in"], "exp": c["exp"], "dev": c.get("dev", {})}])
        ctx.replay_cases("replay_rdata", path, label="replay")
    elif "event" in c:
        path = os.path.join(ctx.work, "replay-trace.ndjson")
        vlib.write_ndjson(path, [{"ev": "devs", "open": sorted(ctx.open_devs)}, c["event"]])
        ok, res, rej = ctx.validate_trace("Trace_Rdata", "Trace_Rdata", path, label="replay-trace")
        if not ok:
            ctx.violation("recorded event is not what the specification gives", rej)
    else:
        raise vlib.ToolError("unrecognised replay file")
