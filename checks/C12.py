"""C12 — RRSIG signed data, labels, key tags, DS digests (spec/Rrsig.tla)."""
import json
import os
import vlib

ACTIONS = ["Init", "Permute", "Recase", "DecTtl", "ExpandWildcard", "Compress", "Convert", "AltRdata",
           "AltOwner", "AltClass", "AltSigField", "DropRR", "AddRR", "AltSigBit", "AltKeyBit", "AltKeyAlg"]

META = {
    "category": "model_checking",
    "text": "Rrsig.tla states the RFC 4034 3.1.8.1 signed-data layout declaratively and transcribes the signer (sign_rrset / sign_sorted_rrset_in) and the validator-side reconstruction (RrsigExt::signed_data); it also states the key side: which algorithm numbers the backend signs and verifies with (a signature is a signature of its key's algorithm: a key or RRSIG relabelled as a sibling algorithm - 8/10, 13/14 - is another key), DNSKEY flag bits, key sizes, signature lengths and the RFC 3110 RSA public key layout. TLC checks over owners (apex, wildcard, mixed case, interior '*' labels, labels that merely begin with '*': *a.ex, **.a.ex), 19 RRsets of 16 types, one key per signing algorithm of the ring backend (RSASHA256, RSASHA512, ECDSA P-256 / P-384, Ed25519; obtained directly or through the BIND private-key format), resolver transforms (permute, recase, TTL decrement, wildcard expansion, compression, representation conversions: message round trip + flatten_into, OctetsFrom, the typed Dnskey / Ds / Nsec / Rrsig / ProtoRrsig parse + conversions, owner names as relative names chained to an origin) and 16 kinds of alteration (now also the RRSIG Algorithm field and the DNSKEY Algorithm field) that transforms preserve and alterations change the signed octets. SignerInput.tla / MC_SignerInput.tla state where the signer's RRsets come from: SortedRecords.tla (X07's ordered-set machine) is instantiated, a zone's records (case variants of one owner, the same record under another TTL or spelling, unknown types, a wildcard, apex SOA / NS) reach the collection by insert() one at a time in every arrival order, From<Vec> / collect() / extend() of the rest in every order and every mix of these, and the collection is edited on the way (remove_first / remove_all by owner and type or by owner alone, the records removed arriving again by insert() or extend() in every order; update_data() of a stored record to data that sorts first, last or equals a sibling's); TLC checks that the collection is canonical after every operation, that this is the precondition (CanonicalRrset) under which the entry points that trust the stored order (TrustingOctets: sign_sorted_rrset_in on rrsets(), sign_sorted_zone_records on owner_rrs(), sign_zone with AlreadyPresent / Nsec / Nsec3, in place and into another collection) and those that sort themselves (sign_rrset on rrsets() and on a caller's slice in arrival order) hand SignedData to sign_raw, and that the signature verifies over the RRset presented in every order; two mutants of the specification (insert with an append fast path; update_data that leaves the record in place) must violate the law. Every behaviour is replayed op by op (collection after every call) and through all 10 entry points, and RrsigExt::signed_data of each RRSIG over the caller's own records in reverse arrival order must rebuild the model's octets (recording key: octets per RRset; real Ed25519 key: every RRSIG, also those over generated NSEC / NSEC3 records, verifies over its RRset as stored, reversed and rotated). Key sizes: the RFC 3110 layout is checked at its limits on both sides (exponents of 1 .. 513 octets incl. the first three-octet length 256, moduli of 64 .. 513 octets; decode o encode = id exactly on 1..512 octets, refusal outside; ValidatorAccepts = what PublicKey::from_dnskey / verify_signed_data take, for every RSA algorithm number, incl. prohibited leading zero octets) and a 4096 bit RSA key (the RFC limit) signs and verifies like the others (SignerAccepts => ValidatorAccepts). Every explored state is replayed: the buffer captured by a recording SignRaw key (sign_rrset, sign_sorted_rrset_in on From<Vec> and on collect()ed SortedRecords) and the buffer rebuilt by signed_data must equal TLC's octets, ProtoRrsig::compose_canonical must equal the model's RRSIG prefix, a real ring key of the model's algorithm (RSA keys imported from the repository's BIND key files with parse_from_bind, the others generated; exported and re-imported with format_as_bind / parse_from_bind on the 'bind' route) must produce a signature of the model's length that verifies exactly when the model says so, the RFC 4035 B.6 RSA/SHA-1 vector must verify over the octets the model builds and fail for the key with any other Algorithm number, key_tag(), the SigningKey / Dnskey flag predicates, DnskeyExt::key_size, rsa_encode / rsa_exponent_modulus, the set of verifiable / signable algorithm numbers (all 256) and DnskeyExt::digest must equal TLC's arithmetic / the evaluated digest term. MC_Signer.tla models sign_sorted_rrset_in as a machine over the caller-owned scratch buffer (backend failure, retry / next RRset with the same buffer, non-empty buffer on entry, refusal to sign an RRSIG RRset; every behaviour of 3 / 4 calls replayed with a failing recording key and a failing real key). Recorded runs also build random zones of 20-150 records by random routes (zone-file-like arrival owner by owner with the records of an RRset in any order, random order, batches; RRsets or whole owners removed and arriving again, update_data) and sign them through a random entry point (event signzone: the collection as handed out is canonical, one sign_raw buffer per RRset = SignedData, real-key RRSIGs verify in any order), and sign with the 4096 bit RSASHA256 / RSASHA512 keys. SignedOrder.tla / MC_SignedOrder.tla bind the ORDER of the RRs inside the signed data (RFC 4034 6.3: canonical RDATA as octet strings, so length octets sort before content) to the layout table of Rdata.tla: a typed value becomes Rrsig.tla's field sequence, the two statements of the canonical form must agree (TablesAgree: LowerNameTypes against the table's `lower` column), and for every field of every zone record type the library has structured data for (35 types + 3 unknown) an RRset of 2-5 records is derived that differs only in that field, the field taking adversarial values of its kind (character strings / length-prefixed blobs / CAA tags b, aa, a; names b, aa, a.c, B.a; TXT string lists; type bitmaps; SVCB parameter lists; IPSECKEY gateways; opaque rests; big-endian integers), plus two-record RRsets whose two neighbouring fields disagree; TLC checks that signer and validator transcriptions equal the RFC term in every arrival order, that the order is CanonRdCmp of the table, and (MenuIsAdversarial / MenuIsComplete) that every variable-length field of every type has an RRset on which the field-wise natural comparison (content before length, names in name order, blobs by length, sets by members) is NOT the octet order. Each case is executed through sign_rrset (caller's slice), sign_sorted_rrset_in (From<Vec>, collect()), sign_sorted_zone_records on a zone that received the records by insert() in arrival order, the order in which SortedRecords stores them, RrsigExt::signed_data, a real Ed25519 signature made by the harness over the RFC construction's octets (must verify through signed_data + verify_signed_data over the reversed RRset) and the library's own signature checked against the RFC construction's octets. Recorded runs on random RRsets of 18 types (HINFO / NAPTR / CAA records that differ first in character strings of different lengths; shared scratch buffer, injected backend failures, owners with '*'-prefixed labels) and signatures by real keys of all five algorithms (TLC recomputes the key tag of the real key octets, signature length, key size; verification under the key, another key, the sibling algorithm) are validated by TLC.",
    "note": "Trusted: TLC, ring (signatures, SHA-1/256/384), the transcription of RFC 4034/4035/6840/3110 in Rrsig.tla. Canonical RDATA in Rrsig.tla uses a local per-type table (which embedded names are lower-cased); SignedOrder.tla checks it against the full Rdata.tla table (TablesAgree). The signed-order RRsets vary one field (or two neighbouring fields) of a fixed base value per type, one Ed25519 key, one owner (x.Yz under apex Yz; the NS RRset is a delegation there and the zone signer must not sign it). Signature validity times are not checked by verify_signed_data and not here. Duplicate RRs in a received RRset are outside the model (RFC 4034 6.3 allows rejecting them). RSA keys cannot be generated by ring: the two 2048-bit RSA keys of the repository's test-data/dnssec-keys and one 4096-bit key of the harness (harness/data/Krsa4096.+008, openssl genrsa 4096; also relabelled as RSASHA512) are used; the quick tier puts the 4096-bit key through every single transform and alteration (not stacked ones) on 3 RRsets x 3 owners. The backend's RSA minimum sizes (verify 1024, sign 2048 bits) are constants of the model. Signer-input zones have no cuts, nothing out of zone and one TTL per RRset. Quick tier: one edit per behaviour, in zones of 3 records (SOA + one RRset of A / TXT / wildcard TXT / unknown type / apex NS) once all records have arrived one at a time (the collection has no state but its content); thorough tier: at any point of any route. SortedRecords as a collection is X07's subject (SortedRecords.tla). Quick tier: only the Ed25519 key meets every RRset and owner, the other four algorithms meet 3 RRsets x 3 owners; alterations are not stacked on the 'typed' / 'chain' representations (thorough tier: all). (D_key_size_panic is fixed.)",
    "technique": "TLA+ spec (Rrsig.tla) + TLC exhaustive; spec->impl case replay with symbolic-crypto term evaluation; impl->spec trace validation",
    "design_ref": "DESIGN.md §4 C12",
}


def run(ctx):
    thorough = ctx.tier == "thorough"
    ctx.build("replay_dnssec", "record_dnssec")
    # model checking and case generation are one TLC run (Emit* invariants)
    cases = os.path.join(ctx.work, "cases.ndjson")
    mc = ctx.tlc("MC_Rrsig", "MC_Rrsig_thorough" if thorough else "MC_Rrsig", workers=8,
                 label="mc+gen", cases_to=cases)
    ctx.require_ok(mc, "MC_Rrsig")
    ctx.require_actions(mc, ACTIONS)
    ctx.exhaustive_flags.append(True)
    if mc.ncases < 1000:
        raise vlib.ToolError("generator produced too few cases")
    head = os.path.join(ctx.work, "head.ndjson")
    with open(cases) as f, open(head, "w") as g:
        for i, line in enumerate(f):
            if i >= 20:
                break
            g.write(line)
    rc, out, err, _ = ctx.run_bin("replay_dnssec", ["--selftest-perturb"], stdin_path=head)
    ctx.selftest("perturbed expectation is reported by replay_dnssec", "FAIL " in out)
    ctx.replay_cases("replay_dnssec", cases, label="rrsig")
    # the signer as a machine over the caller's scratch buffer: failing
    # backend, retry / next RRset with the same buffer, non-empty buffer
    scases = os.path.join(ctx.work, "signer-cases.ndjson")
    sm = ctx.tlc("MC_Signer", "MC_Signer_thorough" if thorough else "MC_Signer", workers=4,
                 label="mc-signer", cases_to=scases)
    ctx.require_ok(sm, "MC_Signer")
    ctx.require_actions(sm, ["Init", "SignOk", "SignFails", "CallerScratch", "SignRefused"])
    if sm.ncases < 100:
        raise vlib.ToolError("signer machine produced too few behaviours")
    ctx.replay_cases("replay_dnssec", scases, label="signer-machine")
    # where the signer's RRsets come from: every route into a SortedRecords
    # collection (SortedRecords.tla instantiated: "canonical after every op"
    # is the precondition of the entry points that trust the stored order) x
    # every entry point
    icases = os.path.join(ctx.work, "signer-input-cases.ndjson")
    si = ctx.tlc("MC_SignerInput", "MC_SignerInput_thorough" if thorough else "MC_SignerInput", workers=4,
                 label="mc-signer-input", cases_to=icases)
    ctx.require_ok(si, "MC_SignerInput")
    ctx.require_actions(si, ["Init", "DoInsert", "DoFrom", "DoExtend", "DoRemoveFirst", "DoRemoveAll", "DoUpdate"])
    ctx.exhaustive_flags.append(True)
    if si.ncases < 1000:
        raise vlib.ToolError("signer-input machine produced too few behaviours")
    # sensitivity of the model: insert() with a careless append fast path breaks the law
    mu = ctx.tlc("MC_SignerInput", "MC_SignerInput_mutant", workers=2, coverage=False, count=False,
                 label="signer-input-mutant", expect_violation="HandedIsSignedData")
    ctx.require_ok(mu, "MC_SignerInput with the append fast path must violate HandedIsSignedData")
    # ... and so does update_data() that leaves the record where it was
    mu2 = ctx.tlc("MC_SignerInput", "MC_SignerInput_mutant_update", workers=2, coverage=False, count=False,
                  label="signer-input-mutant-update", expect_violation="HandedIsSignedData")
    ctx.require_ok(mu2, "MC_SignerInput with update_data in place must violate HandedIsSignedData")
    ctx.replay_cases("replay_dnssec", icases, label="signer-input")
    # the ORDER of the RRs in the signed data is the order of their canonical
    # RDATA octets: RRsets derived from the layout table of Rdata.tla (every
    # variable-length field of every zone record type takes short-but-greater /
    # long-but-smaller / prefix values) through signer, zone signer, collection,
    # validator and real signatures over the RFC construction's octets
    ocases = os.path.join(ctx.work, "order-cases.ndjson")
    so = ctx.tlc("MC_SignedOrder", "MC_SignedOrder_thorough" if thorough else "MC_SignedOrder", workers=4,
                 label="mc-signed-order", cases_to=ocases)
    ctx.require_ok(so, "MC_SignedOrder")
    ctx.require_actions(so, ["Init", "Reverse", "Rotate"])
    ctx.exhaustive_flags.append(True)
    if so.ncases < 300:
        raise vlib.ToolError("signed-order model produced too few cases")
    ohead = os.path.join(ctx.work, "order-head.ndjson")
    with open(ocases) as f, open(ohead, "w") as g:
        for i, line in enumerate(f):
            if i >= 10:
                break
            g.write(line)
    rc, out, err, _ = ctx.run_bin("replay_dnssec", ["--selftest-perturb"], stdin_path=ohead)
    ctx.selftest("perturbed signed-order expectation is reported by replay_dnssec", "FAIL " in out)
    ctx.replay_cases("replay_dnssec", ocases, label="signed-order")
    # I->S
    n_traces = 4 if thorough else 2
    for i in range(n_traces):
        tr = os.path.join(ctx.work, "trace-%d.ndjson" % i)
        rc, out, err, _ = ctx.run_bin("record_dnssec", ["rrsig", tr, str(ctx.seed * 100 + i),
                                                         "600" if thorough else "250"])
        if rc != 0:
            raise vlib.ToolError("record_dnssec failed: " + err[-500:])
        ok, res, rej = ctx.validate_trace("Trace_Rrsig", "Trace_Rrsig", tr, label="trace-%d" % i)
        ctx.traces += 1
        if not ok:
            ctx.violation("recorded signer/validator run is not explained by Rrsig.tla", rej)
        if i == 0:
            bad = os.path.join(ctx.work, "trace-bad.ndjson")
            lines = open(tr).read().splitlines()
            for j, l in enumerate(lines):
                o = json.loads(l)
                if o["ev"] == "sign" and len(o["res"]["buf"]) > 20:
                    o["res"]["buf"][19] ^= 1
                    lines[j] = json.dumps(o)
                    break
            open(bad, "w").write("\n".join(lines) + "\n")
            ok2, _, _ = ctx.validate_trace("Trace_Rrsig", "Trace_Rrsig", bad, label="trace-selftest")
            ctx.selftest("corrupted trace is rejected by Trace_Rrsig", not ok2)
            lines = open(tr).read().splitlines()
            swapped = False
            for j, l in enumerate(lines):
                o = json.loads(l)
                if o["ev"] == "signzone" and len(o["stored"]) > 3:
                    o["stored"][1], o["stored"][2] = o["stored"][2], o["stored"][1]
                    lines[j] = json.dumps(o)
                    swapped = True
                    break
            if not swapped:
                raise vlib.ToolError("recorded run holds no signzone event")
            open(bad, "w").write("\n".join(lines) + "\n")
            ok3, _, _ = ctx.validate_trace("Trace_Rrsig", "Trace_Rrsig", bad, label="trace-selftest-order")
            ctx.selftest("trace whose collection hands its records out of order is rejected by Trace_Rrsig", not ok3)
    ctx.assume("canonical RDATA: local table of lower-cased-name types (RFC 4034 6.2 + RFC 6840 5.1) for A NS CNAME SOA PTR MX TXT AAAA SRV DNAME MINFO NAPTR NSEC DNSKEY DS CAA HINFO and unknown types; MC_SignedOrder checks it against the full Rdata.tla table for all zone types")
    ctx.assume("verification verdicts use freshly generated ring Ed25519 / ECDSA-P256 / ECDSA-P384 keys (key material differs per run, verdicts do not) and the RSASHA256 / RSASHA512 keys Ktest.+008+60616, Ktest.+010+46731 of the repository's test-data/dnssec-keys")
    ctx.assume("received RRsets contain no duplicate RRs")
    ctx.assume("signer-input zones: class IN, no zone cuts, nothing out of zone, one TTL per RRset (which RRsets sign_zone signs and mixed TTLs are X07's subject); the RSA 4096 bit key is harness/data/Krsa4096.+008 (openssl genrsa 4096), used as RSASHA256 and RSASHA512")
