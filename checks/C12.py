"""C12 — RRSIG signed data, labels, key tags, DS digests (spec/Rrsig.tla)."""
import json
import os
import vlib

ACTIONS = ["Init", "Permute", "Recase", "DecTtl", "ExpandWildcard", "Compress", "Convert", "AltRdata",
           "AltOwner", "AltClass", "AltSigField", "DropRR", "AddRR", "AltSigBit", "AltKeyBit"]

META = {
    "category": "model_checking",
    "text": "Rrsig.tla states the RFC 4034 3.1.8.1 signed-data layout declaratively and transcribes the signer (sign_rrset / sign_sorted_rrset_in) and the validator-side reconstruction (RrsigExt::signed_data); TLC checks over owners (apex, wildcard, mixed case), 19 RRsets of 16 types, resolver transforms (permute, recase, TTL decrement, wildcard expansion, compression, representation conversions: message round trip + flatten_into, OctetsFrom) and 14 kinds of alteration that transforms preserve and alterations change the signed octets. Every explored state is replayed: the buffer captured by a recording SignRaw key and the buffer rebuilt by signed_data must equal TLC's octets, real ring Ed25519 and ECDSA-P256 signatures must verify exactly when the model says so, the RFC 4035 B.6 RSA/SHA-1 vector must verify over the octets the model builds and fail for the key with any other Algorithm number, key_tag() and DnskeyExt::digest must equal TLC's arithmetic / the evaluated digest term. MC_Signer.tla models sign_sorted_rrset_in as a machine over the caller-owned scratch buffer (backend failure, retry / next RRset with the same buffer, non-empty buffer on entry; every behaviour of 3 / 4 calls replayed with a failing recording key and a failing real key). Recorded runs on random RRsets of 17 types (shared scratch buffer, injected backend failures) are validated by TLC.",
    "note": "Trusted: TLC, ring (signatures, SHA-1/256/384), the transcription of RFC 4034/4035/6840 in Rrsig.tla. Canonical RDATA uses a local per-type table (which embedded names are lower-cased) for the types exercised, not the full Rdata.tla. Signature validity times are not checked by verify_signed_data and not here. Duplicate RRs in a received RRset are outside the model (RFC 4034 6.3 allows rejecting them). RSA keys are not generated (recording key covers RSA algorithm numbers for layout only).",
    "technique": "TLA+ spec (Rrsig.tla) + TLC exhaustive; spec->impl case replay with symbolic-crypto term evaluation; impl->spec trace validation",
    "design_ref": "DESIGN.md §4 C12",
}


def run(ctx):
    thorough = ctx.tier == "thorough"
    ctx.build("replay_dnssec", "record_dnssec")
    # model checking and case generation are one TLC run (Emit* invariants)
    cases = os.path.join(ctx.work, "cases.ndjson")
    mc = ctx.tlc("MC_Rrsig", "MC_Rrsig_thorough" if thorough else "MC_Rrsig", workers=8,
                 label="mc+gen", cases_to=cases)
    ctx.require_ok(mc, "MC_Rrsig")
    ctx.require_actions(mc, ACTIONS)
    ctx.exhaustive_flags.append(True)
    if mc.ncases < 1000:
        raise vlib.ToolError("generator produced too few cases")
    head = os.path.join(ctx.work, "head.ndjson")
    with open(cases) as f, open(head, "w") as g:
        for i, line in enumerate(f):
            if i >= 20:
                break
            g.write(line)
    rc, out, err, _ = ctx.run_bin("replay_dnssec", ["--selftest-perturb"], stdin_path=head)
    ctx.selftest("perturbed expectation is reported by replay_dnssec", "FAIL " in out)
    ctx.replay_cases("replay_dnssec", cases, label="rrsig")
    # the signer as a machine over the caller's scratch buffer: failing
    # backend, retry / next RRset with the same buffer, non-empty buffer
    scases = os.path.join(ctx.work, "signer-cases.ndjson")
    sm = ctx.tlc("MC_Signer", "MC_Signer_thorough" if thorough else "MC_Signer", workers=4,
                 label="mc-signer", cases_to=scases)
    ctx.require_ok(sm, "MC_Signer")
    ctx.require_actions(sm, ["Init", "SignOk", "SignFails", "CallerScratch"])
    if sm.ncases < 100:
        raise vlib.ToolError("signer machine produced too few behaviours")
    ctx.replay_cases("replay_dnssec", scases, label="signer-machine")
    # I->S
    n_traces = 4 if thorough else 2
    for i in range(n_traces):
        tr = os.path.join(ctx.work, "trace-%d.ndjson" % i)
        rc, out, err, _ = ctx.run_bin("record_dnssec", ["rrsig", tr, str(ctx.seed * 100 + i),
                                                         "600" if thorough else "250"])
        if rc != 0:
            raise vlib.ToolError("record_dnssec failed: " + err[-500:])
        ok, res, rej = ctx.validate_trace("Trace_Rrsig", "Trace_Rrsig", tr, label="trace-%d" % i)
        ctx.traces += 1
        if not ok:
            ctx.violation("recorded signer/validator run is not explained by Rrsig.tla", rej)
        if i == 0:
            bad = os.path.join(ctx.work, "trace-bad.ndjson")
            lines = open(tr).read().splitlines()
            for j, l in enumerate(lines):
                o = json.loads(l)
                if o["ev"] == "sign" and len(o["res"]["buf"]) > 20:
                    o["res"]["buf"][19] ^= 1
                    lines[j] = json.dumps(o)
                    break
            open(bad, "w").write("\n".join(lines) + "\n")
            ok2, _, _ = ctx.validate_trace("Trace_Rrsig", "Trace_Rrsig", bad, label="trace-selftest")
            ctx.selftest("corrupted trace is rejected by Trace_Rrsig", not ok2)
    ctx.assume("canonical RDATA: local table of lower-cased-name types (RFC 4034 6.2 + RFC 6840 5.1) for A NS CNAME SOA PTR MX TXT AAAA SRV DNAME MINFO NAPTR NSEC DNSKEY DS CAA and unknown types")
    ctx.assume("verification verdicts use freshly generated ring Ed25519 and ECDSA-P256 keys (key material differs per run, verdicts do not)")
    ctx.assume("received RRsets contain no duplicate RRs")
