"""X09 — resolver lookups: SRV (RFC 2782), host and reverse-address lookups,
resolv.conf (spec/SrvLookup.tla, HostLookup.tla, RevName.tla,
ResolvConfFile.tla)."""
import json
import os
import re

import vlib

SRV_ACTIONS = ["A_Query", "A_Records", "A_Additional", "A_Sort", "A_Pick", "A_StreamNext"]
HOST_ACTIONS = ["A_AskA", "A_AskAAAA", "A_Join", "A_IsEmpty", "A_Canonical", "A_Iter"]
REPLAY_BIN = "replay_lookup"
ALL_DEVS = ["D_srv_weight_rescan", "D_host_canonical_loop_panic"]

META = {
    "category": "model_checking",
    "text": "Four specifications of domain::resolv beyond the query machine of X04. SrvLookup.tla: lookup_srv / FoundSrvs / SrvItem::resolve as a machine (query, record selection by canonical owner, additional section, stable sort, the RFC 2782 weighted selection with the draw and the arrangement as nondeterministic choices, stream) - TLC checks exactly-once and priority order, the proportion law of the selection (a record of weight w is chosen by w or w+1 of the W+1 draws, an ordered record by none, every draw selects), that every admitted order is reachable, '.' alone = no service, fallback to the bare host iff there is no SRV record, lookup of a target iff the additional section has no address for it, and the exact sequence of questions. HostLookup.tla: two questions, failure only if both fail, AAAA-then-A union restricted to the canonical owner of each answer, no accessor panics. RevName.tla: the builder steps of reverse_from_addr equal the RFC 1035 3.5 / RFC 3596 2.5 name for boundary addresses, every octet value at every position and nibble patterns; invertible, injective, never too long. ResolvConfFile.tla: ResolvConf::parse as a line machine (lexer law, nameserver accumulation, domain/search last wins, option words, whole file = lines up to the first failure, finalize). Every generated world / address / file is executed on the real functions with a scripted in-memory Resolver (questions asked, results, state after every line); the weighted order is judged over thousands of draws (permutation, every RFC-possible order observed, frequencies inside the RFC bounds); random runs with up to 8 records, weights up to 1000, random addresses and 40-line files are validated by TLC (Trace_Lookup.tla).",
    "note": "Properties stated by the builder (extension, not in properties.jsonl). Trusted: TLC, the scripted resolver and message builder of the harness. The random draws of rand::rng() cannot be seeded from outside: the statistical stage uses bounds about 8 standard deviations wide so that it cannot flake, and the set of reachable orders instead of the draws. resolv.conf caps of glibc (ndots 15, timeout 30, attempts 5) are not applied by the library and not demanded; `nameserver` arguments that are not IP literals (the library hands them to the system resolver) are outside the vocabulary. search_host is covered by X04.",
    "technique": "TLA+ specs + TLC exhaustive (safety, termination); spec->impl case replay incl. a statistical stage; impl->spec trace validation",
    "design_ref": "DESIGN.md §8 (stub resolver), §10.7",
}


def _canon(x):
    return json.dumps(x, separators=(",", ":"))


def postprocess(src, dst, open_devs, thorough):
    """TLC prints one case per world; add the run counts, sort order-free
    bags the way the executor does, and turn the generator's deviation
    predictions (devp / devcover) into `dev` expectations."""
    n = 0
    ndev = 0
    with open(src) as f, open(dst, "w") as g:
        for line in f:
            c = json.loads(line)
            devp = c.pop("devp", False)
            devcover = c.pop("devcover", True)
            fam = c["in"]["fam"]
            if fam == "srv":
                c["exp"]["items"].sort(key=_canon)
                c["in"]["runs"] = 200 if devp else (24 if thorough else 8)
                if devp:
                    c["dev"] = {"D_srv_weight_rescan": {"panic": True}}
            elif fam == "merge":
                c["exp"]["bag"].sort(key=_canon)
                c["in"]["runs"] = 200 if devp else 8
                if devp:
                    c["dev"] = {"D_srv_weight_rescan": {"panic": True}}
            elif fam == "srvstat":
                c["in"]["draws"] = 20000 if thorough else 6000
                c["in"]["tol"] = 0.03 if thorough else 0.05
                if devp:
                    c["dev"] = {"D_srv_weight_rescan": {"panic": True}}
                elif not devcover:
                    c["dev"] = {"D_srv_weight_rescan": {"panic": False, "perm": True, "cover": False}}
            elif fam == "host":
                if devp:
                    d = json.loads(json.dumps(c["exp"]))
                    d["res"]["canon"] = "panic"
                    c["dev"] = {"D_host_canonical_loop_panic": d}
            elif fam == "conf":
                for st in [s["st"] for s in c["exp"]["steps"]] + [c["exp"]["whole"]["st"], c["exp"]["fin"]]:
                    st["flags"] = sorted(st["flags"])
            if "dev" in c:
                ndev += 1
            g.write(_canon(c) + "\n")
            n += 1
    return n, ndev


def gen(ctx, module, cfg, label, thorough, minimum, mc=False, workers=6):
    raw = os.path.join(ctx.work, label + ".raw.ndjson")
    res = ctx.tlc(module, cfg, workers=workers, label=label, coverage=False, cases_to=raw,
                  count=mc, timeout=3000)
    ctx.require_ok(res, label)
    out = os.path.join(ctx.work, label + ".ndjson")
    n, ndev = postprocess(raw, out, ctx.open_devs, thorough)
    if n < minimum:
        raise vlib.ToolError("generator %s produced too few cases (%d)" % (label, n))
    ctx.stage("cases:" + label, {"cases": n, "with_deviation": ndev})
    return out


def head(ctx, path, n, name):
    p = os.path.join(ctx.work, name)
    with open(path) as f, open(p, "w") as g:
        for i, line in enumerate(f):
            if i >= n:
                break
            g.write(line)
    return p


def corrupt(lines, pred, change):
    out = list(lines)
    for j, l in enumerate(out):
        o = json.loads(l)
        if pred(o):
            change(o)
            out[j] = json.dumps(o)
            return out
    return None


def run(ctx):
    thorough = ctx.tier == "thorough"
    T = "_thorough" if thorough else ""
    ctx.build("replay_lookup", "record_lookup")

    # ---------------------------------------------------------------- 1. TLC
    mc = ctx.tlc("MC_SrvLookup", "MC_SrvLookup_order" + T, workers=6, label="mc-srv-order", timeout=3000)
    ctx.require_ok(mc, "MC_SrvLookup order")
    ctx.require_actions(mc, SRV_ACTIONS)
    mc = ctx.tlc("MC_SrvLookup", "MC_SrvLookup_resolve", workers=6, label="mc-srv-resolve", timeout=3000)
    ctx.require_ok(mc, "MC_SrvLookup resolve")
    ctx.require_actions(mc, ["A_Query", "A_Records", "A_Additional", "A_Sort", "A_StreamNext"])
    # the deviations are visible on the specification
    for cfg, inv in [("MC_SrvLookup_dev_panic", "I_NoPanic"), ("MC_SrvLookup_dev_law", "I_Proportion")]:
        d = ctx.tlc("MC_SrvLookup", cfg, workers=2, label=cfg, coverage=False, expect_violation=inv, count=False)
        ctx.require_ok(d, cfg + " (%s must fail with D_srv_weight_rescan)" % inv)
    mc = ctx.tlc("MC_HostLookup", "MC_HostLookup" + T, workers=6, label="mc-host", timeout=3000)
    ctx.require_ok(mc, "MC_HostLookup")
    ctx.require_actions(mc, HOST_ACTIONS)
    d = ctx.tlc("MC_HostLookup", "MC_HostLookup_dev", workers=2, label="mc-host-dev", coverage=False,
                expect_violation="I_NoPanic", count=False)
    ctx.require_ok(d, "MC_HostLookup_dev (I_NoPanic must fail with D_host_canonical_loop_panic)")
    mc = ctx.tlc("MC_RevName", "MC_RevName" + T, workers=6, label="mc-rev", timeout=3000)
    ctx.require_ok(mc, "MC_RevName")
    ctx.require_actions(mc, ["A_Step"])
    if thorough:
        mc = ctx.tlc("MC_ResolvConfFile", "MC_ResolvConfFile_thorough", workers=8, label="mc-conf-4",
                     coverage=False, timeout=3000)
        ctx.require_ok(mc, "MC_ResolvConfFile (4 lines)")
    ctx.exhaustive_flags.append(True)

    # ---------------------------------------------------------------- 2. S->I
    files = []
    files.append(("srv-order", gen(ctx, "MC_SrvLookup", "Gen_SrvLookup_order" + T, "gen-srv-order", thorough, 300)))
    files.append(("srv-resolve", gen(ctx, "MC_SrvLookup", "Gen_SrvLookup_resolve", "gen-srv-resolve", thorough, 1000)))
    files.append(("srv-merge", gen(ctx, "MC_SrvLookup", "Gen_SrvLookup_merge", "gen-srv-merge", thorough, 1000)))
    files.append(("host", gen(ctx, "MC_HostLookup", "Gen_HostLookup" + T, "gen-host", thorough, 3000)))
    files.append(("rev", gen(ctx, "MC_RevName", "Gen_RevName" + T, "gen-rev", thorough, 1500)))
    # the resolv.conf machine is model-checked and emits its behaviours in the same run
    files.append(("conf-core", gen(ctx, "MC_ResolvConfFile", "MC_ResolvConfFile", "mc+gen-conf-core", thorough,
                                   20000, mc=True)))
    files.append(("conf-opts", gen(ctx, "MC_ResolvConfFile", "MC_ResolvConfFile_opts", "mc+gen-conf-opts",
                                   thorough, 5000, mc=True)))
    files.append(("conf-full", gen(ctx, "MC_ResolvConfFile", "MC_ResolvConfFile_full", "mc+gen-conf-full",
                                   thorough, 15000, mc=True)))
    files.append(("conf-lex", gen(ctx, "Gen_ConfLex", "Gen_ConfLex" + T, "gen-conf-lex", thorough, 9000)))

    # binding self-tests: a perturbed expectation must be reported, for every family
    for label, path in files:
        h = head(ctx, path, 20, "head-%s.ndjson" % label)
        rc, out, err, _ = ctx.run_bin("replay_lookup", ["--selftest-perturb"], stdin_path=h)
        ctx.selftest("perturbed expectation is reported by replay_lookup (%s)" % label, "FAIL " in out)
    # a world whose additional section loses a record must be noticed
    probe = {"in": {"fam": "srv", "srv": "ok", "alias": False, "port": 80, "runs": 4,
                    "recs": [[0, 0, 443, 1, 1]], "addl": [], "hosts": ["Data", "Data"]},
             "exp": {"res": "found", "q0": ["svc", "SRV"], "prio_ok": True, "same_order": True, "panic": False,
                     "items": [[0, 0, 443, 1, "addl", [[0, 1, 4, 1]], []]]}}
    pp = os.path.join(ctx.work, "probe.ndjson")
    vlib.write_ndjson(pp, [probe])
    rc, out, err, _ = ctx.run_bin("replay_lookup", [], stdin_path=pp)
    ctx.selftest("an address taken from a lookup instead of the additional section is reported", "FAIL " in out)
    # a skewed expectation of the statistical stage must be noticed
    probe = {"in": {"fam": "srvstat", "ws": [1, 1], "draws": 6000, "tol": 0.05,
                    "orders": [[[1, 2], [9, 10, 10]], [[2, 1], [0, 1, 10]]]},
             "exp": {"panic": False, "perm": True, "cover": True, "law": True}}
    vlib.write_ndjson(pp, [probe])
    rc, out, err, _ = ctx.run_bin("replay_lookup", [], stdin_path=pp)
    ctx.selftest("frequencies outside the bounds are reported by the statistical stage", "FAIL " in out)

    for label, path in files:
        ctx.replay_cases("replay_lookup", path, label=label, timeout=3000)

    # ---------------------------------------------------------------- 3. I->S
    open_devs = [d for d in ALL_DEVS if d in ctx.open_devs]
    tcfg = open(os.path.join(vlib.SPEC, "Trace_Lookup.cfg")).read()
    tcfg = re.sub(r"Dev = \{[^}]*\}", "Dev = {" + ", ".join('"%s"' % d for d in open_devs) + "}", tcfg)
    open(os.path.join(ctx.work, "Trace_Lookup.cfg"), "w").write(tcfg)
    trel = os.path.relpath(os.path.join(ctx.work, "Trace_Lookup"), vlib.SPEC)
    n_traces = 6 if thorough else 2
    runs = 500 if thorough else 250
    for i in range(n_traces):
        tr = os.path.join(ctx.work, "trace-%d.ndjson" % i)
        rc, out, err, _ = ctx.run_bin("record_lookup", [tr, str(ctx.seed * 100 + i), str(runs)])
        if rc != 0:
            raise vlib.ToolError("record_lookup failed: " + err[-500:])
        ok, res, rej = ctx.validate_trace("Trace_Lookup", trel, tr, label="trace-%d" % i, timeout=3000)
        ctx.traces += runs
        lines = open(tr).read().splitlines()
        for l in lines:
            o = json.loads(l)
            if o["ev"] in ("srv",) and o.get("res") == "panic" or o["ev"] == "merge" and o.get("panic"):
                ctx.known("D_srv_weight_rescan", o)
            if o["ev"] == "host" and o.get("canon") == "panic":
                ctx.known("D_host_canonical_loop_panic", o)
        if not ok:
            ctx.violation("recorded lookup run is not a behaviour of the X09 specifications",
                          rej or {"violated": res.violated, "trace": tr})
        if i == 0:
            def check(name, bad):
                if bad is None:
                    raise vlib.ToolError("trace self-test '%s': no suitable event recorded" % name)
                p = os.path.join(ctx.work, "trace-bad.ndjson")
                open(p, "w").write("\n".join(bad) + "\n")
                ok2, _, _ = ctx.validate_trace("Trace_Lookup", trel, p, label="trace-selftest")
                ctx.selftest(name, not ok2)

            def swap_prio(o):
                o["order"][0], o["order"][-1] = o["order"][-1], o["order"][0]
                o["ys"][0], o["ys"][-1] = o["ys"][-1], o["ys"][0]
            check("trace with a low-priority target handed out first is rejected",
                  corrupt(lines, lambda o: o["ev"] == "srv" and o["res"] == "found" and len(o["order"]) >= 2
                          and o["order"][0][0] != o["order"][-1][0], swap_prio))

            def drop_q(o):
                o["asked"] = o["asked"][:-1]
            check("trace with a missing AAAA question is rejected",
                  corrupt(lines, lambda o: o["ev"] == "srv" and len(o["asked"]) >= 3, drop_q))

            def bad_label(o):
                o["q"][1] = [ord("7"), ord("7"), ord("7")]
            check("trace with a wrong reverse name is rejected",
                  corrupt(lines, lambda o: o["ev"] == "rev", bad_label))

            def bad_conf(o):
                o["st"]["search"] = o["st"]["search"][:-1]
            check("trace with a search list that lost its last entry is rejected",
                  corrupt(lines, lambda o: o["ev"] == "conf_line" and len(o["st"]["search"]) >= 1, bad_conf))

            def bad_host(o):
                o["addrs"] = list(reversed(o["addrs"]))
            check("trace with A addresses before AAAA addresses is rejected",
                  corrupt(lines, lambda o: o["ev"] == "host" and len(o["addrs"]) >= 2
                          and o["addrs"][0][2] != o["addrs"][-1][2], bad_host))

    ctx.assume("the draws of rand::rng() are not observable: orders are judged as sets and by frequency (bounds +- 0.05 at 6000 draws, +- 0.03 at 20000), not draw by draw")
    ctx.assume("RFC 2782 leaves the arrangement of the unordered records free (weight 0 first): the specification admits every arrangement, so a weight-0 record may have probability 0..1/(W+1)")
    ctx.assume("error values are compared by accept/reject; the resolv.conf vocabulary is a fixed table of words whose meaning (address, domain name, number) is given by the specification")
    ctx.assume("the scripted resolver answers every question immediately; concurrency of the A/AAAA pair is not explored (the questions are issued in program order)")
