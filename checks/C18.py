"""C18 — Base16/32/64 codecs (spec/BaseN.tla)."""
import os
import vlib

ACTIONS = ["Init", "Next"]
REPLAY_BIN = "replay_basen"

# read by bin/mkmanifest
META = {
    "category": "model_checking",
    "text": "TLC explores the three transcribed decoder machines exhaustively over 7 character classes up to length 6 (quick) / 8 (thorough) and proves them equal to the RFC 4648 functions, index-safe and error-sticky; every explored text (415k quick) and every octet string over 4 boundary octets is replayed into the real Decoder / decode / SymbolConverter / encoders, and recorded runs on long random texts are validated by TLC against the machines. Symbol level: the three SymbolConverters and the NSEC3 salt wrapper are transcribed call by call and explored over every Symbol kind (plain, simple escape, decimal escape, end of token) x value class (alphabet, padding, '-', other printable, non-printable, >= 0x80); TLC proves converter-over-symbols = RFC 4648 function over the characters the symbols denote (SymChar: a decimal escape never denotes a character); every explored sequence, every kind x octet value 0..255 at every group position, and malformed escape sequences are replayed through process_symbol/process_tail call by call, IterScanner convert_token/convert_entry, the zone-file reader (DS, NSEC3, OPENPGPKEY, NSEC3PARAM salt, SVCB ech) and the string API; recorded converter / IterScanner / Nsec3Salt::scan runs over random symbol sequences are validated by TLC.",
    "note": "Trusted: TLC, the transcription of RFC 4648 in BaseN.tla, the reading of the Symbol documentation in SymChar, the harness executor. Only accept/reject and decoded octets are compared, not the error class. Texts beyond the explored lengths are sampled (recorded traces), not enumerated. The NSEC3 salt converter is private to Nsec3Salt::scan and is reached through the two real scanners only (symbols a parser can produce). Open: D_iter_bad_escape_ends_token (IterScanner truncates a token at a malformed escape).",
    "technique": "TLA+ spec (BaseN.tla) + TLC exhaustive; spec->impl case replay; impl->spec trace validation",
    "design_ref": "DESIGN.md §4 C18",
}


def explain(ctx, dev):
    """Model-check the decoder machines with one deviation switched on and
    print TLC's counterexample (documentation of a finding)."""
    import re
    cfg = open(os.path.join(vlib.SPEC, "MC_BaseN.cfg")).read()
    cfg = re.sub(r"Dev = \{\}", 'Dev = {"%s"}' % dev, cfg)
    open(os.path.join(vlib.SPEC, "MC_BaseN_explain.cfg"), "w").write(cfg)
    try:
        res = ctx.tlc("MC_BaseN", "MC_BaseN_explain", workers=4, label="explain", coverage=False)
        print(open(res.log).read()[-3000:])
    finally:
        os.remove(os.path.join(vlib.SPEC, "MC_BaseN_explain.cfg"))


def sym_guard(path):
    """Vacuity guard on the *inputs* of the symbol-level cases: every symbol
    kind must occur in texts that reach each reader, decimal escapes of
    alphabet / padding / '-' values included, and there must be accepted texts
    written with simple escapes."""
    import json
    need = {"dec-alpha-it": 0, "dec-alpha-zf": 0, "dec-dash-salt": 0, "simple-ok-scan": 0,
            "simple-ok-iscan": 0, "ech-dec-ok": 0, "salt-dash-ok": 0, "badesc-it": 0, "badesc-zf": 0,
            "eot-direct": 0}
    alnum = set(range(48, 58)) | set(range(65, 91)) | set(range(97, 123)) | {43, 47, 61}
    with open(path) as f:
        for line in f:
            c = json.loads(line)
            i, e = c["in"], c["exp"]
            syms = i["syms"]
            kinds = {s["k"] for s in syms}
            dec_alpha = any(s["k"] == "d" and s["v"] in alnum for s in syms)
            if dec_alpha and i["it"]:
                need["dec-alpha-it"] += 1
            if dec_alpha and i["zf"]:
                need["dec-alpha-zf"] += 1
            if i["codec"] == "b16" and any(s["k"] == "d" and s["v"] == 45 for s in syms) and i["one"] and i["zf"]:
                need["dec-dash-salt"] += 1
            if "s" in kinds and "ok" in e["scan"]:
                need["simple-ok-scan"] += 1
            if "s" in kinds and "ok" in e["iscan"]:
                need["simple-ok-iscan"] += 1
            u = e["users"]
            if "d" in kinds and "ok" in u.get("ech_zf", {}):
                need["ech-dec-ok"] += 1
            if u.get("salt_zf") == {"ok": []} and syms:
                need["salt-dash-ok"] += 1
            if "x" in kinds and i["it"]:
                need["badesc-it"] += 1
            if "x" in kinds and i["zf"]:
                need["badesc-zf"] += 1
            if "e" in kinds and isinstance(e["steps"], list):
                need["eot-direct"] += 1
    missing = [k for k, v in need.items() if v == 0]
    if missing:
        raise vlib.ToolError("symbol-level generator is vacuous for: " + ", ".join(missing))


def run(ctx):
    thorough = ctx.tier == "thorough"
    ctx.build("replay_basen", "record_basen")
    # 1. the specification satisfies its own laws (machines = RFC 4648 functions)
    mc = ctx.tlc("MC_BaseN", "MC_BaseN_thorough" if thorough else "MC_BaseN",
                 workers=8, label="mc")
    ctx.require_ok(mc, "MC_BaseN")
    ctx.require_actions(mc, ACTIONS)
    ctx.exhaustive_flags.append(True)
    # 2. S->I: every explored text / octet string becomes an implementation case
    cases = os.path.join(ctx.work, "cases.ndjson")
    gen = ctx.tlc("MC_BaseN", "Gen_BaseN_thorough" if thorough else "Gen_BaseN",
                  workers=8, label="gen", coverage=False, cases_to=cases, count=False)
    ctx.require_ok(gen, "Gen_BaseN")
    if gen.ncases < 1000:
        raise vlib.ToolError("generator produced too few cases")
    # binding self-test: a perturbed expectation must be reported
    head = os.path.join(ctx.work, "head.ndjson")
    with open(cases) as f, open(head, "w") as g:
        for i, line in enumerate(f):
            if i >= 50:
                break
            g.write(line)
    rc, out, err, _ = ctx.run_bin("replay_basen", ["--selftest-perturb"], stdin_path=head)
    ctx.selftest("perturbed expectation is reported by replay_basen", "FAIL " in out)
    ctx.replay_cases("replay_basen", cases, label="basen")
    # 2b. Base32 beyond one 8-character group (every final-group residue 0..7
    # after a complete group), model-checked and replayed in one TLC run
    cases32 = os.path.join(ctx.work, "cases32.ndjson")
    deep = ctx.tlc("MC_BaseN", "MC_BaseN_deep32", workers=8, label="mc+gen-deep32",
                   coverage=False, cases_to=cases32)
    ctx.require_ok(deep, "MC_BaseN deep32")
    ctx.replay_cases("replay_basen", cases32, label="basen-deep32")
    # 2c. the symbol level: the three SymbolConverters (+ the NSEC3 salt
    # wrapper) explored over every symbol kind x value class, the law
    # "converter over symbols = RFC 4648 function over the denoted characters",
    # every symbol kind x octet value at every group position (probe), and
    # malformed escape sequences; replayed through process_symbol/process_tail,
    # IterScanner, the zone-file reader and the users (salt, OwnerHash, ech)
    cases_sym = os.path.join(ctx.work, "cases-sym.ndjson")
    sym = ctx.tlc("MC_BaseNSym", "MC_BaseNSym_thorough" if thorough else "MC_BaseNSym",
                  workers=8, label="mc+gen-sym", coverage=False, cases_to=cases_sym)
    ctx.require_ok(sym, "MC_BaseNSym")
    sym_guard(cases_sym)
    head = os.path.join(ctx.work, "head-sym.ndjson")
    with open(cases_sym) as f, open(head, "w") as g:
        for i, line in enumerate(f):
            if i >= 50:
                break
            g.write(line)
    rc, out, err, _ = ctx.run_bin("replay_basen", ["--selftest-perturb"], stdin_path=head)
    ctx.selftest("perturbed symbol-level expectation is reported by replay_basen", "FAIL " in out)
    ctx.replay_cases("replay_basen", cases_sym, label="basen-sym")
    # 3. I->S: recorded decoder runs on long random texts validated by TLC
    n_traces = 6 if thorough else 2
    for i in range(n_traces):
        tr = os.path.join(ctx.work, "trace-%d.ndjson" % i)
        rc, out, err, _ = ctx.run_bin("record_basen", [tr, str(ctx.seed * 100 + i),
                                                        "4000" if thorough else "1500"])
        if rc != 0:
            raise vlib.ToolError("record_basen failed: " + err[-500:])
        ok, res, rej = ctx.validate_trace("Trace_BaseN", "Trace_BaseN", tr, label="trace-%d" % i)
        ctx.traces += 1
        if not ok:
            ctx.violation("recorded decoder run is not a behaviour of BaseN.tla", rej)
        if i == 0:
            # binding self-test: corrupt one recorded result, TLC must reject
            bad = os.path.join(ctx.work, "trace-bad.ndjson")
            lines = open(tr).read().splitlines()
            import json
            for j, l in enumerate(lines):
                o = json.loads(l)
                if o["ev"] == "fin" and "ok" in o["res"] and len(o["res"]["ok"]) > 0:
                    o["res"]["ok"][0] ^= 1
                    lines[j] = json.dumps(o)
                    break
            open(bad, "w").write("\n".join(lines) + "\n")
            ok2, _, _ = ctx.validate_trace("Trace_BaseN", "Trace_BaseN", bad, label="trace-selftest")
            ctx.states -= 0
            ctx.selftest("corrupted trace is rejected by Trace_BaseN", not ok2)
            # the same for the symbol level: one process_symbol result flipped
            bad2 = os.path.join(ctx.work, "trace-bad-sym.ndjson")
            lines = open(tr).read().splitlines()
            hit = False
            for j, l in enumerate(lines):
                o = json.loads(l)
                if o["ev"] == "csym" and o["k"] != "e" and "ok" in o["res"]:
                    o["res"] = {"err": True}
                    lines[j] = json.dumps(o)
                    hit = True
                    break
            if not hit:
                raise vlib.ToolError("recorder produced no accepted process_symbol call")
            open(bad2, "w").write("\n".join(lines) + "\n")
            ok3, _, _ = ctx.validate_trace("Trace_BaseN", "Trace_BaseN", bad2, label="trace-selftest-sym")
            ctx.selftest("corrupted process_symbol result is rejected by Trace_BaseN", not ok3)
    ctx.assume("character classes per codec: lowest/highest/mixed alphabet characters, lower case, '=', non-alphabet ASCII, non-ASCII")
    ctx.assume("error *class* is not compared, only accept/reject and decoded octets")
    ctx.assume("base32 standard alphabet is not implemented by the library; only base32hex is checked")
