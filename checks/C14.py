"""C14 — DNSSEC validator: secure only with a valid chain (spec/Validator.tla)."""
import json
import os
import vlib

ADV = ["Adv_DropRrsig", "Adv_DropRrset", "Adv_ReplaceRdata", "Adv_WrongSigner", "Adv_Expire",
       "Adv_NotYetValid", "Adv_AddCollidingKey", "Adv_AddExtraDs", "Adv_CorruptSigOctets", "Adv_HideCe", "Adv_ReplayAncestor", "Adv_ForgeSigned", "Adv_AddBadSig", "Adv_CorruptKey", "Adv_CorruptDs", "Adv_StripProof",
       "Adv_ForgeNsecRange", "Adv_SwapProof", "Adv_BadNsec3Label", "Adv_BadNsec3LabelSigned",
       "Adv_ZeroCounts", "Adv_ZeroTtl", "Adv_Inject", "Adv_CnameLoop"]
# adversary actions that only the wildcard-family / anchor / config grids enable
WILD_ADV = ["Adv_MisapplyWildcard", "Adv_DenyExisting", "Adv_SigsFirst", "Adv_Duplicate",
            "Adv_OrphanSig", "Adv_WrongSoa"]
MIS_KINDS = ["Below", "BelowEnt", "BelowDeep", "Outer", "At", "CnameBelow"]
# seeded mutants of the specification's wildcard rule and the invariants that
# must catch each (closest encloser of the denial vs. the RRSIG labels field)
MUTANTS = [("M_wild_ce_suffix", "Soundness"), ("M_wild_target", "Soundness|HonestSecure"),
           ("M_wild_ce_any", "Soundness")]
VAL = ["NextQuery", "Deliver", "StartGroup", "EntProbe", "FetchNext", "VerifyKey", "VerifyDs", "Probe", "CheckGroup", "Judge"]
ACTIONS = ["Init"] + ADV + VAL

# (D_sigcache_ignores_time is declared per case by MC_Validator.tla only; the
# machine has no clock-dependent cache to switch on)
DEV_INVARIANT = {"D_nsec3_label_expect": "NoPanic", "D_ttl0_node_panic": "NoPanic",
                 "D_extra_rrset_ignored": "Soundness", "D_ent_node_as_signer": "HonestSecure"}

META = {
    "category": "model_checking",
    "text": "SCENARIO-LEVEL check. Validator.tla models the validator's walk (per RRset group: fetch DNSKEY/DS, verify, descend, cache; then classify positive / wildcard / NODATA / NXDOMAIN / CNAME and DNAME chains / DS) with one adversary action per rewrite kind (25, incl. ShortSig: honest signatures with seconds of validity left; AddCollidingKey / AddExtraDs: an honest zone with two keys of equal tag in both orders, two DS records one matching; CorruptSigOctets; HideCe: NSEC3 closest-encloser record withheld below an existing name; ReplayAncestor: genuine signed NSEC/NSEC3 of a DNAME owner / zone cut replayed as NXDOMAIN or NODATA proof for a name below it, and AddBadSig(n, position): extra non-verifying RRSIGs within / beyond the max_bad_signatures tolerance on answer, DS and DNSKEY RRsets) applied to any message on the wire, next to a declarative RFC 4035 s.5 oracle (ChainO/AnswerO over the messages as served, symbolic signatures). TLC checks Soundness, HonestSecure, InsecureNotBogus, WithinAllowed, CacheTransparent, NoPanic, Terminates; sequences of 2 (thorough: 3) validations of one question on ONE context with rewrites in every run (node cache in the model; signature / NSEC3-hash caches must be invisible) are explored and replayed on one real ValidationContext, including TimePasses between runs (clock_gettime interposed in the executor: nodes built from short-lived signatures must expire and be re-fetched) and Resalt (second NSEC3 parameter set; the NSEC3-hash cache must be invisible); exhaustively over 8 hierarchy shapes (incl. the leaf zone delegated below an empty non-terminal that sorts directly after the parent apex / after an ordinary name, secure and insecure) x 3 denial flavours x 10 query kinds (incl. NXDOMAIN two labels below the apex under an existing name, DNAME in the zone and DNAME in an insecure sibling zone pointing into the secure zone) x every single rewrite (quick, 16k scenarios + 6k forged-key pairs) / every pair of rewrites on different messages (thorough). Every scenario is then performed against the real validator: hierarchy signed with the library's signer and real ECDSA P-256 keys around the current time, NSEC/NSEC3/opt-out chains from the library's generators, mock upstream applying the rewrites; ValidationContext::validate_msg's state is compared with the specification, and net::client::validator::Connection's SERVFAIL / AD bit / stripping of DNSSEC records with ValidatorConn.tla's ConnView for all 8 request flag combinations CD x AD x DO (upstream answers carry AD) on a sub-grid, DO-only elsewhere. The real validator's upstream fetch sequences are recorded and validated by TLC against the machine (Trace_Validator.tla). WILDCARD FAMILY (RFC 4035 5.3.4, RFC 4592 3.3.1, RFC 5155 8.8; MC_Validator_wild, thorough MC_Validator_ext): every RRset group carries the closest encloser, in labels below the apex, that its RRSIG labels field implies (expanded wildcard) or that the denial establishes (NSEC: longest suffix shared with owner / next name; NSEC3: parent of the covered name); the machine's check_not_exists_for_wildcard step and the oracle's WildOk demand equality. Honest kinds: expansion over one label, over two labels (wilddeep), an inner wildcard *.i.wild below the outer one (wildsub: labels field = apex + 2), wildcard CNAME, wildcard NODATA. Adversary Adv_MisapplyWildcard replays the genuine *.wild RRset and RRSIG with the genuine denial of the name where a closer encloser exists: Below an existing name (encloser via the NSEC owner), BelowEnt (below an empty non-terminal: via the NSEC next name), BelowDeep (two labels below), Outer (where the inner wildcard applies), At (an existing name without the type), CnameBelow (wildcard CNAME heading a chain) - x 3 denial flavours x 3 shapes; also Adv_DenyExisting, SigsFirst, Duplicate, OrphanSig, WrongSoa. Three seeded mutants of the specification's wildcard rule (deeper encloser accepted / encloser not compared / full name taken for the next closer name) must each break Soundness or HonestSecure in TLC. TRUST ANCHOR ROUTES (DS / DNSKEY form, from_u8 / add_u8 / from_reader, several anchors, root+tld longest match, none / elsewhere => Indeterminate) and CONFIG ROUTES (Config::new, every setter at its default, smallest caches, bad_signatures 2, max_cname_dname 1, nsec3_iter_insecure / nsec3_iter_bogus 0) are grids of their own. DIFFERENT QUESTIONS IN A ROW on one context (OtherQuestion: every ordered pair of 8 (thorough: 11) query kinds, rewrites of either answer) and TimePasses over the shapes with the leaf zone below an empty non-terminal (finding D_ent_node_as_signer).",
    "note": "Shallowest of the twenty checks: a scenario grid, not a proof over all zones/messages. Not covered: more than two composed rewrites; sequences of more than two different questions, and different questions only on shape secure3 in the quick tier; the ENT shapes run with 2-4 query kinds only; RSA/other algorithms; multi-hop DNAME, DNAME below a wildcard; wildcards only below one parent name (wild) plus one inner wildcard - no wildcard at the apex, no wildcard owner with children, no NSEC whose next name alone carries the closest encloser of an HONEST expansion; NSEC bitmaps {NS,DNAME} / DNAME at an apex; the denial helpers that take ValidatedGroup (nsec_for_not_exists etc.) are reached only through validate_msg - driving them directly needs a wider hook (ValidatedGroup constructor); NSEC3 iteration limits only 0 vs default, max_bad_signatures only 1 and 2; key rollovers; node-cache eviction (max_node_cache 1 is run, its fetch sequences are not compared); concurrent validations; message-level malformations other than zeroed counts, RRSIG-first order and duplicated records (C01). Verdicts are compared against the set the property admits (adversary harmless => the oracle's state only; else that or Bogus); the machine's exact verdict match is reported as a statistic. Honest short-lived signatures served before time passes count as harmless (so a Bogus after their expiry is a violation, not an admitted outcome). Trusted: TLC, ring, the harness's authoritative responder (the honest grid must come out Secure/Insecure for the check to pass). Named deviations: D_nsec3_label_expect, D_ttl0_node_panic, D_sigcache_ignores_time repaired; D_extra_rrset_ignored open; D_ent_node_as_signer open (a cached intermediate node of an empty non-terminal is taken for the signer's node: after the node of a zone delegated below an ENT expires, its correctly signed answers are Bogus; proposed_fixes/D_ent_node_as_signer.diff). Signature times are compared in plain u32 order by the code (RFC 4034 3.1.5 demands serial arithmetic): witnessed with inception 0xFFFF0000, judged outside the property text, described in the report only. Needs hook validator_nsec_reexport.diff (H3) for the denial-helper stage; without it that stage is skipped and recorded as such.",
    "technique": "TLA+ spec (Validator.tla: validator walk + adversary actions + declarative oracle) + TLC exhaustive over the scenario grid; spec->impl scenario replay on a really signed hierarchy; impl->spec validation of recorded fetch sequences",
    "design_ref": "DESIGN.md §4 C14",
}


def _has_hook():
    repo = os.environ.get("VERIF_REPO") or "/repo"
    try:
        return "pub mod verif" in open(os.path.join(repo, "src/dnssec/validator/mod.rs")).read()
    except OSError:
        return False


def run(ctx):
    thorough = ctx.tier == "thorough"
    ctx.build("replay_validator")
    # 1. TLC: the machine satisfies the properties w.r.t. the declarative oracle
    # (the same exploration also emits one S->I case per finished behaviour)
    # quick: every single rewrite, all 24 actions.  thorough: that, plus every
    # pair of rewrites of 20 actions (NotYetValid, ForgeNsecRange, SwapProof and
    # AddExtraDs only singly) on different messages.
    cases = os.path.join(ctx.work, "cases.ndjson")
    # (quick leaves out the shape insecure4 and most query kinds in the ENT shapes)
    mc = ctx.tlc("MC_Validator", "MC_Validator_full" if thorough else "MC_Validator",
                 workers=8, label="mc", cases_to=cases)
    ctx.require_ok(mc, "MC_Validator")
    ctx.require_actions(mc, [a for a in ACTIONS if a != "NextQuery"])
    ctx.exhaustive_flags.append(True)
    cases2 = None
    if thorough:
        cases2 = os.path.join(ctx.work, "cases2.ndjson")
        mc2 = ctx.tlc("MC_Validator", "MC_Validator_thorough", workers=8, label="mc-pairs",
                      cases_to=cases2, coverage=False)
        ctx.require_ok(mc2, "MC_Validator_thorough")
    # each deviation, enabled in the model, breaks the invariant it is about
    for dev, inv in sorted(DEV_INVARIANT.items()):
        if dev not in ctx.open_devs:
            continue   # repaired in the code: documentation only, not run
        r = ctx.tlc("MC_Validator", "MC_Validator_dev_" + dev, workers=4, label="dev-" + dev,
                    expect_violation=inv, count=False, coverage=False)
        if not r.ok:
            raise vlib.ToolError("deviation %s does not violate %s in the model" % (dev, inv))
    # the wildcard family (RFC 4035 5.3.4, RFC 4592, RFC 5155 8.8): expansions
    # over one and two labels, an inner wildcard, wildcard CNAME / NODATA, and
    # the genuine wildcard RRset replayed where a closer encloser exists
    # (below an existing name / an empty non-terminal / two labels down /
    # where an inner wildcard applies / at an existing name) with the genuine
    # denial for that name.  quick: rewrites of the answer; thorough: of every
    # message.  The same run covers DenyExisting, SigsFirst, Duplicate,
    # OrphanSig, WrongSoa.
    wcases = os.path.join(ctx.work, "wild.ndjson")
    wl = ctx.tlc("MC_Validator", "MC_Validator_ext" if thorough else "MC_Validator_wild",
                 workers=8, label="mc-wild", cases_to=wcases)
    ctx.require_ok(wl, "MC_Validator_wild")
    ctx.require_actions(wl, WILD_ADV + ["Adv_SwapProof", "Adv_StripProof", "Adv_DropRrset", "Judge"])
    _wild_vacuity(wcases)
    # the wildcard rule of the specification has teeth: relaxing the
    # closest-encloser comparison breaks Soundness in the model
    for mut, prop in (MUTANTS if thorough else MUTANTS[:2]):
        r = ctx.tlc("MC_Validator", "MC_Validator_mut_" + mut, workers=2, label="mutant-" + mut,
                    count=False, coverage=False)
        if r.violated not in prop.split("|"):
            raise vlib.ToolError("spec mutant %s not caught by %s (violated=%s)" % (mut, prop, r.violated))
        ctx.selftest("spec mutant %s violates %s" % (mut, prop), True)
    # (without a mutant the same model is clean: it is a sub-grid of mc-wild)
    # 2. S->I: every scenario against the real validator
    gen = mc
    if gen.ncases < 3000:
        raise vlib.ToolError("generator produced too few scenarios: %d" % gen.ncases)
    head = os.path.join(ctx.work, "head.ndjson")
    with open(cases) as f, open(head, "w") as g:
        for i, line in enumerate(f):
            if i >= 20:
                break
            g.write(line)
    rc, out, err, _ = ctx.run_bin("replay_validator", ["--selftest-perturb"], stdin_path=head)
    ctx.selftest("perturbed expectation is reported by replay_validator", "FAIL " in out)
    # what a Connection must show per validation state and request flags
    # CD x AD x DO (ValidatorConn.tla), as a table for the executor
    connview = os.path.join(ctx.work, "connview.ndjson")
    cv = ctx.tlc("MC_ConnView", "MC_ConnView", workers=1, label="connview", coverage=False,
                 cases_to=connview)
    ctx.require_ok(cv, "MC_ConnView")
    if cv.ncases != 32:
        raise vlib.ToolError("ConnView table incomplete")
    trace = os.path.join(ctx.work, "trace.ndjson")
    devs = ",".join(sorted(ctx.open_devs))
    rc, out, err, wall = ctx.run_bin("replay_validator",
                                     ["--conn", "--connview", connview, "--trace", trace,
                                      "--open-devs", devs],
                                     stdin_path=cases, timeout=3000)
    rep = os.path.join(ctx.work, "replay.out")
    open(rep, "w").write(out)
    summary = _absorb(ctx, out, err, wall)
    # the wildcard family, through validate_msg and Connection
    wtrace = os.path.join(ctx.work, "trace-wild.ndjson")
    rc, outw, errw, wallw = ctx.run_bin("replay_validator",
                                        ["--conn", "--connview", connview, "--trace", wtrace,
                                         "--open-devs", devs],
                                        stdin_path=wcases, timeout=3000)
    _absorb(ctx, outw, errw, wallw, label="wild")
    # routes of anchor.rs (DS / DNSKEY anchors, from_u8 / add_u8 / from_reader,
    # several anchors, none above the name) and of context::Config (every
    # setter; limits that change verdicts: max_bad_signatures,
    # max_cname_dname, NSEC3 iteration limits)
    xtraces = [wtrace]
    for cfgname in ("anchor", "config", "config_b"):
        xc = os.path.join(ctx.work, cfgname + ".ndjson")
        full = "MC_Validator_" + cfgname + ("_thorough" if thorough else "")
        xr = ctx.tlc("MC_Validator", full, workers=8, label="mc-" + cfgname, cases_to=xc,
                     coverage=False)
        ctx.require_ok(xr, full)
        if xr.ncases < 60:
            raise vlib.ToolError("too few %s scenarios: %d" % (cfgname, xr.ncases))
        xt = os.path.join(ctx.work, "trace-%s.ndjson" % cfgname)
        rc, outx, errx, wallx = ctx.run_bin("replay_validator",
                                            ["--trace", xt, "--open-devs", devs],
                                            stdin_path=xc, timeout=3000)
        _absorb(ctx, outx, errx, wallx, label=cfgname)
        xtraces.append(xt)
    if cases2:
        trace2 = os.path.join(ctx.work, "trace2.ndjson")
        rc, outp, errp, wallp = ctx.run_bin("replay_validator",
                                            ["--trace", trace2, "--open-devs", devs],
                                            stdin_path=cases2, timeout=3000)
        _absorb(ctx, outp, errp, wallp, label="pairs")
    # sequences: the same question validated 2 (thorough also: 3) times on ONE
    # ValidationContext, every run with its own rewrites - node, signature and
    # NSEC3-hash caches persist; invariant CacheTransparent; each behaviour is
    # replayed on one real context and the last verdict compared
    scases = os.path.join(ctx.work, "seq.ndjson")
    # "time": TimePasses between runs (signatures with a few seconds of life
    # left: nodes built from them expire and are re-fetched; clock_gettime is
    # interposed in the executor) and Resalt (a second NSEC3 parameter set)
    # "ent": the same with the leaf zone delegated below an empty non-terminal
    # (the ENT's intermediate node outlives the zone's: D_ent_node_as_signer).
    # "qseq": DIFFERENT questions in a row on one context (OtherQuestion: every
    # ordered pair of query kinds, rewrites of either answer) - nodes,
    # signature and NSEC3-hash caches filled for one name serve the next
    seqs = ["MC_Validator_seq", "MC_Validator_time"] + (
        ["MC_Validator_seq_thorough", "MC_Validator_time_thorough", "MC_Validator_ent_thorough",
         "MC_Validator_qseq_thorough"] if thorough else ["MC_Validator_ent", "MC_Validator_qseq"])
    for cfgname in seqs:
        sq = ctx.tlc("MC_Validator", cfgname, workers=8, label="mc-" + cfgname[13:], cases_to=scases)
        ctx.require_ok(sq, cfgname)
        ctx.require_actions(sq, ["NextQuery"])
        if sq.ncases < 150:
            raise vlib.ToolError("too few sequence behaviours: %d" % sq.ncases)
        rc, out3, err3, wall3 = ctx.run_bin("replay_validator", ["--open-devs", devs],
                                            stdin_path=scases, timeout=3000)
        if "CLOCK " in out3:
            raise vlib.ToolError("clock_gettime interposition does not work in the executor")
        _absorb(ctx, out3, err3, wall3, label=cfgname[13:])
    if not thorough:
        # pairs of rewrites that only bite together: forged data signed with
        # the attacker's key + that key substituted into the DNSKEY answer
        # (the thorough tier enumerates all pairs anyway)
        fcases = os.path.join(ctx.work, "forge.ndjson")
        fg = ctx.tlc("MC_Validator", "Gen_Validator_forge", workers=8, label="gen-forge",
                     coverage=False, cases_to=fcases, count=False)
        ctx.require_ok(fg, "Gen_Validator_forge")
        rc, out2, err2, wall2 = ctx.run_bin("replay_validator", ["--open-devs", devs],
                                            stdin_path=fcases, timeout=3000)
        _absorb(ctx, out2, err2, wall2, label="forge")
    # the honest grid must be classified as the property demands, by the real
    # code (this also guards the harness's own authoritative responder)
    # 3. I->S: the recorded fetch sequences are walks of the machine
    _trace_stage(ctx, trace, extra=xtraces)
    if cases2:
        _trace_stage(ctx, trace2, tag="p")
    # 4. denial-proof helpers against the covering predicate (hook H3)
    _helpers_stage(ctx)
    ctx.assume("signatures are symbolic in the model (free constructor, term equality); ring's primitives are trusted")
    ctx.assume("one key (ECDSA P-256, flags 257) and one DS (SHA-256) per zone; Ed25519 is treated as unsupported by the validator (zones come out Insecure), not examined further")
    ctx.assume("RFC 5155 9.2: wildcard / NXDOMAIN answers proven through an Opt-Out NSEC3 are expected Insecure, and an unsigned RRset at a name inside an Opt-Out span is Insecure")
    ctx.assume("where the adversary's rewrite leaves the chain valid the admitted set is {oracle state, Bogus}")
    ctx.extra = {"scenarios": summary.get("n"), "exact": summary.get("exact")}


def _absorb(ctx, out, err, wall, label="validator"):
    summary = None
    exact = None
    conn = None
    fails, knowns = [], []
    for line in out.splitlines():
        if line.startswith("SUMMARY "):
            summary = json.loads(line[8:])
        elif line.startswith("FAIL "):
            fails.append(json.loads(line[5:]))
        elif line.startswith("KNOWN "):
            knowns.append(json.loads(line[6:]))
        elif line.startswith("EXACT "):
            exact = json.loads(line[6:])
        elif line.startswith("CONN "):
            conn = json.loads(line[5:])
    if summary is None:
        raise vlib.ToolError("replay_validator produced no summary: " + (out[-1500:] + err[-1500:]))
    ctx.evaluations += summary.get("n", 0)
    ctx.traces += summary.get("n", 0)
    for s in summary.get("samples", [])[:3]:
        ctx.sample(s)
    for k in knowns:
        n = summary.get("known", {}).get(k["dev"], 1)
        for _ in range(n):
            ctx.known(k["dev"], k.get("case"))
    for f in fails:
        ctx.violation("validator disagrees with Validator.tla", f)
    ctx.stage("replay:" + label, {"n": summary.get("n"), "pass": summary.get("pass"),
                                   "known": summary.get("known"), "fail": summary.get("fail"),
                                   "exact": exact, "connection": conn, "wall_s": round(wall, 2)})
    summary["exact"] = exact
    return summary


def _blocks(path):
    # scenarios as blocks start..done
    blocks, cur = [], []
    for l in open(path).read().splitlines():
        cur.append(l)
        if '"ev":"done"' in l:
            blocks.append(cur)
            cur = []
    return blocks


def _wild_vacuity(path):
    """The generated grid holds every way of misapplying the wildcard under
    every denial flavour, and the honest expansions (keyed on the inputs)."""
    seen, honest = set(), set()
    for l in open(path):
        i = json.loads(l)["in"]
        for a in i["adv"]:
            if a["act"].startswith("MisapplyWildcard"):
                seen.add((a["act"][16:], i["denial"]))
        if not i["adv"] and i["shape"] == "secure3":
            honest.add((i["qk"], i["denial"]))
    miss = [(k, d) for k in MIS_KINDS for d in ("nsec", "nsec3", "optout") if (k, d) not in seen]
    miss += [(q, d) for q in ("wilddeep", "wildsub", "wcname", "wcnodata")
             for d in ("nsec", "nsec3", "optout") if (q, d) not in honest]
    if miss:
        raise vlib.ToolError("vacuity: wildcard scenarios never generated: %s" % miss)


def _trace_stage(ctx, trace, tag="", extra=()):
    if not os.path.exists(trace):
        raise vlib.ToolError("no fetch trace recorded")
    if not os.path.exists(os.path.join(vlib.SPEC, "Trace_Validator.tla")):
        ctx.stage("trace", {"skipped": "Trace_Validator.tla not built"})
        return
    blocks = _blocks(trace)
    import random
    rnd = random.Random(ctx.seed)
    rnd.shuffle(blocks)
    # one TLC run over a seeded sample of 1500 scenarios (thorough: 2 x 20000)
    blocks = blocks[:1500] if ctx.tier != "thorough" else blocks[:20000]
    # plus the wildcard family (all of it) and a sample of the anchor /
    # configuration grids
    for k, x in enumerate(extra):
        xb = _blocks(x)
        if k == 0 and ctx.tier != "thorough":
            # the wildcard kinds and the replay / denial rewrites; the plain
            # kinds of that grid are in the main sample
            xb = [b for b in xb if '"qk":"w' in b[0] or "MisapplyWildcard" in b[0]
                  or "DenyExisting" in b[0] or "WrongSoa" in b[0] or "OrphanSig" in b[0]]
        if k > 0:
            rnd.shuffle(xb)
            xb = xb[:300] if ctx.tier != "thorough" else xb
        blocks = xb + blocks
    per = len(blocks) if ctx.tier != "thorough" else 20000
    nfiles = 0
    first = None
    total = 0
    for i in range(0, len(blocks), per):
        chunk = blocks[i:i + per]
        p = os.path.join(ctx.work, "tr-%d.ndjson" % nfiles)
        open(p, "w").write("\n".join("\n".join(b) for b in chunk) + "\n")
        if first is None:
            first = (p, chunk)
        ok, res, rej = ctx.validate_trace("Trace_Validator", "Trace_Validator", p,
                                          label="trace%s-%d" % (tag, nfiles))
        total += len(chunk)
        nfiles += 1
        if not ok:
            ctx.violation("recorded fetch sequence / verdict is not a behaviour of Validator.tla", rej)
            break
    ctx.traces += total
    ctx.stage("trace", {"scenarios_validated": total, "files": nfiles})
    # self-test: a corrupted trace (one fetch renamed) must be rejected
    p, chunk = first
    bad = os.path.join(ctx.work, "tr-bad.ndjson")
    flat = [l for b in chunk for l in b]
    for j, l in enumerate(flat):
        o = json.loads(l)
        if o["ev"] == "fetch" and o["t"] == "DS" and o["z"] == "tld":
            o["t"] = "DNSKEY"
            flat[j] = json.dumps(o, separators=(",", ":"))
            break
    open(bad, "w").write("\n".join(flat) + "\n")
    ok2, _, _ = ctx.validate_trace("Trace_Validator", "Trace_Validator", bad, label="trace%s-selftest" % tag)
    ctx.selftest("corrupted fetch trace is rejected by Trace_Validator", not ok2)


def _helpers_stage(ctx):
    # replay_valnsec needs `domain::dnssec::validator::verif` (hook H3).  Its
    # source is kept outside src/bin so that `cargo build --bins` works on a
    # tree without the hook; it is installed only when the hook is there.
    src = os.path.join(vlib.HARNESS, "src", "bin_hooked", "replay_valnsec.rs")
    dst = os.path.join(vlib.HARNESS, "src", "bin", "replay_valnsec.rs")
    if not _has_hook():
        if os.path.exists(dst) and not os.environ.get("VERIF_REPO"):
            os.remove(dst)
        ctx.stage("nsec_helpers", {"skipped": "hook H3 (validator_nsec_reexport.diff) not applied to the tree under test"})
        ctx.assume("denial-proof helper stage skipped: hook H3 not applied")
        return
    if not os.path.exists(dst) or open(dst).read() != open(src).read():
        import shutil
        shutil.copyfile(src, dst)
    ctx.build("replay_valnsec")
    cases = os.path.join(ctx.work, "range.ndjson")
    gen = ctx.tlc("MC_Covers", "MC_Covers", workers=4, label="gen-covers", coverage=False,
                  cases_to=cases)
    ctx.require_ok(gen, "MC_Covers")
    ctx.replay_cases("replay_valnsec", cases, label="nsec_helpers")


def replay(ctx, blob):
    """bin/check C14 --replay replays/C14-<hash>.json : re-run one failing
    scenario (or helper case) against the current tree."""
    case = blob.get("case", blob)
    if "in" not in case:
        raise vlib.ToolError("replay file holds no executable case (trace window?)")
    helper = "kind" in case["in"]
    name = "replay_valnsec" if helper else "replay_validator"
    ctx.build(name)
    p = os.path.join(ctx.work, "one.ndjson")
    vlib.write_ndjson(p, [{"in": case["in"], "exp": case["exp"], "dev": case.get("dev", {})}])
    ctx.replay_cases(name, p, label="replay")
    print("replayed 1 case: %s" % ("VIOLATION reproduced" if ctx.violations else
                                   "known finding %s reproduced" % sorted(ctx.known_witnessed)
                                   if ctx.known_witnessed else "passes"))
