"""X04 — the stub resolver's query machine (spec/StubResolver.tla)."""
import json
import os
import shutil
import subprocess
import sys
import time

import vlib

ACTIONS = ["S_Begin", "S_Iter", "S_Fallback", "S_LookupDone", "S_QueryDone", "L_ADone", "L_Join",
           "Q_New", "Q_RunQuery", "Q_Timeout", "Q_Classify",
           "R_Init", "R_Probe", "R_CompleteAny", "R_Timer", "R_WaitEmpty"]
REPLAY_BIN = "replay_stub"

META = {
    "category": "model_checking",
    "text": "StubResolver.tla models search_host / lookup_host / StubResolver::query / the redundant-transport server iteration / UDP->TCP fallback as four nested machines with explicit time and an adversarial environment (per server: answer, NXDOMAIN, SERVFAIL, REFUSED, FORMERR, truncation, transport error; reply before the RTT timer, after it, never). TLC checks exhaustively for 0-3 servers, search lists over two suffixes and the root, both transport modes: every query ends within options.timeout per round, asks every server at most once per round and transport, returns only a response a server really gave for that question (never the truncated UDP one, never a datagram with use_vc), candidates are asked in the documented order and the first non-empty answer is returned, the panic!() of the server iteration is unreachable, and (ideal) failures are only reported after every server was asked. Every complete behaviour is replayed on the real StubResolver (mock connections under a paused clock comparing request times to the tick; real loopback UDP/TCP servers for the transport part); random runs with up to 5 servers / 5 suffixes are validated by TLC against the machine.",
    "note": "Properties stated by the builder (extension, not in properties.jsonl). Trusted: TLC, the harness mock servers. Not modelled: evolution of the RTT statistics of net::client::redundant (only the fresh order is exact; later orders are any permutation), the 5 % probe coin (the run is repeated until the coin falls as generated), dgram retries/timeouts and closed ports on real sockets (replies are immediate there). Options `attempts`, `rotate`, ServerConf.request_timeout/recv_size/udp_payload_size are documented but never read by the code; the specification describes the machine as built.",
    "technique": "TLA+ spec (StubResolver.tla) + TLC exhaustive (safety, liveness); spec->impl behaviour replay (mock transports, loopback sockets); impl->spec trace validation",
    "design_ref": "DESIGN.md §8 (stub resolver)",
}

ALL_DEVS = ["D_first_failure_final", "D_ndots_ignored"]


# ------------------------------------------------------------------ build
def build(ctx, bins):
    """The harness manifest does not enable the `resolv` feature of the
    library yet (it only adds src/resolv on top of features that are already
    on).  Until it does, build through a private shadow crate whose manifest
    has the one extra feature."""
    toml = open(os.path.join(vlib.HARNESS, "Cargo.toml")).read()
    if '"resolv"' in toml:
        return ctx.build(*bins)
    t = time.time()
    repo = os.environ.get("VERIF_REPO") or "/repo"
    shadow = vlib.TARGET.rstrip("/") + "-X04-crate"
    os.makedirs(shadow, exist_ok=True)
    for name in ("src", ".cargo"):
        link = os.path.join(shadow, name)
        if not os.path.islink(link):
            os.symlink(os.path.join(vlib.HARNESS, name), link)
    shutil.copyfile(os.path.join(vlib.HARNESS, "Cargo.lock"), os.path.join(shadow, "Cargo.lock"))
    toml = toml.replace('path = "/repo"', 'path = "%s"' % repo).replace('"bytes", "net",', '"bytes", "net", "resolv",')
    if '"resolv"' not in toml:
        raise vlib.ToolError("cannot add the resolv feature to the harness manifest")
    tp = os.path.join(shadow, "Cargo.toml")
    if not os.path.exists(tp) or open(tp).read() != toml:
        open(tp, "w").write(toml)
    cmd = ["cargo", "build", "--release", "--offline"]
    for b in bins:
        cmd += ["--bin", b]
    env = dict(os.environ)
    env["CARGO_NET_OFFLINE"] = "true"
    env["CARGO_TARGET_DIR"] = vlib.TARGET
    p = subprocess.run(cmd, cwd=shadow, env=env, stdout=subprocess.PIPE, stderr=subprocess.STDOUT, text=True)
    if p.returncode != 0:
        sys.stdout.write(p.stdout[-6000:])
        raise vlib.ToolError("harness build failed")
    ctx.stage("build", {"bins": list(bins), "wall_s": round(time.time() - t, 1), "shadow_manifest": "resolv feature added"})


# -------------------------------------------------------------- generation
def tla_set(names):
    return "{" + ", ".join('"%s"' % n for n in names) + "}"


def gen_cfg(ctx, fam, thorough, devs):
    """Write a Gen configuration with Dev = devs into the work directory and
    return its path relative to spec/ (without .cfg)."""
    common = {
        "query": dict(ns="{0, 1, 2, 3}", search="MCQ_SearchX", ndots="{1}", dots="{0}", call='{"query"}',
                      toolong="G_None", mode='{"mock"}', usevc="{FALSE}", tcponly="G_None", tmo="{40, 500}",
                      outs='{"Data", "NX", "SF", "REF", "FE", "Err"}' if thorough else '{"Data", "SF", "FE", "Err"}',
                      tcpouts='{"Data"}', lats="{1, 50, 9999}"),
        "sock": dict(ns="{1, 2}", search="MCQ_SearchX", ndots="{1}", dots="{0}", call='{"query"}',
                     toolong="G_None", mode='{"sock"}', usevc="{FALSE, TRUE}", tcponly="G_TcpOnly", tmo="{500}",
                     outs='{"Data", "NX", "SF", "REF", "FE", "TC"}', tcpouts='{"Data", "NX", "SF", "TC"}', lats="{1}"),
        "search": dict(ns="{1}", search="G_SearchSetT" if thorough else "G_SearchSet",
                       ndots="{0, 1, 2}", dots="{0, 1}", call='{"lookup", "search"}',
                       toolong="G_TooLong", mode='{"mock"}', usevc="{FALSE}", tcponly="G_None",
                       tmo="{5}", outs='{"Data", "NoData", "NX", "Err"}',
                       tcpouts='{"Data"}', lats="{1}"),
    }[fam]
    text = """CONSTANTS
  Fam = "%s"
  NSSet = %s
  SearchSet <- %s
  NDotsSet = %s
  DotsSet = %s
  CallSet = %s
  TooLongSet <- %s
  ModeSet = %s
  UseVcSet = %s
  TcpOnlySet <- %s
  TmoSet = %s
  Est = 30
  Outs = %s
  TcpOuts = %s
  Lats = %s
  FreshEvery = FALSE
  Dev = %s
SPECIFICATION GenSpec
INVARIANT Emit
CONSTRAINT GenPrune
CHECK_DEADLOCK FALSE
""" % (fam, common["ns"], common["search"], common["ndots"], common["dots"], common["call"],
       common["toolong"], common["mode"], common["usevc"], common["tcponly"], common["tmo"],
       common["outs"], common["tcpouts"], common["lats"], tla_set(devs))
    name = "Gen_%s_%s" % (fam, "open" if devs else "ideal")
    path = os.path.join(ctx.work, name + ".cfg")
    open(path, "w").write(text)
    return os.path.relpath(os.path.join(ctx.work, name), vlib.SPEC), name


def generate(ctx, fam, thorough, devs):
    rel, name = gen_cfg(ctx, fam, thorough, devs)
    out = os.path.join(ctx.work, name + ".ndjson")
    res = ctx.tlc("Gen_StubResolver", rel, workers=8, label=name, coverage=False, cases_to=out,
                  count=False, timeout=3000)
    ctx.require_ok(res, name)
    table = {}
    with open(out) as f:
        for line in f:
            c = json.loads(line)
            key = json.dumps(c["in"], sort_keys=True)
            if key in table and table[key] != c["exp"]:
                raise vlib.ToolError("generator is not a function of the input: %s" % key[:300])
            table[key] = c["exp"]
    return table


def join_cases(ctx, fam, thorough, open_devs):
    """exp = the ideal behaviour (Dev = {}); where the behaviour with the
    open deviations differs, it is carried as dev[D]."""
    ideal = generate(ctx, fam, thorough, [])
    todays = generate(ctx, fam, thorough, open_devs) if open_devs else ideal
    dname = "D_ndots_ignored" if fam == "search" else "D_first_failure_final"
    cases, skipped, ndev = [], 0, 0
    if fam == "search":
        # the script of a case only covers the candidates that were asked,
        # and the ideal machine may ask other candidates than today's: join
        # every behaviour of today's machine with the ideal behaviours whose
        # scripts agree on the common candidates (the union of the two
        # scripts is a world in which both behaviours are the expected ones)
        def split(key):
            i = json.loads(key)
            sc = {e[0]: e for e in i["script"]}
            i["script"] = None
            return json.dumps(i, sort_keys=True), sc
        # ideal behaviours per configuration and set of asked candidates
        groups = {}
        for key, exp in ideal.items():
            g, sc = split(key)
            groups.setdefault(g, {}).setdefault(frozenset(sc), []).append((sc, exp))
        index = {}      # (configuration, asked by ideal, common candidates) -> projection -> behaviour

        def lookup(g, ics, common, sc):
            k = (g, ics, common)
            if k not in index:
                d = {}
                for isc, iexp in groups[g][ics]:
                    d.setdefault(json.dumps([isc[c] for c in sorted(common)]), (isc, iexp))
                index[k] = d
            return index[k].get(json.dumps([sc[c] for c in sorted(common)]))

        for key in sorted(todays):
            g, sc = split(key)
            n = 0
            for ics in sorted(groups.get(g, {}), key=sorted):
                hit = lookup(g, ics, frozenset(ics & set(sc)), sc)
                if hit is None:
                    continue
                isc, iexp = hit
                world = dict(isc)
                world.update(sc)
                i = json.loads(key)
                i["script"] = [world[c] for c in sorted(world)]
                c = {"in": i, "exp": iexp}
                if todays[key] != iexp:
                    c["dev"] = {dname: todays[key]}
                    ndev += 1
                cases.append(c)
                n += 1
                if n >= 2:
                    break
            if n == 0:
                skipped += 1
    else:
        for key in sorted(todays):
            if key not in ideal:
                skipped += 1        # not reproducible (tie) under the ideal timing
                continue
            c = {"in": json.loads(key), "exp": ideal[key]}
            if todays[key] != ideal[key]:
                c["dev"] = {dname: todays[key]}
                ndev += 1
            cases.append(c)
    ctx.stage("join:" + fam, {"cases": len(cases), "with_deviation": ndev, "skipped": skipped})
    return cases


def sample_sock(cases, thorough):
    """Real sockets cost ~10 ms per run and ~20 runs when the library's coin
    has to fall on another first server: take a deterministic sample."""
    one = [c for c in cases if len(c["in"]["servers"]) == 1]
    two0 = [c for c in cases if len(c["in"]["servers"]) == 2 and c["in"]["first"] == 0]
    two1 = [c for c in cases if len(c["in"]["servers"]) == 2 and c["in"]["first"] != 0]
    dev0 = [c for c in two0 if "dev" in c]
    if thorough:
        return one + two0[::3] + dev0[::5] + two1[::97]
    return one[::2] + two0[::17] + dev0[::29] + two1[::331]


# --------------------------------------------------------------------- run
def run(ctx):
    thorough = ctx.tier == "thorough"
    open_devs = [d for d in ALL_DEVS if d in ctx.open_devs]
    build(ctx, ["replay_stub", "record_stub"])

    # 1. the specification satisfies the stated properties
    seen = {}
    for cfg, what in [("MC_StubResolver", "one question, 0-3 opaque servers, ideal"),
                      ("MC_StubResolver_code", "one question, servers as used today"),
                      ("MC_StubResolver_search", "search lists, ideal"),
                      ("MC_StubResolver_search_code", "search lists, as built"),
                      ("MC_StubResolver_sock", "UDP/TCP transports, ideal"),
                      ("MC_StubResolver_sock_code", "UDP/TCP transports, as built")]:
        mc = ctx.tlc("MC_StubResolver", cfg, workers=8, label=cfg, timeout=3000)
        ctx.require_ok(mc, cfg)
        for a, (d, g) in mc.coverage.items():
            od, og = seen.get(a, (0, 0))
            seen[a] = (od + d, og + g)
        if thorough:
            # larger alphabets / more configurations, without coverage statistics
            mc = ctx.tlc("MC_StubResolver", cfg + "_thorough", workers=8, label=cfg + "_thorough",
                         timeout=6000, coverage=False)
            ctx.require_ok(mc, cfg + "_thorough")
    missing = [a for a in ACTIONS if seen.get(a, (0, 0))[1] == 0]
    if missing:
        raise vlib.ToolError("vacuity: actions never taken: %s" % missing)
    live = ctx.tlc("MC_StubResolver", "MC_StubResolver_live", workers=4, label="live", coverage=False)
    ctx.require_ok(live, "MC_StubResolver_live (every query terminates)")
    # the deviation is visible on the specification: with redundant's
    # defer_* switches off a failure is reported before every server was asked
    devrun = ctx.tlc("MC_StubResolver", "MC_StubResolver_dev", workers=2, label="dev", coverage=False,
                     expect_violation="EveryServerAsked", count=False)
    ctx.require_ok(devrun, "MC_StubResolver_dev (EveryServerAsked must fail with D_first_failure_final)")
    ctx.exhaustive_flags.append(True)

    # 2. S->I
    allcases = []
    for fam in ("query", "search", "sock"):
        cases = join_cases(ctx, fam, thorough, open_devs)
        if fam == "sock":
            cases = sample_sock(cases, thorough)
        if len(cases) < 100:
            raise vlib.ToolError("generator produced too few %s cases" % fam)
        path = os.path.join(ctx.work, "cases-%s.ndjson" % fam)
        vlib.write_ndjson(path, cases)
        if fam == "query":
            head = os.path.join(ctx.work, "head.ndjson")
            vlib.write_ndjson(head, cases[:40])
            rc, out, err, _ = ctx.run_bin("replay_stub", ["--selftest-perturb"], stdin_path=head)
            ctx.selftest("perturbed expectation is reported by replay_stub", "FAIL " in out)
            # a server that answers one tick late must be noticed
            late = []
            for c in cases:
                sc = c["in"]["script"]
                if c["in"]["ns"] >= 1 and c["in"]["first"] == 0 and sc[0][1] == 1 and "dev" not in c:
                    c2 = json.loads(json.dumps(c))
                    c2["in"]["script"][0][1] = 2
                    late.append(c2)
                    if len(late) >= 20:
                        break
            latep = os.path.join(ctx.work, "late.ndjson")
            vlib.write_ndjson(latep, late)
            rc, out, err, _ = ctx.run_bin("replay_stub", [], stdin_path=latep)
            ctx.selftest("a reply one tick late is reported by replay_stub", out.count("FAIL ") >= 5 or '"fail":20' in out)
        ctx.replay_cases("replay_stub", path, label=fam, timeout=3000)
        allcases.append(len(cases))

    # 3. I->S
    trel = os.path.relpath(os.path.join(ctx.work, "Trace_StubResolver"), vlib.SPEC)
    tcfg = open(os.path.join(vlib.SPEC, "Trace_StubResolver.cfg")).read()
    import re
    tcfg = re.sub(r"Dev = \{[^}]*\}", "Dev = " + tla_set(open_devs), tcfg)
    open(os.path.join(ctx.work, "Trace_StubResolver.cfg"), "w").write(tcfg)
    n_traces = 8 if thorough else 3
    runs = 400 if thorough else 150
    for i in range(n_traces):
        tr = os.path.join(ctx.work, "trace-%d.ndjson" % i)
        rc, out, err, _ = ctx.run_bin("record_stub", [tr, str(ctx.seed * 100 + i), str(runs)])
        if rc != 0:
            raise vlib.ToolError("record_stub failed: " + err[-500:])
        ok, res, rej = ctx.validate_trace("Trace_StubResolver", trel, tr, label="trace-%d" % i, timeout=3000)
        ctx.traces += runs
        if not ok:
            ctx.violation("recorded resolver run is not a behaviour of StubResolver.tla",
                          rej or {"violated": res.violated, "trace": tr})
        if i == 0:
            lines = open(tr).read().splitlines()
            # (a) a request that reached a server one tick late
            bad = list(lines)
            for j, l in enumerate(bad):
                o = json.loads(l)
                if o["ev"] == "req" and o["t"] > 0:
                    o["t"] += 1
                    bad[j] = json.dumps(o)
                    break
            p = os.path.join(ctx.work, "trace-bad-a.ndjson")
            open(p, "w").write("\n".join(bad) + "\n")
            ok2, _, _ = ctx.validate_trace("Trace_StubResolver", trel, p, label="trace-selftest-a")
            ctx.selftest("trace with a shifted request time is rejected", not ok2)
            # (b) an answer attributed to another server
            bad = list(lines)
            for j, l in enumerate(bad):
                o = json.loads(l)
                if o["ev"] == "ans" and "ok" in o["res"]:
                    o["res"]["ok"]["from"] += 1
                    bad[j] = json.dumps(o)
                    break
            p = os.path.join(ctx.work, "trace-bad-b.ndjson")
            open(p, "w").write("\n".join(bad) + "\n")
            ok3, _, _ = ctx.validate_trace("Trace_StubResolver", trel, p, label="trace-selftest-b")
            ctx.selftest("trace with a forged answer origin is rejected", not ok3)
            # (c) a candidate asked out of order
            bad = list(lines)
            done = False
            for j, l in enumerate(bad):
                o = json.loads(l)
                if o["ev"] == "q" and o["c"] > 0:
                    o["c"] = 0
                    bad[j] = json.dumps(o)
                    done = True
                    break
            if done:
                p = os.path.join(ctx.work, "trace-bad-c.ndjson")
                open(p, "w").write("\n".join(bad) + "\n")
                ok4, _, _ = ctx.validate_trace("Trace_StubResolver", trel, p, label="trace-selftest-c")
                ctx.selftest("trace with a candidate out of order is rejected", not ok4)

    ctx.assume("a request to one server is an atomic exchange with one latency; dgram's own retries and read timeout are not modelled (C15 covers dgram)")
    ctx.assume("lookup_host's two concurrent questions are serialised (A, then AAAA); they share only RTT statistics")
    ctx.assume("RTT statistics of redundant are not modelled: exact order/timers only for a fresh resolver, any permutation afterwards; the 5 % probe is an environment choice")
    ctx.assume("on real sockets only immediate replies are replayed (closed UDP ports are not reported by tokio, closed TCP ports make multi_stream retry with back-off)")
    ctx.assume("error values are compared by io::ErrorKind class (TimedOut / other)")
