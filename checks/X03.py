"""X03 — ZoneTree (zone selection, insert/remove, iteration) and per-zone
version housekeeping (spec/ZoneTree.tla, spec/ZoneVersions.tla)."""
import json
import os

import vlib

TREE_ACTIONS = ["Init", "Insert", "Remove", "Get", "Find", "Iter"]
VER_ACTIONS = ["Init", "ReaderAcquire", "ReaderRelease", "Begin", "Update", "RemoveRrset",
               "CommitUpdateCurrent", "CommitPushVersion", "Abandon", "Clean"]
DEV = "D_remove_zone_drops_class"

PROPERTIES = [
    "X03.1 find_zone(qname, class) returns the zone with the longest apex that is a case-insensitive suffix of qname among the zones of exactly that class (none if no zone of the class encloses qname); get_zone returns the zone with exactly that apex and class -- for every history of inserts/removes and every qname.",
    "X03.2 insert_zone fails iff the (apex, class) is present, remove_zone fails iff it is absent; no call ever changes a lookup for another (apex, class): removing a parent zone neither removes nor hides child zones and vice versa; insert;remove restores every observation and insert;remove;insert leaves no trace of the first zone.",
    "X03.3 iter_zones yields exactly the zones inserted and not removed, each once.",
    "X03.4 a held reader's view of a zone never changes: not by later writes, commits, rollbacks, nor by clean_versions.",
    "X03.5 clean_versions never drops the current version nor a version held by a reader, and drops exactly the others (it reclaims no zone data; entries retained per RRset are bounded by the number of commits, not by the live versions -- documented limitation).",
    "X03.6 commit(bump_soa_serial=true) on a zone with a SOA publishes a SOA; unless the session wrote a different SOA itself the published serial is old+1 and RFC 1982-greater than the old one, also across the 2^32 wrap.",
]

META = {
    "category": "model_checking",
    "text": "ZoneTree.tla transcribes the label trie of src/zonetree/tree.rs (insert_zone, remove_zone, get_zone, find_zone, iter_zones as recursive operators, one action per public method) next to the declarative map (class, lower-cased apex) -> zone with LongestMatch over Names.tla; TLC checks over every tree reachable by <= 5 (thorough 7) calls on the names ., com., example.com., sub.example.com., a.sub.example.com., org. x {IN, CH} with case variants and 7 non-apex query names that find = longest enclosing zone of the queried class, get = exact, the abstract effect of insert/remove for every argument, locality (parent/child independence), insert;remove round trips and that iteration is a duplicate-free enumeration. ZoneVersions.tla (reusing Versioned<T> from ZoneStore.tla and RFC 1982 from Serial.tla) models ZoneVersions{current, all}, reader markers, write sessions with commit(bump)/rollback and clean_versions; TLC checks held-view stability under every action incl. clean, that clean drops exactly the dead versions, the bump law across the serial wrap, and documents by counterexample that retained entries are not bounded by live versions. S->I: all insert/remove sequences of length 3, one witness behaviour per tree shape reachable in 5 (thorough 6) calls and random 14-call behaviours are replayed on a real ZoneTree holding real zones built with ZoneBuilder, comparing the call result and get/find for 30 probes + iter after every call; version behaviours are replayed on a real Zone comparing every held and fresh reader's view after every step. I->S: random runs of thousands of calls over 40 apex names x 3 classes with random case are validated by Trace_ZoneTree.tla against both the transcription and the declarative side.",
    "note": "Extension (not in properties.jsonl). Properties: " + " | ".join(PROPERTIES) + " Open known finding D_remove_zone_drops_class: ZoneSetNode::remove_zone is not recursive and removes the child for the root label, i.e. every zone of the class (proposed_fixes/D_remove_zone_drops_class.diff). Trusted: TLC, the transcription, the harness. clean_versions has no caller and is not reachable through the public interface: X03.5 is decided on the specification only. Version numbers are naturals in the model (the code compares 32-bit Versions by RFC 1982; the wrap after 2^31 commits is not modelled). Error kinds are compared as ok/err.",
    "technique": "TLA+ specs (ZoneTree.tla, ZoneVersions.tla) + TLC exhaustive; spec->impl behaviour replay; impl->spec trace validation",
    "design_ref": "DESIGN.md §8 (ZoneStore: ZoneTree, clean_versions, bump_soa_serial on commit)",
}


def _probes(ctx, res=None):
    """The probe list is defined once, in Gen_ZoneTree.tla, and printed by an
    ASSUME; the executor receives it as a file."""
    if res is None:
        res = ctx.tlc("Gen_ZoneTree", "Gen_ZoneTree_probes", workers=1, label="probes",
                      coverage=False, count=False)
    p = res.tagged.get("PROBES")
    if not p or not isinstance(p[0], list):
        raise vlib.ToolError("generator did not print the probe list")
    path = os.path.join(ctx.work, "probes.json")
    json.dump(p[0], open(path, "w"))
    return path


def _head(src, dst, n):
    k = 0
    with open(src) as f, open(dst, "w") as g:
        for line in f:
            if k >= n:
                break
            g.write(line)
            k += 1
    return k


def _cat(dst, *srcs):
    n = 0
    with open(dst, "w") as g:
        for s in srcs:
            with open(s) as f:
                for line in f:
                    g.write(line)
                    n += 1
    return n


def explain(ctx, dev):
    res = ctx.tlc("MC_ZoneTree", "MC_ZoneTree_dev", workers=4, label="explain", coverage=False)
    print(open(res.log).read()[-4000:])


def replay(ctx, case):
    case = case.get("case", case)
    if not isinstance(case, dict) or "in" not in case:
        raise vlib.ToolError("replay file holds no executable case (trace window: re-run with the same VERIF_SEED)")
    versions = "soa0" in case["in"]
    name = "replay_zoneversions" if versions else "replay_zonetree"
    ctx.build(name)
    path = os.path.join(ctx.work, "replay.ndjson")
    vlib.write_ndjson(path, [{k: case[k] for k in ("in", "exp", "dev") if k in case}])
    args = [] if versions else ["--probes", _probes(ctx)]
    ctx.replay_cases(name, path, args=args, label="replay")


def _tree_mc(ctx, thorough):
    t = "_thorough" if thorough else ""
    mc = ctx.tlc("MC_ZoneTree", "MC_ZoneTree" + t, workers=8, label="mc-tree", timeout=3000)
    ctx.require_ok(mc, "MC_ZoneTree")
    ctx.require_actions(mc, TREE_ACTIONS)
    laws = ctx.tlc("MC_ZoneTree", "MC_ZoneTree_laws" + t, workers=8, label="mc-tree-laws",
                   timeout=3000, coverage=False)
    ctx.require_ok(laws, "MC_ZoneTree_laws")
    steps = ctx.tlc("MC_ZoneTree", "MC_ZoneTree_steps" + t, workers=8, label="mc-tree-steps",
                    timeout=3000, coverage=False)
    ctx.require_ok(steps, "MC_ZoneTree_steps")
    ctx.exhaustive_flags.append(True)
    # the known finding is a genuine counterexample of the remove law
    r = ctx.tlc("MC_ZoneTree", "MC_ZoneTree_dev", workers=4, label="dev-" + DEV,
                expect_violation="RemoveLaw", count=False, coverage=False)
    if not r.ok:
        raise vlib.ToolError("the deviation model does not violate RemoveLaw")


def _versions_mc(ctx, thorough):
    t = "_thorough" if thorough else ""
    mc = ctx.tlc("MC_ZoneVersions", "MC_ZoneVersions" + t, workers=8, label="mc-versions", timeout=3000)
    ctx.require_ok(mc, "MC_ZoneVersions")
    ctx.require_actions(mc, VER_ACTIONS)
    ctx.exhaustive_flags.append(True)
    # observation: retained entries are NOT bounded by the live versions
    r = ctx.tlc("MC_ZoneVersions", "MC_ZoneVersions_retention", workers=4, label="obs-retention",
                expect_violation="RetentionBoundedByLive", count=False, coverage=False)
    if not r.ok:
        raise vlib.ToolError("RetentionBoundedByLive unexpectedly holds: the retention note is out of date")
    ctx.assume("observation: an RRset keeps one entry per commit that touched it for the lifetime of the zone "
               "(TLC counterexample to RetentionBoundedByLive); documented limitation of in_memory, not a finding")


def _tree_s2i(ctx, thorough):
    beh = os.path.join(ctx.work, "tree-beh.ndjson")
    g1 = ctx.tlc("Gen_ZoneTree", "Gen_ZoneTree_beh", workers=8, label="gen-tree-beh", coverage=False,
                 cases_to=beh, count=False, timeout=3000)
    ctx.require_ok(g1, "Gen_ZoneTree_beh")
    probes = _probes(ctx, g1)
    st = os.path.join(ctx.work, "tree-states.ndjson")
    g2 = ctx.tlc("Gen_ZoneTree", "Gen_ZoneTree_states" + ("_thorough" if thorough else ""), workers=8,
                 label="gen-tree-states", coverage=False, cases_to=st, count=False, timeout=3000)
    ctx.require_ok(g2, "Gen_ZoneTree_states")
    sim = os.path.join(ctx.work, "tree-sim.ndjson")
    g3 = ctx.tlc("Gen_ZoneTree", "Gen_ZoneTree_sim", workers=1, label="gen-tree-sim", coverage=False,
                 cases_to=sim, count=False, simulate=(200 if thorough else 20), depth=15, timeout=3000)
    ctx.require_ok(g3, "Gen_ZoneTree_sim")
    if g1.ncases < 20000 or g2.ncases < 5000 or g3.ncases < 300:
        raise vlib.ToolError("tree generators produced too few behaviours: %s %s %s" %
                             (g1.ncases, g2.ncases, g3.ncases))
    # binding self-test
    head = os.path.join(ctx.work, "tree-head.ndjson")
    _head(st, head, 40)
    rc, out, err, _ = ctx.run_bin("replay_zonetree", ["--probes", probes, "--selftest-perturb"], stdin_path=head)
    ctx.selftest("perturbed expectation is reported by replay_zonetree", "FAIL " in out)
    allc = os.path.join(ctx.work, "tree-cases.ndjson")
    _cat(allc, beh, st, sim)
    for p in (beh, st, sim):
        os.remove(p)
    ctx.replay_cases("replay_zonetree", allc, args=["--probes", probes], label="zonetree")
    os.remove(allc)


def _versions_s2i(ctx, thorough):
    st = os.path.join(ctx.work, "ver-states.ndjson")
    g1 = ctx.tlc("Gen_ZoneVersions", "Gen_ZoneVersions_states" + ("_thorough" if thorough else ""),
                 workers=8, label="gen-ver-states", coverage=False, cases_to=st, count=False, timeout=3000)
    ctx.require_ok(g1, "Gen_ZoneVersions_states")
    sim = os.path.join(ctx.work, "ver-sim.ndjson")
    g2 = ctx.tlc("Gen_ZoneVersions", "Gen_ZoneVersions_sim", workers=1, label="gen-ver-sim", coverage=False,
                 cases_to=sim, count=False, simulate=(2000 if thorough else 200), depth=31, timeout=3000)
    ctx.require_ok(g2, "Gen_ZoneVersions_sim")
    if g1.ncases < 3000 or g2.ncases < 300:
        raise vlib.ToolError("version generators produced too few behaviours: %s %s" % (g1.ncases, g2.ncases))
    head = os.path.join(ctx.work, "ver-head.ndjson")
    _head(sim, head, 20)
    rc, out, err, _ = ctx.run_bin("replay_zoneversions", ["--selftest-perturb"], stdin_path=head)
    ctx.selftest("perturbed expectation is reported by replay_zoneversions", "FAIL " in out)
    allc = os.path.join(ctx.work, "ver-cases.ndjson")
    _cat(allc, st, sim)
    os.remove(st)
    os.remove(sim)
    ctx.replay_cases("replay_zoneversions", allc, label="zoneversions")
    os.remove(allc)
    ctx.assume("model serials live in Z/8 and are embedded around the 32-bit wrap point (4..7 -> 0xFFFFFFFC..0xFFFFFFFF) "
               "so that +1 and RFC 1982 order agree with the real Serial")


def _validate(ctx, tr, label):
    """ideal first; a rejection is a known finding only if the model with the
    open deviation accepts the same trace"""
    ok, res, rej = ctx.validate_trace("Trace_ZoneTree", "Trace_ZoneTree", tr, label=label)
    if ok:
        return True, "Trace_ZoneTree", None
    if DEV in ctx.open_devs:
        ok2, res2, rej2 = ctx.validate_trace("Trace_ZoneTree", "Trace_ZoneTree_dev", tr, label=label + "-dev")
        if ok2:
            ctx.known(DEV, rej)
            return True, "Trace_ZoneTree_dev", None
        return False, None, rej2
    return False, None, rej


def _tree_i2s(ctx, thorough):
    n_traces = 6 if thorough else 2
    events = 6000 if thorough else 2500
    for i in range(n_traces):
        tr = os.path.join(ctx.work, "trace-%d.ndjson" % i)
        # runs with few and with many removals
        rc, out, err, _ = ctx.run_bin("record_zonetree", [tr, str(ctx.seed * 100 + i), str(events),
                                                           "3" if i % 2 == 0 else "12"])
        if rc != 0:
            raise vlib.ToolError("record_zonetree failed: " + err[-500:])
        ok, cfg, rej = _validate(ctx, tr, "trace-%d" % i)
        ctx.traces += 1
        if not ok:
            ctx.violation("recorded ZoneTree run is not a behaviour of ZoneTree.tla", rej)
            continue
        if i == 0:
            # binding self-test: corrupt one recorded find result
            bad = os.path.join(ctx.work, "trace-bad.ndjson")
            lines = open(tr).read().splitlines()
            done = False
            for j in range(len(lines) // 2, len(lines)):
                o = json.loads(lines[j])
                if o["ev"] == "find" and o["res"] != 0:
                    o["res"] = 0
                    lines[j] = json.dumps(o)
                    done = True
                    break
            if not done:
                raise vlib.ToolError("no find hit in the recorded trace to corrupt")
            open(bad, "w").write("\n".join(lines) + "\n")
            ok2, _, _ = ctx.validate_trace("Trace_ZoneTree", cfg, bad, label="trace-selftest")
            ctx.selftest("corrupted trace is rejected by Trace_ZoneTree", not ok2)


def run(ctx):
    thorough = ctx.tier == "thorough"
    ctx.build("replay_zonetree", "record_zonetree", "replay_zoneversions")
    _tree_mc(ctx, thorough)
    _versions_mc(ctx, thorough)
    _tree_s2i(ctx, thorough)
    _versions_s2i(ctx, thorough)
    _tree_i2s(ctx, thorough)
    ctx.extra = {"properties": PROPERTIES}
    ctx.assume("zones are identified through their public read interface (SOA serial = identity); "
               "errors are compared as ok/err")
    ctx.assume("clean_versions is not reachable through the public interface and has no caller: "
               "X03.5 is decided on the specification only")
    ctx.assume("Version numbers are naturals in ZoneVersions.tla; the RFC 1982 wrap of the 32-bit Version after 2^31 commits is not modelled")
