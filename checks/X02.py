"""X02 — server-side DNS cookies middleware (spec/Cookies.tla)."""
import json
import os
import re
import vlib

META = {
    "category": "model_checking",
    "properties": [
        "P1 DeniedNeedsCookie: a UDP request from a deny-listed address reaches the service only with a server cookie that is valid now; otherwise REFUSED+TC / FORMERR / BADCOOKIE, never data",
        "P2 ValidIffExact: a server cookie is valid iff it is the 16-octet cookie whose hash is Hash(secret, client cookie, version, reserved, timestamp, client IP) and whose timestamp is in [now-3600, now+300] in RFC 1982 arithmetic (all clock values, both sides of the 2^32 wrap and of the 2^31 distance)",
        "P3 ResponseCookie: a response carries a COOKIE option only for a well-formed request COOKIE option, then exactly one: the client cookie plus a server cookie valid now; and every response to such a request carries one (RFC 7873 5.2.3-5.2.5)",
        "P4 Transparent: total on malformed options (no panic), forwarded request unchanged, forwarded response changed at most in the COOKIE option",
        "P5 RetryConverges: the cookie of a BADCOOKIE reply is accepted when sent back (RFC 7873 5.3); liveness: a protocol-following denied client is served again and again, and eventually by every query",
    ],
    "text": "Cookies.tla transcribes CookiesMiddlewareSvc (new / with_denied_ips / enable / call, clock as environment) as a machine over transport, client address, QDCOUNT, OPT presence and the list of COOKIE options (any length; version, reserved, timestamp, symbolic SipHash term) with Serial arithmetic as in timestamp_ok next to the declarative RFC 9018 window. TLC checks P1-P5 for every configuration x clock value x request of the grid (every timestamp offset around both window ends, the swapped window and the RFC 1982 undefined distance; every single-argument mismatch of the hash), proves the two serial comparisons equal to the window for all (clock, timestamp) pairs modulo 64, and checks the liveness form of P5 under weak fairness. Every grid case and generated multi-call behaviours are executed on the real middleware around a recording service with the system clock interposed (clock values at 0, 2^31, 2^32-1 ...), cookies recomputed with an independent SipHash-2-4; recorded random runs (mutated options, clock jumps across the wrap) are validated by TLC with 32-bit limb arithmetic.",
    "note": "Trusted: TLC, the transcription, the harness's SipHash evaluator (checked against RFC 9018 Appendix A and the SipHash paper vector), distinct hash terms having distinct values, clock_gettime interposition. The window ends are taken inclusive (code, BIND, NSD). Cookies of a version other than 1 with a correct hash may be accepted or rejected. Header/question of FORMERR and REFUSED replies are not compared (the code builds them from scratch: ID 0, no question; the mandatory middleware restores ID and QR). Timestamps are modelled modulo 64 in MC and modulo 2^32 in the bindings.",
    "technique": "TLA+ spec (Cookies.tla) + TLC exhaustive + liveness; spec->impl grid and behaviour replay; impl->spec trace validation",
    "design_ref": "DESIGN.md §8 (Server: cookies middleware)",
}

ACTIONS = ["DoNew", "DoDeny", "DoEnable", "DoClock", "DoCall", "DoDone"]
DEV = "D_pass_no_cookie"
REPLAY_BIN = "replay_cookies"


def _temporal_violated(res, name):
    return ("Temporal property %s was violated" % name) in open(res.log).read()


def run(ctx):
    thorough = ctx.tier == "thorough"
    suf = "_thorough" if thorough else ""
    dev_open = DEV in ctx.open_devs
    ctx.build("replay_cookies", "record_cookies")

    # ---- 1. TLC decides the properties on the specification ----
    mc = ctx.tlc("MC_Cookies", "MC_Cookies" + suf, workers=8, label="mc")
    ctx.require_ok(mc, "MC_Cookies (specified middleware: P1-P5, TimeLaw)")
    ctx.require_actions(mc, ACTIONS)
    for cfg, inv in (("MC_Cookies_vac1", "NeverPassDenied"), ("MC_Cookies_vac2", "NeverBadCookie")):
        r = ctx.tlc("MC_Cookies", cfg, workers=2, label=cfg, expect_violation=inv,
                    count=False, coverage=False)
        ctx.require_ok(r, "vacuity: %s is reachable" % inv)
    live = ctx.tlc("MC_CookiesLive", "MC_CookiesLive", workers=4, label="live", coverage=False)
    ctx.require_ok(live, "MC_CookiesLive (ServedAgainAndAgain, EventuallyAlwaysServed)")
    ctx.exhaustive_flags.append(True)
    if dev_open:
        # the model of the code as built: everything but "a COOKIE option in
        # every response" holds; that one is violated, and so is its
        # liveness consequence
        r = ctx.tlc("MC_Cookies", "MC_Cookies_asbuilt" + suf, workers=8, label="mc-asbuilt",
                    coverage=False)
        ctx.require_ok(r, "MC_Cookies_asbuilt (P1, P2, P3a, P3b, P4, P5 with %s)" % DEV)
        r = ctx.tlc("MC_Cookies", "MC_Cookies_" + DEV, workers=2, label="dev-" + DEV,
                    expect_violation="P3c_CookieAlways", count=False, coverage=False)
        ctx.require_ok(r, "deviation %s breaks P3c on the model" % DEV)
        r = ctx.tlc("MC_CookiesLive", "MC_CookiesLive_asbuilt", workers=4, label="live-asbuilt",
                    coverage=False)
        ctx.require_ok(r, "MC_CookiesLive_asbuilt (ServedAgainAndAgain)")
        r = ctx.tlc("MC_CookiesLive", "MC_CookiesLive_asbuilt_stable", workers=4,
                    label="live-asbuilt-stable", count=False, coverage=False)
        if not _temporal_violated(r, "EventuallyAlwaysServed"):
            raise vlib.ToolError("as-built model unexpectedly satisfies EventuallyAlwaysServed")

    # ---- 2. S->I: the whole grid through the real middleware ----
    grid = os.path.join(ctx.work, "grid.ndjson")
    gen = ctx.tlc("Gen_Cookies", "Gen_Cookies" + suf, workers=8, label="gen-grid", coverage=False,
                  cases_to=grid, count=False)
    ctx.require_ok(gen, "Gen_Cookies grid")
    if gen.ncases < 20000:
        raise vlib.ToolError("grid generator produced too few cases (%d)" % gen.ncases)
    head = os.path.join(ctx.work, "head.ndjson")
    with open(grid) as f, open(head, "w") as g:
        for i, line in enumerate(f):
            if i >= 30:
                break
            g.write(line)
    rc, out, err, _ = ctx.run_bin("replay_cookies", ["--selftest-perturb"], stdin_path=head)
    ctx.selftest("perturbed expectation is reported by replay_cookies", "FAIL " in out)
    # a forged hash presented as genuine must be reported
    with open(grid) as f:
        for line in f:
            o = json.loads(line)
            rq = o["in"]["req"]
            if (o["in"]["cfg"]["enabled"] and rq["udp"] and rq["ip"] == "a" and rq["qd"] == 1
                    and o["in"]["cfg"]["deny"]["a"] and len(rq["cks"]) == 1
                    and rq["cks"][0]["len"] == 24 and rq["cks"][0]["m"] == "none"
                    and rq["cks"][0]["v"] == 1 and o["exp"]["act"] == "pass"):
                rq["cks"][0]["m"] = "junk"
                bad = os.path.join(ctx.work, "forged.ndjson")
                open(bad, "w").write(json.dumps(o) + "\n")
                rc, out, err, _ = ctx.run_bin("replay_cookies", ["--open-devs", ",".join(ctx.open_devs)],
                                              stdin_path=bad)
                ctx.selftest("a forged cookie expected to pass is reported by replay_cookies",
                             "FAIL " in out)
                break
        else:
            raise vlib.ToolError("no authenticated-pass case in the grid")
    s = ctx.replay_cases("replay_cookies", grid, label="grid")
    if s.get("panics"):
        ctx.violation("the middleware panicked on a grid case", {"panics": s.get("panics")})

    # ---- 3. S->I: behaviours (several calls / reconfigurations on one object) ----
    beh = os.path.join(ctx.work, "beh.ndjson")
    gb = ctx.tlc("Gen_Cookies", "Gen_Cookies_beh" + suf, workers=1, label="gen-beh", coverage=False,
                 cases_to=beh, count=False, simulate=3000 if thorough else 800,
                 depth=60, seed=ctx.seed)
    ctx.require_ok(gb, "Gen_Cookies behaviours")
    if gb.ncases < 500:
        raise vlib.ToolError("behaviour generator produced too few cases (%d)" % gb.ncases)
    ctx.replay_cases("replay_cookies", beh, label="behaviours")

    # ---- 4. I->S: random / mutated options and clock jumps, validated by TLC ----
    tcfg = "Trace_Cookies_" + DEV if dev_open else "Trace_Cookies"
    n_traces = 6 if thorough else 2
    auth = bad = wrap = 0
    for i in range(n_traces):
        tr = os.path.join(ctx.work, "trace-%d.ndjson" % i)
        rc, out, err, _ = ctx.run_bin("record_cookies", [tr, str(ctx.seed * 100 + i),
                                                          "6000" if thorough else "3000"])
        m = re.search(r"RECORDED (\{.*\})", out)
        if rc != 0 or not m:
            raise vlib.ToolError("record_cookies failed: " + (out + err)[-500:])
        st = json.loads(m.group(1))
        auth += st["auth_pass"]
        bad += st["badcookie"]
        wrap += st["wrap_valid"]
        ctx.evaluations += st["events"]
        if st["panics"]:
            ctx.violation("the middleware panicked on a recorded request",
                          {"trace_seed": ctx.seed * 100 + i, "panics": st["panics"]})
        ok, res, rej = ctx.validate_trace("Trace_Cookies", tcfg, tr, label="trace-%d" % i)
        ctx.traces += 1
        if not ok:
            if rej and isinstance(rej, dict):
                # locate the event: depth-1 = events consumed + Done steps
                k = steps = 0
                evs = vlib.read_ndjson(tr)
                while k < len(evs) and steps + 1 + (1 if evs[k]["ev"] == "call" else 0) <= rej["depth"] - 1:
                    steps += 1 + (1 if evs[k]["ev"] == "call" else 0)
                    k += 1
                rej = dict(rej, trace_seed=ctx.seed * 100 + i, event_index=k,
                           event=evs[k] if k < len(evs) else None)
            ctx.violation("recorded middleware run is not a behaviour of Cookies.tla", rej)
        if i == 0:
            lines = open(tr).read().splitlines()
            # (a) a BADCOOKIE turned into a pass, (b) a response cookie with a wrong timestamp
            done = set()
            for j, l in enumerate(lines):
                o = json.loads(l)
                if o["ev"] != "call":
                    continue
                kind = None
                if "a" not in done and o["res"]["rcode"] == "BADCOOKIE":
                    o["res"].update(act="pass", rcode="svc", fwd="same", rest="same")
                    o["res"]["ck"]["k"] = "none"
                    kind = "a"
                elif "b" not in done and o["res"]["ck"]["k"] == "ck":
                    o["res"]["ck"]["ts"][1] ^= 1
                    kind = "b"
                if kind:
                    done.add(kind)
                    badp = os.path.join(ctx.work, "trace-bad-%s.ndjson" % kind)
                    open(badp, "w").write("\n".join(lines[:j] + [json.dumps(o)] + lines[j + 1:]) + "\n")
                    ok2, _, _ = ctx.validate_trace("Trace_Cookies", tcfg, badp, label="trace-selftest-" + kind)
                    ctx.selftest("corrupted trace (%s) is rejected by Trace_Cookies" %
                                 {"a": "BADCOOKIE turned into data", "b": "response cookie timestamp off by one"}[kind],
                                 not ok2)
                if len(done) == 2:
                    break
            if len(done) < 2:
                raise vlib.ToolError("trace 0 has no BADCOOKIE / cookie-carrying response")
    if auth == 0 or bad == 0:
        raise vlib.ToolError("vacuous traces: %d authenticated passes, %d BADCOOKIE" % (auth, bad))
    ctx.stage("trace-stats", {"authenticated_denied_udp_passes": auth, "badcookie": bad,
                              "valid_across_2^31_or_wrap": wrap})

    ctx.assume("distinct symbolic hash terms have distinct SipHash values (the harness evaluates terms with its own SipHash-2-4, checked against RFC 9018 Appendix A)")
    ctx.assume("the validity window is [now-3600, now+300] with both ends inclusive (the reading of the code's comment, BIND and NSD)")
    ctx.assume("a correctly hashed server cookie with a version other than 1 may be accepted (as the code does) or rejected")
    ctx.assume("header and question of the middleware's own FORMERR / REFUSED replies are not compared")
    ctx.assume("Serial::now() is driven through an interposed clock_gettime(CLOCK_REALTIME); TLC explores timestamps modulo 64 (all pairs), the bindings use 2^32")


def explain(ctx, dev):
    r = ctx.tlc("MC_Cookies", "MC_Cookies_" + dev, workers=2, label="explain", coverage=False)
    print(open(r.log).read()[-5000:])
    r = ctx.tlc("MC_CookiesLive", "MC_CookiesLive_asbuilt_stable", workers=2, label="explain-live",
                coverage=False)
    print(open(r.log).read()[-6000:])
