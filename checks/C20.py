"""C20 — client-side cache (spec/Cache.tla)."""
import json
import os
import vlib

META = {
    "category": "model_checking",
    "text": "Cache.tla transcribes src/net/client/cache.rs (key, the exact->Ad->Do->RD=1 lookup lattice with the entries it derives and inserts, validity(), expiry test, decrement_ttl, remove_dnssec, prepare_for_insert) and states the property over a ghost log of everything upstream said: served-from-cache responses were said by upstream for the same question and compatible RD/CD/AD/DO flags, TTLs aged by exactly the whole seconds elapsed, never served past the smallest TTL / max_validity / the per-class bound, no RRSIG/NSEC/NSEC3 or AD to queries that did not ask. TLC checks this on every transition, exhaustively for histories of 3-5 steps over three constant sets (flag lattice; ten upstream response classes x TTL vectors x three configurations; two names x two types x CD x spellings x bypass queries) with Evict always enabled, and seeded spec mutants must each be caught. The request alphabet includes the construction ROUTE of a request (header bits preset in the source message or set through header_mut(), a source that already carries an OPT record with DO clear / set, set_dnssec_ok / set_udp_payload_size calls): the flags under which the cache looks up and stores (what to_message() composes, by X15's ReqCompose.tla, INSTANCEd) must be the flags upstream is asked with (what append_message() composes into a stream target) and the flags of the request (P_ViewIsWire); the model's upstream answers the wire view. TLC-generated behaviours (exhaustive short ones and long simulated ones) are executed on the real cache::Connection over a scripted upstream under tokio's paused clock and compared after every operation; 2000-step random histories recorded from the real cache are validated by TLC against the spec with the property evaluated in every state.",
    "note": "Config: the documented defaults (DocDefaults) are exercised through Config::new() with no validity setter called, and every setter's clamping is compared with the documented limits via Config's Debug output. The scripted upstream of both bindings parses the octets the real request composes into a StreamTarget (never to_message() or the trait getters); the recorder's upstream answers that wire view and TLC compares it with the model's AskedQ. Trusted: TLC, the transcription in Cache.tla, ReqCompose.tla (checked by X15), the harness's message construction/projection (names and rdata compared case-insensitively, message ID not compared). One request at a time (no concurrent requests on one cache). moka's capacity eviction is not modelled (Evict(k) is always enabled in the model; the bindings run below capacity). Upstream is assumed well-behaved (DNSSEC records only to DO queries, AD only to AD/DO queries) and well-formed. Histories beyond the explored depth are sampled, not enumerated.",
    "technique": "TLA+ spec (Cache.tla) + TLC exhaustive over bounded histories with hidden ghost log; spec->impl behaviour replay under virtual time; impl->spec trace validation",
    "design_ref": "DESIGN.md §4 C20",
}

DEV = "D_err_exceeds_max_validity"

LABELS = ["tick", "evict", "bypass", "miss", "expired", "exact", "ad", "do",
          "rd:exact", "rd:ad", "rd:do"]

# seeded mutants of the specification and the property that must catch each
MUTANTS = [
    ("M_nostrip", "P_ServedWasSaid|P_NoDnssecLeak", "MC_Cache"),
    ("M_ad_leak", "P_NoDnssecLeak", "MC_Cache"),
    ("M_expiry_secs", "P_NeverStale", "MC_Cache"),
    ("M_double_dec", "P_AgedExactly", "MC_Cache"),
    ("M_derived_now", "P_AgedExactly", "MC_Cache"),
    ("M_neg_posbound", "P_BoundsRespected", "MC_Cache_classes"),
    ("M_first_auth", "P_BoundsRespected", "MC_Cache_classes"),
    ("M_deleg_nomin", "P_NeverStale", "MC_Cache_maxval"),
    ("M_tc_cached", "P_BoundsRespected", "MC_Cache_classes"),
    ("M_err_forever", "P_BoundsRespected", "MC_Cache_classes"),
    ("M_ad_leak_do", "P_NoDnssecLeak", "MC_Cache"),
    # to_message() (the cache's key) and append_message() (the wire) disagree
    # about an OPT record of the source message
    ("M_fastpath", "P_ViewIsWire|P_ServedWasSaid", "MC_Cache_route"),
]


def _cfg_variant(ctx, base, name, subst):
    """Write spec/<name>.cfg = spec/<base>.cfg with CONSTANT lines replaced.
    The file is removed again by the caller (nothing stray stays in spec/)."""
    import re
    s = open(os.path.join(vlib.SPEC, base + ".cfg")).read()
    for k, v in subst.items():
        s, n = re.subn(r"(?m)^  %s (=|<-) .*$" % k, "  %s %s" % (k, v), s)
        if n != 1:
            raise vlib.ToolError("cfg variant: constant %s not found in %s" % (k, base))
    path = os.path.join(vlib.SPEC, name + ".cfg")
    open(path, "w").write(s)
    return path


def _covered(res):
    return {c["a"] for c in res.tagged.get("COVER", []) if isinstance(c, dict)}


def run(ctx):
    thorough = ctx.tier == "thorough"
    ctx.build("replay_cache", "record_cache")
    tmp_cfgs = []
    try:
        _run(ctx, thorough, tmp_cfgs)
    finally:
        for p in tmp_cfgs:
            if os.path.exists(p):
                os.remove(p)


def _run(ctx, thorough, tmp_cfgs):
    tag = "%d" % os.getpid()
    # 1. the specification satisfies the property -------------------------
    covered = set()
    if os.environ.get("C20_BINDINGS_ONLY"):
        # development aid for mutation trials of the real code: skip the
        # stages that do not touch the real code (never set by bin/check users)
        _bindings(ctx, thorough, tmp_cfgs, tag)
        return
    cfgs = ["MC_Cache", "MC_Cache_classes", "MC_Cache_maxval", "MC_Cache_default",
            "MC_Cache_part", "MC_Cache_route"]
    if thorough:
        cfgs = ["MC_Cache", "MC_Cache_thorough", "MC_Cache_classes_thorough",
                "MC_Cache_maxval", "MC_Cache_default", "MC_Cache_part_thorough",
                "MC_Cache_route", "MC_Cache_route_thorough"]
    for cfg in cfgs:
        base = cfg
        mc = ctx.tlc("MC_Cache", cfg, workers=8, coverage=False,
                     label="mc-" + base[3:].lower(), timeout=3000)
        ctx.require_ok(mc, base)
        covered |= _covered(mc)
        ctx.exhaustive_flags.append(True)
    missing = [l for l in LABELS if l not in covered]
    if missing:
        raise vlib.ToolError("vacuity: actions / lookup rungs never taken: %s" % missing)
    for l in LABELS:
        ctx.coverage_actions[l] = (1, 1)
    # the invariants have teeth: every seeded mutant of the spec is caught
    quick_muts = ("M_nostrip", "M_expiry_secs", "M_first_auth", "M_deleg_nomin", "M_fastpath")
    muts = MUTANTS if thorough else [m for m in MUTANTS if m[0] in quick_muts]
    for mut, prop, base in muts:
        cfg = "%s_m%s_%s" % (base, tag, mut)
        tmp_cfgs.append(_cfg_variant(ctx, base, cfg, {"Mut": '= {"%s"}' % mut}))
        r = ctx.tlc("MC_Cache", cfg, workers=4, coverage=False, label="mutant-" + mut,
                    count=False, timeout=1200)
        if r.violated not in prop.split("|"):
            raise vlib.ToolError("seeded spec mutant %s was not caught by %s (violated=%s)"
                                 % (mut, prop, r.violated))
        ctx.selftest("spec mutant %s violates %s" % (mut, prop), True)

    # the named deviation is what it is claimed to be: with it the model
    # breaks NeverStale (and nothing else), without it (above) it does not
    cfg = "MC_Cache_maxval_d%s" % tag
    tmp_cfgs.append(_cfg_variant(ctx, "MC_Cache_maxval", cfg, {"Dev": '= {"%s"}' % DEV}))
    r = ctx.tlc("MC_Cache", cfg, workers=4, coverage=False, label="deviation-" + DEV,
                count=False, timeout=1200)
    if r.violated != "P_NeverStale":
        raise vlib.ToolError("deviation %s does not violate P_NeverStale in the model (%s)"
                             % (DEV, r.violated))

    _bindings(ctx, thorough, tmp_cfgs, tag)


def _dev_cases(ctx, tmp_cfgs, tag):
    """Transport errors under a configuration with max_validity <
    transport_failure_duration: the same behaviours generated from the ideal
    model (exp) and from the model with the deviation (dev), joined on the
    operations performed."""
    a = os.path.join(ctx.work, "err-ideal.ndjson")
    g = ctx.tlc("Gen_Cache", "Gen_Cache_err", workers=8, coverage=False, label="gen-err-ideal",
                cases_to=a, count=False)
    ctx.require_ok(g, "Gen_Cache_err")
    cfg = "Gen_Cache_err_d%s" % tag
    path = _cfg_variant(ctx, "Gen_Cache_err", cfg, {"Dev": '= {"%s"}' % DEV})
    tmp_cfgs.append(path)
    t = open(path).read().replace("INVARIANT GProp\n", "")
    open(path, "w").write(t)
    b = os.path.join(ctx.work, "err-dev.ndjson")
    g2 = ctx.tlc("Gen_Cache", cfg, workers=8, coverage=False, label="gen-err-dev",
                 cases_to=b, count=False)
    ctx.require_ok(g2, "Gen_Cache_err (with deviation)")

    def key(c):
        ops = [{k: v for k, v in op.items() if k != "via"} for op in c["in"]["ops"]]
        return json.dumps({"cfg": c["in"]["cfg"], "ops": ops}, sort_keys=True)
    dev = {}
    for c in vlib.read_ndjson(b):
        dev[key(c)] = c["exp"]
    out = []
    ndiff = 0
    for c in vlib.read_ndjson(a):
        d = dev.get(key(c))
        if d is None:
            raise vlib.ToolError("deviation generator: behaviour sets differ")
        if d != c["exp"]:
            c["dev"] = {DEV: d}
            ndiff += 1
        out.append(c)
    if ndiff == 0 or len(out) != len(dev):
        raise vlib.ToolError("deviation generator: %d cases, %d differ" % (len(out), ndiff))
    p = os.path.join(ctx.work, "cases-err.ndjson")
    vlib.write_ndjson(p, out)
    return p


def _bindings(ctx, thorough, tmp_cfgs, tag):
    # 2. S->I: generated behaviours on the real cache --------------------
    cases = os.path.join(ctx.work, "cases.ndjson")
    gen = ctx.tlc("Gen_Cache", "Gen_Cache", workers=8, coverage=False, label="gen-exh",
                  cases_to=cases, count=False)
    ctx.require_ok(gen, "Gen_Cache")
    if gen.ncases < 1000:
        raise vlib.ToolError("generator produced too few behaviours")
    head = os.path.join(ctx.work, "head.ndjson")
    with open(cases) as f, open(head, "w") as g:
        for i, line in enumerate(f):
            if i >= 20:
                break
            g.write(line)
    rc, out, err, _ = ctx.run_bin("replay_cache", ["--selftest-perturb"], stdin_path=head)
    ctx.selftest("perturbed expectation is reported by replay_cache", "FAIL " in out)
    # a behaviour whose expected TTL is off by one must be reported too
    first = json.loads(open(head).readline())
    bad = _perturb_ttl(first)
    if bad is not None:
        badp = os.path.join(ctx.work, "bad.ndjson")
        vlib.write_ndjson(badp, [bad])
        rc, out, err, _ = ctx.run_bin("replay_cache", ["--open-devs", ""], stdin_path=badp)
        ctx.selftest("expected TTL off by one is reported by replay_cache", "FAIL " in out)
    ctx.replay_cases("replay_cache", cases, label="cache-exhaustive")
    # every construction route of a request (header bits in the source or
    # through header_mut, a source with / without an OPT record, the EDNS
    # setters): the mock upstream answers what it finds in the octets the
    # request composes into a StreamTarget
    casesr = os.path.join(ctx.work, "cases-route.ndjson")
    genr = ctx.tlc("Gen_Cache", "Gen_Cache_route" + ("_thorough" if thorough else ""), workers=8, coverage=False,
                   label="gen-route", cases_to=casesr, count=False)
    ctx.require_ok(genr, "Gen_Cache_route")
    if genr.ncases < 1000:
        raise vlib.ToolError("generator produced too few behaviours")
    if not _routes_covered(casesr):
        raise vlib.ToolError("route cases never re-ask a question of a source-OPT request with a setter-built DO request")
    ctx.replay_cases("replay_cache", casesr, label="cache-routes")
    # every response class x configuration corner around the bounds
    cases2 = os.path.join(ctx.work, "cases-classes.ndjson")
    gen2 = ctx.tlc("Gen_Cache", "Gen_Cache_classes", workers=8, coverage=False,
                   label="gen-classes", cases_to=cases2, count=False)
    ctx.require_ok(gen2, "Gen_Cache_classes")
    if gen2.ncases < 1000:
        raise vlib.ToolError("generator produced too few behaviours")
    ctx.replay_cases("replay_cache", cases2, label="cache-classes")
    # TTLs above every bound, max_validity below / above the class bounds,
    # clock steps just below / above max_validity
    cases3 = os.path.join(ctx.work, "cases-maxval.ndjson")
    gen3 = ctx.tlc("Gen_Cache", "Gen_Cache_maxval", workers=8, coverage=False,
                   label="gen-maxval", cases_to=cases3, count=False)
    ctx.require_ok(gen3, "Gen_Cache_maxval")
    if gen3.ncases < 1000:
        raise vlib.ToolError("generator produced too few behaviours")
    ctx.replay_cases("replay_cache", cases3, label="cache-maxval")
    # the documented default configuration, obtained from Config::new() with
    # no validity setter called, around its 30 s / 1 h bounds
    cases4 = os.path.join(ctx.work, "cases-default.ndjson")
    gen4 = ctx.tlc("Gen_Cache", "Gen_Cache_default", workers=8, coverage=False,
                   label="gen-default", cases_to=cases4, count=False)
    ctx.require_ok(gen4, "Gen_Cache_default")
    if gen4.ncases < 1000:
        raise vlib.ToolError("generator produced too few behaviours")
    ctx.replay_cases("replay_cache", cases4, label="cache-default")
    # Config: documented defaults and every setter's clamping
    cases5 = os.path.join(ctx.work, "cases-config.ndjson")
    gen5 = ctx.tlc("Gen_Cache", "Gen_Cache_cfg", workers=1, coverage=False,
                   label="gen-config", cases_to=cases5, count=False)
    ctx.require_ok(gen5, "Gen_Cache_cfg")
    if gen5.ncases < 50:
        raise vlib.ToolError("config generator produced too few cases")
    ctx.replay_cases("replay_cache", cases5, label="cache-config")
    # cached transport failures against max_validity (named deviation)
    ctx.replay_cases("replay_cache", _dev_cases(ctx, tmp_cfgs, tag), label="cache-err-maxval")
    # long random behaviours over the large constants
    sims = [("Gen_Cache_sim", 3000 if thorough else 400, 14),
            ("Gen_Cache_sim2", 3000 if thorough else 300, 24 if thorough else 16)]
    for cfgname, num, depth in sims:
        cfg = cfgname + ("_thorough" if thorough else "")
        simf = os.path.join(ctx.work, cfgname + ".ndjson")
        # one worker: the behaviours are a function of the seed
        sim = ctx.tlc("Gen_Cache", cfg, workers=1, coverage=False, label="gen-" + cfgname[10:],
                      simulate=num, depth=depth + 2, cases_to=simf, count=False)
        ctx.require_ok(sim, cfgname)
        if sim.ncases < num // 2:
            raise vlib.ToolError("simulation produced too few behaviours (%d)" % sim.ncases)
        rungs = _rungs(simf)
        want = {"exact", "ad", "do", "rd:exact", "miss", "expired"}
        if not want <= rungs:
            raise vlib.ToolError("simulated behaviours never went through %s" % sorted(want - rungs))
        ctx.replay_cases("replay_cache", simf, label="cache-" + cfgname[10:])

    # 3. I->S: recorded histories of the real cache validated by TLC ------
    kinds = ["mixed", "tight", "default", "min", "random", "random"]
    n_traces = 6 if thorough else 2
    steps = 3000 if thorough else 1500
    for i in range(n_traces):
        tr = os.path.join(ctx.work, "trace-%d.ndjson" % i)
        rc, out, err, _ = ctx.run_bin("record_cache", [tr, str(ctx.seed * 100 + i), str(steps), kinds[i]])
        if rc != 0:
            raise vlib.ToolError("record_cache failed: " + err[-500:])
        hits = int(out.split("hits")[1].split()[0]) if "hits" in out else 0
        if hits < steps // 20:
            raise vlib.ToolError("recorded history has too few cache hits (%d)" % hits)
        ok, res, rej = ctx.validate_trace("Trace_Cache", "Trace_Cache", tr, label="trace-%d" % i)
        ctx.traces += 1
        if not ok:
            ctx.violation("recorded history of cache::Connection is not a behaviour of Cache.tla "
                          "or breaks the property (%s)" % (res.violated or "event not matched"),
                          rej or {"trace_seed": ctx.seed * 100 + i, "config": kinds[i],
                                  "violated": res.violated})
        if i == 0:
            bad = os.path.join(ctx.work, "trace-bad.ndjson")
            if _corrupt_trace(tr, bad):
                ok2, _, _ = ctx.validate_trace("Trace_Cache", "Trace_Cache", bad, label="trace-selftest")
                ctx.selftest("cache hit with one TTL raised by 1 is rejected by Trace_Cache", not ok2)
            else:
                raise vlib.ToolError("no cache hit with records in the recorded trace")
    ctx.assume("one request at a time; concurrent requests on one cache::Connection are not modelled")
    ctx.assume("upstream is well-formed and well-behaved: DNSSEC records/OPT only for DO queries, AD only for AD or DO queries, question echoed")
    ctx.assume("capacity eviction (moka) is an always-enabled Evict(k) in the model; bindings run below capacity")
    ctx.assume("'once its smallest TTL has elapsed' is read as elapsed > TTL (served at the boundary instant with TTL 0); the smallest TTL is taken over the records actually handed out")
    ctx.assume("names and rdata are compared case-insensitively, the message ID is not compared")


def _routes_covered(path):
    """vacuity guard of the route cases: some behaviour sends a request whose
    source carries an OPT with DO and no setter is used, then asks the same
    question with set_dnssec_ok(true)"""
    with open(path) as f:
        for line in f:
            ops = [o for o in json.loads(line)["in"]["ops"] if o["op"] == "query"]
            for i, a in enumerate(ops):
                r = a["q"]["route"]
                if r["src"]["opt"] == 2 and not r["ops"]:
                    for b in ops[i + 1:]:
                        if ["do", 1] in b["q"]["route"]["ops"]:
                            return True
    return False


def _rungs(path):
    seen = set()
    with open(path) as f:
        for line in f:
            o = json.loads(line)
            for op in o["in"]["ops"]:
                seen.add(op.get("via", "tick"))
    return seen


def _perturb_ttl(case):
    """first served record of a behaviour gets TTL+1 in the expectation"""
    case = json.loads(json.dumps(case))
    for e in case["exp"]:
        s = e.get("served") if isinstance(e, dict) else None
        if isinstance(s, dict) and "an" in s:
            for sec in ("an", "ns", "ar"):
                for rr in s[sec]:
                    if rr["t"] != "OPT":
                        rr["ttl"] += 1
                        return case
    return None


def _corrupt_trace(src, dst):
    lines = open(src).read().splitlines()
    done = False
    for j, l in enumerate(lines):
        o = json.loads(l)
        if o.get("ev") == "query" and not o["upstream"] and "an" in o["served"]:
            for sec in ("an", "ns", "ar"):
                for rr in o["served"][sec]:
                    if rr["t"] != "OPT" and not done:
                        rr["ttl"] += 1
                        done = True
            if done:
                lines[j] = json.dumps(o)
                break
    open(dst, "w").write("\n".join(lines) + "\n")
    return done


def explain(ctx, dev):
    """bin/check C20 --explain D_err_exceeds_max_validity: TLC's counterexample."""
    tag = "%d" % os.getpid()
    path = _cfg_variant(ctx, "MC_Cache_maxval", "MC_Cache_maxval_d" + tag, {"Dev": '= {"%s"}' % dev})
    try:
        r = ctx.tlc("MC_Cache", "MC_Cache_maxval_d" + tag, workers=4, coverage=False,
                    label="explain", count=False)
        print(open(r.log).read()[-6000:])
    finally:
        os.remove(path)


def replay(ctx, case):
    """bin/check C20 --replay <file>: re-execute one failing behaviour."""
    ctx.build("replay_cache")
    c = case.get("case", case)
    if "in" not in c:
        print("replay file holds a rejected trace event, not a behaviour; re-run bin/check C20")
        return
    p = os.path.join(ctx.work, "replay.ndjson")
    vlib.write_ndjson(p, [{"in": c["in"], "exp": c["exp"]}])
    ctx.replay_cases("replay_cache", p, label="replay")
