"""C09 — zone readers see one committed version; commits atomic, aborts invisible,
writers serialised, walk = the reader's version (spec/ZoneStore.tla)."""
import importlib.util
import json
import os
import vlib

_spec = importlib.util.spec_from_file_location("check_C08_shared", os.path.join(os.path.dirname(__file__), "C08.py"))
c08 = importlib.util.module_from_spec(_spec)
_spec.loader.exec_module(c08)

META = {
    "category": "model_checking",
    "text": "ZoneStore.tla models the multi-version store with its concurrency skeleton: current version, update lock, dirty flag, readers pinned to versions, one action per critical section (lock, open, every write operation incl. the unversioned node creation, the two commit steps, drop/rollback, reader acquire/query/walk/release). TLC checks over all interleavings within small constants: SnapshotIsolation, AbortInvisible, AtomicVisibility, SingleWriter, WalkIsContent on the repaired design, and on the transcription of today's code that node creation is the only way an old version's answers can change. TLC-generated interleavings are replayed single-threaded on a real Zone with held readers; real-thread runs (readers + two writers) ordered by in-lock sequence numbers from cfg-guarded hooks are validated by TLC.",
    "note": "Trusted: TLC, the transcription, the harness. Real-thread schedules are sampled, not enumerated; lock internals of parking_lot/tokio are not modelled. The real-thread stage needs hooks/zonetree_trace.diff applied to the library (skipped with a note otherwise). Known finding (open): D_unversioned_node_creation.",
    "technique": "TLA+ spec (ZoneStore.tla) + TLC exhaustive interleavings; spec->impl behaviour replay with held readers; impl->spec validation of single-threaded and real-thread traces",
    "design_ref": "DESIGN.md §4 C09, §5 H1/H2",
}

ACTIONS = ["Init", "Build", "AcquireWriteLock", "Open", "CommitUpdateCurrent", "CommitPushVersion",
           "DropWriter", "W_UpdateChild", "W_UpdateRrset", "W_RemoveRrset", "W_RemoveAll",
           "U_AddRecord", "U_DeleteRecord", "U_DeleteAll", "U_Soa",
           "ReaderAcquire", "ReaderQuery", "ReaderWalk", "ReaderRelease"]

DEV = "D_unversioned_node_creation"


def hook_present():
    repo = os.environ.get("VERIF_REPO") or "/repo"
    try:
        return "verif_trace" in open(os.path.join(repo, "src", "lib.rs")).read()
    except OSError:
        return False


def run(ctx):
    thorough = ctx.tier == "thorough"
    threads = hook_present()
    bins = ["replay_zone", "record_zone"] + (["record_zone_threads"] if threads else [])
    ctx.build(*bins)

    # 1. the repaired design satisfies all five C09 invariants over every interleaving
    mc = ctx.tlc("MC_ZoneStore", "MC_ZoneStore_c09_thorough" if thorough else "MC_ZoneStore_c09",
                 workers=8, label="mc", timeout=3000)
    ctx.require_ok(mc, "MC_ZoneStore_c09")
    ctx.require_actions(mc, ACTIONS)
    if thorough:
        # two successive versions (1 reader, 2 writers)
        deep = ctx.tlc("MC_ZoneStore", "MC_ZoneStore_c09_deep", workers=8, label="mc-deep", timeout=3000)
        ctx.require_ok(deep, "MC_ZoneStore_c09_deep")
    ctx.exhaustive_flags.append(True)
    # 2. today's code (all deviations in force): versions are immutable, writers
    #    serialised, walk = version, visibility atomic, and node creation is the
    #    ONLY way the shared tree changes an old version's answers
    real = ctx.tlc("MC_ZoneStore", "MC_ZoneStore_c09_real", workers=8, label="mc-real", timeout=3000)
    ctx.require_ok(real, "MC_ZoneStore_c09_real")
    # 2b. liveness (model only): under weak fairness of the holder's steps and a fair
    #     lock, a granted lock is eventually released and a waiting writer gets it;
    #     without fairness the first property fails (non-vacuity)
    live = ctx.tlc("MC_ZoneStore", "MC_ZoneStore_live", workers=4, label="mc-live", coverage=False, timeout=900)
    ctx.require_ok(live, "MC_ZoneStore_live")
    nf = ctx.tlc("MC_ZoneStore", "MC_ZoneStore_live_nofair", workers=4, label="mc-live-nofair", coverage=False,
                 count=False, timeout=900)
    if "Temporal property LockEventuallyReleased was violated" not in open(nf.log).read():
        raise vlib.ToolError("liveness property holds without fairness: vacuous")
    # 3. the known finding is a genuine counterexample of SnapshotIsolation
    if DEV in ctx.open_devs:
        r = ctx.tlc("MC_ZoneStore", "MC_ZoneStore_devsim9", workers=4, label="dev-" + DEV,
                    expect_violation="SnapshotIsolation", count=False, coverage=False,
                    simulate=100000, depth=30, timeout=1500)
        if not r.ok:
            raise vlib.ToolError("%s does not violate SnapshotIsolation in the model" % DEV)

    # 4. S->I: interleavings with held readers, replayed single-threaded
    cases = os.path.join(ctx.work, "beh.ndjson")
    gen = ctx.tlc("Gen_ZoneStore", "Gen_ZoneStore_c09", workers=4, simulate=(60 if thorough else 10),
                  depth=41, label="gen", coverage=False, cases_to=cases, count=False, timeout=3000)
    ctx.require_ok(gen, "Gen_ZoneStore_c09")
    if gen.ncases < 50:
        raise vlib.ToolError("generator produced too few behaviours (%d)" % gen.ncases)
    head = os.path.join(ctx.work, "head.ndjson")
    with open(cases) as f, open(head, "w") as g:
        for i, line in enumerate(f):
            if i >= 5:
                break
            g.write(line)
    rc, out, err, _ = ctx.run_bin("replay_zone", ["--prop", "C09", "--selftest-perturb"], stdin_path=head)
    ctx.selftest("perturbed expectation is reported by replay_zone", "FAIL " in out)
    s = ctx.replay_cases("replay_zone", cases, args=["--prop", "C09"], label="zone-c09")
    ctx.evaluations += s.get("observations", 0)

    # 5. I->S
    def validate(tr, label):
        ok, res, rej = ctx.validate_trace("Trace_ZoneStore", "Trace_ZoneStore", tr, label=label, timeout=1500)
        ctx.traces += 1
        if not ok:
            ctx.violation("recorded run is not a behaviour of ZoneStore.tla (%s)" % label, rej or res.violated)
        c08.witness_known(ctx, res, "WITNESS9", label)
        return ok

    tr = os.path.join(ctx.work, "trace-seq.ndjson")
    rc, out, err, _ = ctx.run_bin("record_zone", ["seq", tr, str(ctx.seed * 100 + 50), "900" if thorough else "350"])
    if rc != 0:
        raise vlib.ToolError("record_zone failed: " + err[-500:])
    validate(tr, "trace-seq")
    bad = os.path.join(ctx.work, "trace-bad.ndjson")

    def wrong_version(o):
        o["v"] = o["v"] + 1
    # a reader that does not get the current version must be rejected
    found = c08.corrupt_trace(tr, bad, lambda o: o["a"] == "ReaderAcquire", wrong_version)
    if found:
        ok2, _, _ = ctx.validate_trace("Trace_ZoneStore", "Trace_ZoneStore", bad, label="trace-selftest")
        ctx.selftest("trace with a reader pinned to a wrong version is rejected", not ok2)

    if threads:
        n = 6 if thorough else 2
        for i in range(n):
            tr = os.path.join(ctx.work, "trace-thr-%d.ndjson" % i)
            rc, out, err, _ = ctx.run_bin("record_zone_threads", [tr, str(ctx.seed * 100 + i), "3",
                                                                  "25" if thorough else "12"])
            if rc != 0:
                raise vlib.ToolError("record_zone_threads failed: " + err[-500:])
            validate(tr, "trace-thr-%d" % i)
            if i == 0:
                bad = os.path.join(ctx.work, "trace-thr-bad.ndjson")
                # swap a writer's lock acquisition in front of the other writer's drop:
                # two writers inside the lock must be rejected (SingleWriter)
                lines = open(tr).read().splitlines()
                objs = [json.loads(l) for l in lines]
                idx = [j for j, o in enumerate(objs) if o["a"] == "AcquireWriteLock"]
                done = False
                for j in idx[1:]:
                    k = j - 1
                    while k > 0 and objs[k]["a"] != "DropWriter":
                        k -= 1
                    if objs[k]["a"] == "DropWriter" and objs[k]["w"] != objs[j]["w"]:
                        objs.insert(k, objs.pop(j))
                        done = True
                        break
                if done:
                    open(bad, "w").write("\n".join(json.dumps(o) for o in objs) + "\n")
                    ok2, _, _ = ctx.validate_trace("Trace_ZoneStore", "Trace_ZoneStore", bad,
                                                   label="trace-thr-selftest")
                    ctx.selftest("thread trace with two writers inside the lock is rejected", not ok2)
        ctx.assume("real-thread events are ordered by sequence numbers drawn inside the protecting locks (hooks/zonetree_trace.diff); a query result is accepted if the transcription yields it in a tree state that existed between the query's begin and end")
    else:
        ctx.stage("threads", {"skipped": "hooks/zonetree_trace.diff not applied to the library under test"})
        ctx.assume("real-thread stage skipped: hooks/zonetree_trace.diff is not applied to the library under test")
    ctx.assume("C09 is judged on its own: a held reader must keep getting the answers its version gave when published, whether or not those answers are RFC-correct (C08)")
    ctx.assume("real-thread schedules are sampled; interleavings are enumerated in the model only")


def explain(ctx, dev):
    r = ctx.tlc("MC_ZoneStore", "MC_ZoneStore_devsim9", workers=4, label="explain", coverage=False,
                count=False, simulate=100000, depth=30)
    print(open(r.log).read()[-6000:])


def replay(ctx, case):
    ctx.build("replay_zone")
    p = os.path.join(ctx.work, "one.ndjson")
    vlib.write_ndjson(p, [case.get("case", case)])
    ctx.replay_cases("replay_zone", p, args=["--prop", "C09"], label="replay")
