"""C04 — equality, order and hash are coherent; order is the DNSSEC canonical order (spec/Order.tla)."""
import json
import os
import vlib

ACTIONS = ["Init"]

META = {
    "category": "model_checking",
    "text": "Equality, RFC 4034 6.1 order, composed orders and hash keys of labels, names, character strings, the canonical order of record data (octet order of the canonical wire form given by the Rdata.tla layout table) and of records are operators of Order.tla. TLC checks on an enumerated space (110 labels over the octets around both letter ranges, 166/421 names of up to 3 labels incl. the a.b / a\\.b pair, per-type record data differing in one field, a record grid) that they are total orders coherent with ==, case-insensitive, that hash keys respect ==, that the RFC 4034 example list is sorted, and transitivity over triples. Every enumerated pair is replayed into the real library in every representation (Name<Vec>, Name<Bytes>, ParsedName uncompressed, compressed (labels+pointer, pointer chains, pointer->labels->pointer) and derived from longer names by split_first / parent / iter_suffixes, Chain at three split points, &Name<[u8]>, RelativeName over Vec/slice/Bytes, UncertainName, four case variants; Label and OwnedLabel incl. Borrow<Label> hash agreement and HashMap<OwnedLabel,_> lookup by &Label; CharStr over Vec/slice/Bytes; AllRecordData and ZoneRecordData; Record parsed and flattened, RecordHeader, ParsedRecord, Question) comparing ==, partial_cmp, cmp, name_cmp, canonical_cmp, composed_cmp, lowercase_composed_cmp and hash equality under a fixed hasher; recorded random pairs (names up to 255 octets, record data of all types) are validated by TLC. Representation independence is a law of the specification: Order.tla has carrier terms (flat Name over Vec/Bytes/Array/slice, ParsedName with any set of compression-pointer positions and pointer-only hops, Chain<Rel,Abs>, Chain<Rel,Chain<Rel,Abs>>, Chain<Chain<Rel,Rel>,Abs>, Chain<UncertainName,Abs> relative and absolute, chain_root, &T, &&T), their denotation, and compose / compose_canonical / compose_len written part by part as the implementation does; TLC checks CarrierLaw (they are functions of the denoted name only, canonical = lower-cased compose, also for record data and whole records whose names sit in carriers) and that two model mutants break it. Generated (name, carrier) cases, carrier pairs, record data of all 21 types with a name field and records over carriers are replayed into the real library (24 carrier shapes built as 21 static types, 8 relative ones): compose, to_name / to_vec / to_bytes / to_cow / try_to_name<Array> / flatten_into / as_flat_slice, compose_canonical / to_canonical_name, compose_len, iter_labels from both ends, rrsig_label_count, is_root, hash, name_eq / name_cmp / composed_cmp / lowercase_composed_cmp against the flat name in three spellings and between carriers, compose_rdata / compose_canonical_rdata / the *_len_* forms / rdlen / typed == and canonical_cmp of AllRecordData and ZoneRecordData over carriers, Record::compose / compose_canonical / canonical_cmp and RecordHeader::compose_canonical with a carried owner, all against expectations computed from the denoted name alone; recorded random carriers (names up to 255 octets, random cuts and renderings) are validated by TLC. Representations of record data are terms of the specification too (DataReps: AllRecordData, ZoneRecordData, UnknownRecordData, and a RecordData implemented outside the library whose canonical_cmp answers any sign for two values of different types, as the RFC 4034 6.3 contract allows): Record::canonical_cmp is written step by step (class, owner, type, then the data's answer; RecCanonVia) and TLC checks RecRepLaw -- it is the pinned owner -> type -> RDATA order whatever the data type answers across types, antisymmetric, Equal only for == records -- and that a model mutant without the type step breaks it. Generated record pairs x representation x cross-type answer are replayed with owner, names and octets held differently on the two sides (parsed in a message / Vec / Bytes / owner and data mixed: 25 pairings of Record<N, AllRecordData<O, N>>, 16 of ZoneRecordData, 16 of UnknownRecordData, 9 of the outside type) through the two-parameter ==, partial_cmp, canonical_cmp (both directions) and hash; recorded random record pairs in random representations are validated by TLC.",
    "note": "Trusted: TLC, Order.tla / Names.tla / Rdata.tla, the harness. Not pinned (only coherence laws demanded): Ord of character strings, record data and records; == of record data whose character strings differ only in case; whether == of records looks at the TTL; canonical order of records of different class. Transitivity of the implementation's orders follows from agreement with the (TLC-checked) specification order on the enumerated set for pinned orders only; for unpinned orders only antisymmetry and eq<=>cmp=Equal are checked pairwise. Carriers: the shapes are static Rust types chosen by the harness (a Chain deeper than two levels, SmallVec / heapless octets are not among them); Chain implements neither ==, Hash nor CanonicalOrd, so record data over a Chain is compared through the per-type impls and records with a chained owner have no ==; the names inside the data of a record go through six of the shapes.",
    "technique": "TLA+ operators (Order.tla) + TLC laws over an enumerated space; spec->impl case replay; impl->spec trace validation",
    "design_ref": "DESIGN.md §4 C04",
}


def run(ctx):
    thorough = ctx.tier == "thorough"
    suffix = "_thorough" if thorough else ""
    ctx.build("replay_order", "record_order")
    # 1 + 2. laws of the operators and S->I generation in one exploration
    cases = os.path.join(ctx.work, "cases.ndjson")
    mc = ctx.tlc("MC_Order", "MC_Order" + suffix, workers=8, label="mc+gen", cases_to=cases,
                 timeout=3000)
    ctx.require_ok(mc, "MC_Order")
    ctx.require_actions(mc, ACTIONS)
    ctx.exhaustive_flags.append(False)
    if mc.ncases < 50000:
        raise vlib.ToolError("generator produced too few cases (%d)" % mc.ncases)
    layout = mc.tagged.get("LAYOUT")
    if not layout or not isinstance(layout[0], dict):
        raise vlib.ToolError("MC_Order did not print the layout table")
    layout_path = os.path.join(ctx.work, "layout.json")
    json.dump(layout[0], open(layout_path, "w"))
    devrun = ctx.tlc("MC_Order", "MC_Order_dev", workers=4, label="mc-dev", coverage=False,
                     count=False, expect_violation="LawRecordHash")
    ctx.require_ok(devrun, "MC_Order_dev (expected counterexample for D_record_hash_ttl)")
    # vacuity guard for the carrier laws: a model in which a chain composes its
    # right part as is in the canonical form (resp. an absolute uncertain name
    # still counts its origin) must break them
    # ... and one in which Record::canonical_cmp leaves the type step to its
    # record data must break LawRecRep (a data type outside the library need
    # not order by type)
    muts = [("MC_Order_mut", "LawCarrier"), ("MC_Order_mut4", "LawRecRep")]
    if thorough:
        muts += [("MC_Order_mut2", "LawCarriedRec"), ("MC_Order_mut3", "LawCarrier")]
    for cfg, inv in muts:
        m = ctx.tlc("MC_Order", cfg, workers=2, label=cfg, coverage=False, count=False,
                    expect_violation=inv)
        ctx.selftest("model mutant %s violates %s" % (cfg, inv), m.ok)
        if not m.ok:
            raise vlib.ToolError("%s: the mutant does not violate %s" % (cfg, inv))
    # every kind of case was generated
    kinds = {}
    with open(cases) as f:
        for line in f:
            i = line.find('"kind":"')
            k = line[i + 8:line.find('"', i + 8)] if i >= 0 else "?"
            kinds[k] = kinds.get(k, 0) + 1
    ctx.stage("case-kinds", kinds)
    for k in ("label", "name", "charstr", "rdata", "record", "xrecord", "carrier", "rcarrier", "cpair", "crdata", "crecord"):
        if kinds.get(k, 0) < 300:
            raise vlib.ToolError("generator produced too few %s cases (%d)" % (k, kinds.get(k, 0)))
    head = os.path.join(ctx.work, "head.ndjson")
    with open(cases) as f, open(head, "w") as g:
        for i, line in enumerate(f):
            if i >= 50:
                break
            g.write(line)
    rc, out, err, _ = ctx.run_bin("replay_order", ["--selftest-perturb"], stdin_path=head)
    ctx.selftest("perturbed expectation is reported by replay_order", "FAIL " in out)
    ctx.replay_cases("replay_order", cases, label="order")
    # 3. I->S
    n_traces = 4 if thorough else 2
    n_events = 8400 if thorough else 4200      # 2/7 of them go through carriers
    devline = json.dumps({"ev": "devs", "open": sorted(ctx.open_devs)})
    for i in range(n_traces):
        raw = os.path.join(ctx.work, "raw-%d.ndjson" % i)
        rc, out, err, _ = ctx.run_bin("record_order", [raw, str(ctx.seed * 100 + i),
                                                        str(n_events), layout_path])
        if rc != 0:
            raise vlib.ToolError("record_order failed: " + err[-800:])
        lines = open(raw).read().splitlines()
        tr = os.path.join(ctx.work, "trace-%d.ndjson" % i)
        open(tr, "w").write("\n".join([devline] + lines) + "\n")
        ok, res, rej = ctx.validate_trace("Trace_Order", "Trace_Order", tr, label="trace-%d" % i,
                                          timeout=1500)
        ctx.traces += 1
        ctx.evaluations += len(lines)
        if not ok:
            ctx.violation("recorded comparisons are not what Order.tla gives", rej)
        if i == 0:
            bad = os.path.join(ctx.work, "trace-bad.ndjson")
            done = False
            for j, l in enumerate(lines):
                e = json.loads(l)
                if e.get("ev") == "name" and e.get("cmp") in (-1, 1) and j > 20:
                    e["cmp"] = -e["cmp"]
                    lines[j] = json.dumps(e)
                    done = True
                    break
            open(bad, "w").write("\n".join([devline] + lines) + "\n")
            ok2, _, _ = ctx.validate_trace("Trace_Order", "Trace_Order", bad, label="trace-selftest")
            ctx.selftest("corrupted trace is rejected by Trace_Order", done and not ok2)
            evs = {}
            for l in lines:
                k = json.loads(l).get("ev")
                evs[k] = evs.get(k, 0) + 1
            for k in ("carrier", "rcarrier", "cpair", "crdata", "crecord", "xrecord"):
                if evs.get(k, 0) < (50 if k != "xrecord" else 25):
                    raise vlib.ToolError("recorder produced too few %s events (%d)" % (k, evs.get(k, 0)))
    ctx.assume("orders the property does not pin (Ord of char strings / record data / records) are only checked for coherence with ==")
    ctx.assume("hash equality is checked under std's DefaultHasher with fixed keys")


def replay(ctx, case):
    """bin/check C04 --replay <file>: re-executes one failing case (S->I) or
    one rejected recorded event (I->S) against the current tree."""
    c = case.get("case", case)
    if "in" in c:
        ctx.build("replay_order")
        path = os.path.join(ctx.work, "replay.ndjson")
        vlib.write_ndjson(path, [{"in": c["in"], "exp": c["exp"], "dev": c.get("dev", {})}])
        ctx.replay_cases("replay_order", path, label="replay")
    elif "event" in c:
        path = os.path.join(ctx.work, "replay-trace.ndjson")
        vlib.write_ndjson(path, [{"ev": "devs", "open": sorted(ctx.open_devs)}, c["event"]])
        ok, res, rej = ctx.validate_trace("Trace_Order", "Trace_Order", path, label="replay-trace")
        if not ok:
            ctx.violation("recorded event is not what the specification gives", rej)
    else:
        raise vlib.ToolError("unrecognised replay file")
