"""X01 — DNSSEC key-set roll-over state machine (spec/KeySet.tla, spec/KeySetEnv.tla).

Extension check (not listed in MANIFEST.json).  Properties, stated by this
check from RFC 6781 s.4.1 / RFC 7583 s.3 and the module documentation:

 X01.1 Validatable   the zone validates at every step of every roll for every
                     admissible resolver cache state (operator follows the
                     returned Actions and reports truthfully);
 X01.2 Ordered       roll steps only in order; a refused call is an error and
                     changes nothing (no panic);
 X01.3 Exclusive     at most one roll per conflict class;
 X01.4 Completion    every started roll completes under fairness; Action lists
                     name every changed RRset; with no roll in progress every
                     old key is stale and a non-old signer remains per role.
"""
import json
import os
import vlib

REPLAY_BIN = "replay_keyset"
DEVS = ["D_ksk_stale_filter", "D_double_ds_visible", "D_expect_panic"]
ROLLS = ["KskRoll", "KskDoubleDsRoll", "ZskRoll", "ZskDoubleSignatureRoll", "CskRoll",
         "AlgorithmRoll"]
STEPS = ["start_roll", "propagation1_complete", "cache_expired1", "propagation2_complete",
         "cache_expired2", "roll_done"]

META = {
    "category": "model_checking",
    "text": ("Extension X01 (key-set roll-over, keyset.rs): KeySet.tla transcribes every public call of "
             "KeySet (six roll types, five roll states, key flags, TTL waits as ages) as a transition function; "
             "TLC proves on it, exhaustively over 1-2 keys per role (quick 27k, thorough 760k states), that roll "
             "steps are ordered, refused calls change nothing and conflicting rolls exclude each other "
             "(X01.2/3); KeySetEnv.tla adds an honest operator and the resolvers' caches (superseded "
             "DNSKEY/DS/RRSIG versions with TTL lifetimes) and TLC proves that every combination of "
             "cached/current RRset versions has a DS->DNSKEY->RRSIG chain at every step of every accepted "
             "roll, that Action lists name every changed RRset, that old keys end up deletable, and that every "
             "started roll completes under fairness (X01.1/4; quick 50k, thorough 950k states).  Bound to the "
             "code: every explored transition (state, call) -- 221k quick -- is injected into a real KeySet "
             "(serde) under an interposed wall clock and result, returned actions and complete post-state are "
             "compared; 30k (thorough 300k) simulated transitions over 12 keys and all calls are also followed "
             "on one API-only object; recorded random runs are validated by Trace_KeySet.tla."),
    "note": ("Trusted: TLC, the transcription of keyset.rs in KeySet.tla, the cache model of KeySetEnv.tla "
             "(operator reports propagation of the current RRset version; one TTL per RRset kind; ticks), the "
             "clock_gettime interposition, serde (de)serialization of KeySet for injection/projection. "
             "The ideal model (no deviations) satisfies the properties; the code deviates in three named ways "
             "(open known findings) and TLC shows which property each one breaks. The operator is assumed to "
             "use only AlgorithmRoll while the zone has no DS; set_* calls are outside the cache model."),
    "technique": ("TLA+ spec (KeySet.tla, KeySetEnv.tla) + TLC exhaustive incl. liveness; per-transition "
                  "spec->impl replay with state injection + API-only behaviour following; impl->spec trace "
                  "validation"),
    "design_ref": "DESIGN.md §8 (Dnssec: key-set state machine)",
}

# quick: each conflict class on two keys of its role + all six roll types
# against each other (no-op rolls on one KSK + one ZSK)
API_QUICK = ["MC_KeySet_conflicts", "MC_KeySet_kk", "MC_KeySet_zz", "MC_KeySet_cc"]
API_THOROUGH = ["MC_KeySet_kk_thorough", "MC_KeySet_zz_thorough", "MC_KeySet_cc_thorough",
                "MC_KeySet_kkz_thorough", "MC_KeySet_kzz_thorough", "MC_KeySet_kzc_thorough",
                "MC_KeySet_kz9_thorough", "MC_KeySet_set", "MC_KeySet_set_thorough"]
ENV_QUICK = ["MC_KeySetEnv_kkz", "MC_KeySetEnv_kzz", "MC_KeySetEnv_cc", "MC_KeySetEnv_kzc"]
ENV_THOROUGH = ["MC_KeySetEnv_imported", "MC_KeySetEnv_kkzz_thorough", "MC_KeySetEnv_kzcc_thorough",
                "MC_KeySetEnv_ttl2_thorough", "MC_KeySetEnv_kzcs_thorough"]
LIVE_QUICK = ["MC_KeySetEnv_live"]
LIVE_THOROUGH = ["MC_KeySetEnv_live2"]
# the specification with a deviation switched on violates the named property
DEV_DEMOS = [
    ("MC_KeySet", "MC_KeySet_dev", "NoPanic"),
    ("MC_KeySetEnv", "MC_KeySetEnv_dev_panic", "NoPanic"),
    ("MC_KeySetEnv", "MC_KeySetEnv_dev_ds", "Validatable"),
    ("MC_KeySetEnv", "MC_KeySetEnv_live_dev", "TemporalProperty"),
    # not a deviation of the code from the model but a limit of the claim:
    # without operator discipline (KskRoll / CskRoll on an unsigned zone)
    ("MC_KeySetEnv", "MC_KeySetEnv_unsigned", "Validatable"),
]
GEN_QUICK = ["Gen_KeySet_kk", "Gen_KeySet_zz", "Gen_KeySet_cc", "Gen_KeySet_set"]
GEN_THOROUGH = ["Gen_KeySet_zz_thorough", "Gen_KeySet_cc_thorough"]


def _tlc(ctx, module, cfg, **kw):
    """ctx.tlc, retried single-threaded when TLC's evaluator trips over its
    own (not thread-safe) record normalisation."""
    res = ctx.tlc(module, cfg, **kw)
    if not res.ok and kw.get("expect_violation") is None and res.violated is None \
            and "TLC threw an unexpected exception" in open(res.log).read():
        kw["workers"] = 1
        kw["label"] = (kw.get("label") or cfg) + "-retry"
        res = ctx.tlc(module, cfg, **kw)
    return res


def _cover(res):
    return {(c["op"], c["rt"], c["res"]) for c in res.tagged.get("COVER", []) if isinstance(c, dict)}


def _dev_env(ctx):
    return {d: ("1" if d in ctx.open_devs else "0") for d in DEVS}


def explain(ctx, dev):
    """Print TLC's counterexample for one deviation."""
    for mod, cfg, inv in DEV_DEMOS:
        txt = open(os.path.join(vlib.SPEC, cfg + ".cfg")).read()
        if dev in txt or dev == cfg:
            res = ctx.tlc(mod, cfg, workers=4, label="explain", coverage=False, expect_violation=inv)
            print(open(res.log).read()[-12000:])


def run(ctx):
    thorough = ctx.tier == "thorough"
    ctx.build("replay_keyset", "record_keyset")

    # developer aid for mutation trials: only the code-dependent stages; such
    # a run never yields a "held" verdict
    binding_only = bool(os.environ.get("VERIF_X01_BINDING_ONLY"))
    if not binding_only:
        _model_checking(ctx, thorough)
    _binding(ctx, thorough)
    if binding_only and not ctx.violations:
        raise vlib.ToolError("binding-only run (VERIF_X01_BINDING_ONLY): no violation, no verdict")


def _model_checking(ctx, thorough):
    # 1. the state machine itself: ordered / refused / exclusive (X01.2, X01.3)
    cov = set()
    for cfg in API_QUICK + (API_THOROUGH if thorough else []):
        mc = _tlc(ctx, "MC_KeySet", cfg, workers=8, coverage=False, label=cfg)
        ctx.require_ok(mc, cfg)
        cov |= _cover(mc)
    need = {(s, rt, "ok") for s in STEPS for rt in ROLLS}
    need |= {("add", "", "ok"), ("delete_key", "", "ok"), ("delete_key", "", "KeyNotOld"),
             ("add", "", "DuplicateKeyTag"), ("tick", "", "ok")}
    if thorough:
        need |= {("set_" + n, "", "ok") for n in ("present", "signer", "at_parent", "stale", "decoupled",
                                                   "visible", "ds_visible", "rrsig_visible")}
    for e in ("WrongKeyState", "NoSuitableKeyPresent", "AlgorithmSetsMismatch",
              "WrongStateForRollOperation", "ConflictingRollInProgress"):
        if not any(c[0] == "start_roll" and c[2] == e for c in cov):
            raise vlib.ToolError("vacuity: start_roll never refused with %s" % e)
    if not any(c[2] == "Wait" for c in cov):
        raise vlib.ToolError("vacuity: no call ever refused with Wait")
    missing = sorted(need - cov)
    if missing:
        raise vlib.ToolError("vacuity: never taken: %s" % missing[:8])
    for (op, rt, r) in sorted(need):
        ctx.coverage_actions["%s%s:%s" % (op, ("/" + rt) if rt else "", r)] = (1, 1)

    # 2. honest operator + resolver caches: validatable, in sync, completion (X01.1, X01.4)
    ecov = set()
    for cfg in ENV_QUICK + (ENV_THOROUGH if thorough else []):
        mc = _tlc(ctx, "MC_KeySetEnv", cfg, workers=8, coverage=False, label=cfg)
        ctx.require_ok(mc, cfg)
        ecov |= _cover(mc)
    emiss = sorted({(s, rt, "ok") for s in STEPS for rt in ROLLS} - ecov)
    if emiss:
        raise vlib.ToolError("vacuity (operator model): never taken: %s" % emiss[:8])
    if not any(c[2] == "Wait" for c in ecov):
        raise vlib.ToolError("vacuity (operator model): cache_expired never had to wait")
    for cfg in LIVE_QUICK + (LIVE_THOROUGH if thorough else []):
        lv = _tlc(ctx, "MC_KeySetEnv", cfg, workers=8, coverage=False, label=cfg)
        ctx.require_ok(lv, cfg)
    ctx.exhaustive_flags.append(True)
    # the deviations of the code, on the model: which property each one breaks
    for mod, cfg, inv in DEV_DEMOS:
        dv = ctx.tlc(mod, cfg, workers=4, coverage=False, label=cfg, expect_violation=inv, count=False)
        if inv == "TemporalProperty":
            # this TLC prints "Temporal property Completes was violated"
            dv.ok = "Temporal property Completes was violated" in open(dv.log).read()
        if not dv.ok:
            raise vlib.ToolError("%s: expected %s to be violated (got %s)" % (cfg, inv, dv.violated))



def _binding(ctx, thorough):
    # 3. S->I: every explored transition injected into a real KeySet
    devs = ",".join(sorted(ctx.open_devs))
    first = True
    for cfg in GEN_QUICK + (GEN_THOROUGH if thorough else []):
        cases = os.path.join(ctx.work, cfg + ".ndjson")
        gen = ctx.tlc("MC_KeySet", cfg, workers=1, coverage=False, label=cfg, cases_to=cases, count=False,
                      env=_dev_env(ctx))
        ctx.require_ok(gen, cfg)
        if gen.ncases < 10000:
            raise vlib.ToolError("%s produced too few cases (%d)" % (cfg, gen.ncases))
        if first:
            first = False
            head = os.path.join(ctx.work, "head.ndjson")
            with open(cases) as f, open(head, "w") as g:
                for i, line in enumerate(f):
                    if i >= 50:
                        break
                    g.write(line)
            rc, out, err, _ = ctx.run_bin("replay_keyset", ["--selftest-perturb"], stdin_path=head)
            ctx.selftest("perturbed expectation is reported by replay_keyset", "FAIL " in out)
            # a wrong expected post-state must be reported too
            bad = os.path.join(ctx.work, "bad.ndjson")
            n_bad = 0
            with open(cases) as f, open(bad, "w") as g:
                for line in f:
                    o = json.loads(line)
                    a = o["in"]["alts"]
                    if len(a) == 1 and a[0]["res"] == "ok" and o["in"]["op"]["op"] == "cache_expired1" \
                            and not o["in"]["devalts"]:
                        k = sorted(a[0]["post"]["keys"])[0]
                        a[0]["post"]["keys"][k]["a"]["at_parent"] ^= True
                        g.write(json.dumps(o) + "\n")
                        n_bad += 1
                        if n_bad >= 5:
                            break
            rc, out, err, _ = ctx.run_bin("replay_keyset", ["--open-devs", devs], stdin_path=bad)
            ctx.selftest("a flipped at_parent bit in the expected post-state is reported",
                         n_bad > 0 and out.count("FAIL ") == n_bad)
        ctx.replay_cases("replay_keyset", cases, label=cfg)
        os.remove(cases)
    # simulated long behaviours over 12 keys / all calls, followed on one API-only object
    cases = os.path.join(ctx.work, "sim.ndjson")
    sim = ctx.tlc("MC_KeySet", "Gen_KeySet_sim", workers=1, coverage=False, label="gen-sim",
                  simulate=(1500 if thorough else 150), depth=200, cases_to=cases, count=False,
                  env=_dev_env(ctx))
    ctx.require_ok(sim, "Gen_KeySet_sim")
    stats = os.path.join(ctx.work, "sim-stats.json")
    ctx.replay_cases("replay_keyset", cases, args=["--stats", stats], label="gen-sim")
    ch = json.load(open(stats))
    if ch["chained"] < 0.99 * sim.ncases and not ctx.violations:
        # every injected transition conformed, but an object driven only
        # through the public API left the specification's behaviour: state
        # that the projection does not show
        ctx.violation("the API-only KeySet did not follow the simulated behaviours although every "
                      "injected transition conformed (hidden state?)", ch)
    ctx.stage("follow", {"transitions_followed_on_api_only_object": ch["chained"]})
    os.remove(cases)

    # 4. I->S: recorded random runs validated by Trace_KeySet.tla
    runs = [("rolls", 0), ("all", 1)] + ([("rolls", 2), ("all", 3), ("rolls", 4), ("all", 5)] if thorough else [])
    for i, (mode, k) in enumerate(runs):
        tr = os.path.join(ctx.work, "trace-%d.ndjson" % i)
        rc, out, err, _ = ctx.run_bin("record_keyset", [tr, str(ctx.seed * 100 + k),
                                                         "4000" if thorough else "1500", mode])
        if rc != 0:
            raise vlib.ToolError("record_keyset failed: " + (out + err)[-500:])
        ok, res, rej = ctx.validate_trace("Trace_KeySet", "Trace_KeySet", tr, label="trace-%d" % i,
                                          env=_dev_env(ctx))
        ctx.traces += 1
        if not ok:
            ctx.violation("recorded KeySet run is not a behaviour of KeySet.tla", rej)
        if i == 0:
            # corrupt one recorded state bit: TLC must reject
            bad = os.path.join(ctx.work, "trace-bad.ndjson")
            lines = open(tr).read().splitlines()
            done = False
            for j in range(len(lines) // 2, len(lines)):
                o = json.loads(lines[j])
                if o["res"] == "ok" and o["op"]["op"] in ("cache_expired1", "cache_expired2") and o["post"]["keys"]:
                    k0 = sorted(o["post"]["keys"])[0]
                    o["post"]["keys"][k0]["a"]["signer"] ^= True
                    lines[j] = json.dumps(o)
                    done = True
                    break
            open(bad, "w").write("\n".join(lines) + "\n")
            ok2, _, _ = ctx.validate_trace("Trace_KeySet", "Trace_KeySet", bad, label="trace-selftest",
                                           env=_dev_env(ctx))
            ctx.selftest("corrupted trace is rejected by Trace_KeySet", done and not ok2)

    ctx.assume("time is abstracted to ticks of 1000 s; TTLs and ages 0..MaxTTL (1 or 2 in model checking, 3 in traces)")
    ctx.assume("cache model: one TTL per RRset kind; a superseded version lives until propagation is reported plus its TTL; "
               "the operator reports propagation only when the current version of the reported RRset has propagated")
    ctx.assume("the operator only uses AlgorithmRoll while no DS is published (KskRoll/CskRoll on an unsigned zone "
               "are accepted by KeySet and publish the DS before or together with the first signatures)")
    ctx.assume("X01.1/X01.4 quantify over add_key/start_roll(any accepted lists)/step calls/delete_key; set_* calls are "
               "covered by conformance only")
    ctx.assume("validation is modelled without algorithm-completeness (RFC 6781 4.1.4 liberal approach)")
