"""X06 — message header / EDNS header algebra and response scaffolding
(spec/HeaderAlg.tla)."""
import json
import os

import vlib

REPLAY_BIN = "replay_headeralg"

PLAIN_ACTIONS = ["A_HeaderSet", "A_CountSet", "A_CountStep", "A_OptHeaderSet"]
BUILDER_ACTIONS = ["A_HeaderSet", "A_Goto", "A_Push", "A_Opt", "A_Start", "A_Axfr"]
MACHINE_DEVS = ["D_set_opcode_spill", "D_opt_fail_keeps_rcode"]

META = {
    "category": "model_checking",
    "text": "HeaderAlg.tla writes the layout of the twelve header octets (RFC 1035 4.1.1, AD/CD of RFC 4035, UPDATE names of RFC 2136), of the OPT record's fixed part (RFC 6891 6.1.2/6.1.3) and of the 12-bit extended RCODE down twice (RFC bit numbers in the 16-bit word; octet/bit positions) and TLC decides, for all 65536 flag words, all 4096 extended codes and OPT header samples, that the two agree and that the fields form a product (get/put, put/get, put/put, independence, commutation, partition of the 96 bits). A machine over (12 header octets, OPT headers, builder stage) with one action per public setter / inc / dec / UPDATE alias / OptHeader setter / builder call (stage conversions, push, AdditionalBuilder::opt with an OptBuilder closure, start_answer, start_error, request_axfr) is explored to a bounded depth with the properties as action properties: setters write only their own bits and read back, counts never wrap (error / documented panic, state unchanged), OptBuilder::set_rcode writes both halves, a failed push or opt is a no-op, the scaffolds set exactly ID QR OPCODE RD RCODE and QDCOUNT. S->I: TLC emits, per initial flag word (every flag-bit combination x 4 opcodes x 4 rcodes quick, all 65536 thorough), every single-field operation with every argument, all two-step behaviours on both carriers and simulated long ones with the specification's 12+9 octets, result and 26 getter values after EVERY step; a Rust executor performs them on owned HeaderSection/OptHeader values, on for_message_slice_mut / for_record_slice_mut views (compared with each other) and on a MessageBuilder<StreamTarget<Vec<u8>>> through every stage, reading back through as_message(); plus function cases for OptRcode/Rcode (all 4096 codes and out-of-range values), Flags Display/FromStr (all 128), Message::copy_records and display_dig_style. I->S: recorded random runs (thousands of calls, full argument ranges, also through Message::header_mut / remove_last_additional and an independent Message over the built octets) are validated by Trace_HeaderAlg.",
    "note": "Properties stated by the builder (extension, not in properties.jsonl). Trusted: TLC, the transcription of the RFC diagrams in HeaderAlg.tla, the harness executor and its dig-text reader. Not covered: CountOverflow through 65535 real pushes, set_random_id's randomness (the drawn ID is only recorded), clone_from and option pushes of OptBuilder (C02/C19 cover OPT rdata), dig output of the record lines themselves (C06) and of malformed messages, the rcode start_error reports when a question does not fit (undocumented SERVFAIL override; exercised only with SERVFAIL). For unassigned opcode / rcode values the expected text is the decimal number, as the types' Display documents.",
    "technique": "TLA+ spec (HeaderAlg.tla) + TLC exhaustive (laws, bounded machine); spec->impl behaviour replay with the projection compared after every step; impl->spec trace validation",
    "design_ref": "DESIGN.md §8 (Wire/Rdata: header flag algebra; MsgBuilder: OptBuilder, start_answer/start_error, request_axfr; dig_printer; copy_records)",
}


def explain(ctx, dev):
    cfg = {"D_set_opcode_spill": "MC_HeaderAlg_dev_spill",
           "D_opt_fail_keeps_rcode": "MC_HeaderAlg_dev_optfail"}.get(dev)
    if not cfg:
        print("%s is a deviation of a function (see the generated cases with key dev.%s); "
              "no machine counterexample" % (dev, dev))
        return
    res = ctx.tlc("MC_HeaderAlg", cfg, workers=4, label="explain", coverage=False)
    print(open(res.log).read()[-3500:])


def _head(src, dst, n):
    with open(src) as f, open(dst, "w") as g:
        for i, line in enumerate(f):
            if i >= n:
                break
            g.write(line)


def _gen_and_replay(ctx, cfg, label, minimum, **kw):
    cases = os.path.join(ctx.work, "cases-%s.ndjson" % label)
    gen = ctx.tlc("MC_HeaderAlgGen", "MC_HeaderAlgGen_" + cfg, workers=8, label="gen-" + label,
                  coverage=False, cases_to=cases, count=False, **kw)
    ctx.require_ok(gen, "MC_HeaderAlgGen " + cfg)
    if gen.ncases < minimum:
        raise vlib.ToolError("generator %s produced too few cases (%d)" % (cfg, gen.ncases))
    s = ctx.replay_cases("replay_headeralg", cases, label=label)
    os.remove(cases)
    return gen.ncases, s


def run(ctx):
    thorough = ctx.tier == "thorough"
    ctx.build("replay_headeralg", "record_headeralg")

    # 1. the algebraic laws of the layouts, on the specification
    # (without -coverage, which triples the time of these expression-heavy
    # invariants; vacuity is excluded by the state count instead: every word,
    # every extended code and every OPT sample is a state)
    laws = ctx.tlc("MC_HeaderAlgLaws", "MC_HeaderAlgLaws", workers=8, label="mc-laws", coverage=False)
    ctx.require_ok(laws, "MC_HeaderAlgLaws")
    if laws.distinct != 65536 + 4096 + 5:
        raise vlib.ToolError("vacuity: the laws were checked on %d states, expected %d"
                             % (laws.distinct, 65536 + 4096 + 5))
    ctx.exhaustive_flags.append(True)

    # 2. the machine, bounded depth, both carriers
    mp = ctx.tlc("MC_HeaderAlg", "MC_HeaderAlg_thorough" if thorough else "MC_HeaderAlg",
                 workers=8, label="mc-plain", timeout=3000)
    ctx.require_ok(mp, "MC_HeaderAlg (plain carrier)")
    ctx.require_actions(mp, PLAIN_ACTIONS)
    mb = ctx.tlc("MC_HeaderAlg", "MC_HeaderAlg_builder_thorough" if thorough else "MC_HeaderAlg_builder",
                 workers=8, label="mc-builder", timeout=3000)
    ctx.require_ok(mb, "MC_HeaderAlg (builder carrier)")
    ctx.require_actions(mb, BUILDER_ACTIONS)
    ctx.exhaustive_flags.append(True)
    # the named deviations break exactly the property they are filed under
    d1 = ctx.tlc("MC_HeaderAlg", "MC_HeaderAlg_dev_spill", workers=4, label="mc-dev-spill",
                 coverage=False, count=False, expect_violation="Frame")
    ctx.require_ok(d1, "Frame must fail under D_set_opcode_spill")
    d2 = ctx.tlc("MC_HeaderAlg", "MC_HeaderAlg_dev_optfail", workers=4, label="mc-dev-optfail",
                 coverage=False, count=False, expect_violation="FailedCallNoop")
    ctx.require_ok(d2, "FailedCallNoop must fail under D_opt_fail_keeps_rcode")

    # 3. S->I
    total = 0
    # binding self-test on the first family
    cases = os.path.join(ctx.work, "cases-rcode.ndjson")
    gen = ctx.tlc("MC_HeaderAlgGen", "MC_HeaderAlgGen_rcode", workers=4, label="gen-rcode",
                  coverage=False, cases_to=cases, count=False)
    ctx.require_ok(gen, "MC_HeaderAlgGen rcode")
    if gen.ncases < 4100:
        raise vlib.ToolError("rcode generator produced too few cases")
    head = os.path.join(ctx.work, "head.ndjson")
    _head(cases, head, 20)
    rc, out, err, _ = ctx.run_bin("replay_headeralg", ["--selftest-perturb"], stdin_path=head)
    ctx.selftest("perturbed expectation is reported by replay_headeralg", "FAIL " in out)
    ctx.replay_cases("replay_headeralg", cases, label="rcode")
    total += gen.ncases
    for cfg, minimum in (("flags", 128), ("flagparse", 10), ("copy", 400), ("dig", 3000)):
        n, _ = _gen_and_replay(ctx, cfg, cfg, minimum)
        total += n
    n, _ = _gen_and_replay(ctx, "indep_thorough" if thorough else "indep", "indep",
                           65536 if thorough else 4096, timeout=3000, xmx="8g")
    total += n
    n, _ = _gen_and_replay(ctx, "beh_plain", "beh-plain", 30000)
    total += n
    n, _ = _gen_and_replay(ctx, "beh_builder_thorough" if thorough else "beh_builder", "beh-builder",
                           7000, timeout=3000)
    total += n
    n, _ = _gen_and_replay(ctx, "sim_plain", "sim-plain", 500,
                           simulate=(12 if thorough else 2), depth=31)
    total += n
    n, _ = _gen_and_replay(ctx, "sim_builder", "sim-builder", 500,
                           simulate=(30 if thorough else 5), depth=15)
    total += n
    ctx.stage("cases", {"total": total})

    # 4. I->S: recorded random runs validated by TLC
    devs = sorted(d for d in MACHINE_DEVS if d in ctx.open_devs)
    cfg_path = os.path.join(ctx.work, "Trace_HeaderAlg_run.cfg")
    cfg = open(os.path.join(vlib.SPEC, "Trace_HeaderAlg.cfg")).read()
    cfg = cfg.replace("Dev = {}", "Dev = {%s}" % ", ".join('"%s"' % d for d in devs))
    open(cfg_path, "w").write(cfg)
    cfg_rel = os.path.relpath(cfg_path, vlib.SPEC)[:-4]
    n_traces = 6 if thorough else 2
    n_events = 6000 if thorough else 3000
    for i in range(n_traces):
        tr = os.path.join(ctx.work, "trace-%d.ndjson" % i)
        rc, out, err, _ = ctx.run_bin("record_headeralg", [tr, str(ctx.seed * 100 + i), str(n_events)])
        if rc != 0:
            raise vlib.ToolError("record_headeralg failed: " + err[-500:])
        ok, res, rej = ctx.validate_trace("Trace_HeaderAlg", cfg_rel, tr, label="trace-%d" % i)
        ctx.traces += 1
        if not ok:
            ctx.violation("recorded header / builder run is not a behaviour of HeaderAlg.tla", rej)
        for rep in res.tagged.get("TRACE_DEVS", []):
            for d in rep.get("devs", []):
                ctx.known(d, {"trace": "trace-%d" % i, "seed": ctx.seed * 100 + i})
        if i == 0:
            # binding self-test: one flipped header bit in one recorded state
            bad = os.path.join(ctx.work, "trace-bad.ndjson")
            lines = open(tr).read().splitlines()
            for j in range(len(lines) // 2, len(lines)):
                o = json.loads(lines[j])
                if o["ev"] not in ("reset", "message"):
                    o["h"][3] ^= 1
                    lines[j] = json.dumps(o)
                    break
            open(bad, "w").write("\n".join(lines) + "\n")
            ok2, _, _ = ctx.validate_trace("Trace_HeaderAlg", cfg_rel, bad, label="trace-selftest")
            ctx.selftest("corrupted trace is rejected by Trace_HeaderAlg", not ok2)

    ctx.assume("header layout transcribed from RFC 1035 4.1.1 (AD, CD: RFC 4035), OPT fixed part from RFC 6891 6.1.2/6.1.3, UPDATE count names from RFC 2136 2.2")
    ctx.assume("out-of-range opcode values (Opcode wraps any u8): the ideal setter masks to four bits; a panic would be accepted as well")
    ctx.assume("request_axfr: the random ID is recorded, not predicted")
    ctx.assume("start_error with a question that does not fit is exercised only with rcode SERVFAIL (the override is undocumented)")
    ctx.assume("dig output: values are read back from the two header lines and the EDNS line; section sizes are counted in lines")
