"""X10 — the new API's names, labels and wire primitives (spec/NewNames.tla, spec/NewLabelBuf.tla)."""
import json
import os
import vlib

ACTIONS_LBUF = ["A_New", "A_Append", "A_Push", "A_Truncate", "A_Lower", "A_Copy", "A_ParseStr"]

META = {
    "category": "model_checking",
    "text": "The forward (Name/NameBuf) and reversed (RevName/RevNameBuf) representations, Label/LabelBuf, CharStr, the uncompressed and compressed name parsers, the text form and the size-prefixed / integer wire primitives of domain::new::base are specified in NewNames.tla as refinements of the abstract names of Names.tla. TLC checks over an enumerated space (241 names incl. case pairs, 0x00, 0x01, '*', 0xFF, labels that contain what looks like a label boundary, 63-octet labels and 254/255-octet names; all octet strings up to length 4/5 over 8 boundary octets; all message bodies up to length 4/5 over labels, roots and pointers to every offset incl. the header, plus directed pointer chains and names completed to 253..256 octets through pointers; all texts up to length 4/5 over 10/11 characters; the LabelBuf machine over all 64 lengths) that the transcribed parsers equal declarative oracles (FromWire; unbounded decompression + ValidAbs; tokenise-then-group), that == / hash / Ord through either representation are NameEq / CanonNameCmp (transitive on triples), and the parse/build round-trip laws of SizePrefixed, U16/U32, CharStr. Every enumerated point is replayed on the real types through every route (NameBuf, &Name, Box<Name>, copy_from, Clone, RevNameBuf by parse / to_revname / From, message parser compressed and not, Display -> parse_str, zero-copy and owning parsers, build into exact / short / long buffers); recorded random runs (names up to 255 octets, random compression layouts, texts, LabelBuf programs) are validated by TLC.",
    "note": "Trusted: TLC, NewNames.tla / Names.tla / Order.tla / Serial.tla, the harness. Errors are compared by accept/reject only. A payload too large for its size prefix may be refused by an error or a panic (both accepted). NameCompressor (C19), serde impls, split_str of NameBuf/LabelBuf as an API of its own, U64 and the integer operator overloads are not bound. Hash coherence is checked under std's DefaultHasher.",
    "technique": "TLA+ spec (NewNames.tla, NewLabelBuf.tla) + TLC laws over an enumerated space and an exhaustive machine; spec->impl case replay; impl->spec trace validation",
    "design_ref": "DESIGN.md §8 (extension X10)",
}

DEVS = ["D_fwd_cmp_byte_suffix", "D_sizeprefixed_parse_keeps_prefix", "D_msg_start_oob_panic",
        "D_unparsed_ptr_offset"]


def _head(src, dst, n=60):
    with open(src) as f, open(dst, "w") as g:
        for i, line in enumerate(f):
            if i >= n:
                break
            g.write(line)


def run(ctx):
    thorough = ctx.tier == "thorough"
    suffix = "_thorough" if thorough else ""
    ctx.build("replay_newname", "record_newname")
    # 1 + 2. laws of the operators and S->I generation in one exploration
    cases = os.path.join(ctx.work, "cases.ndjson")
    mc = ctx.tlc("MC_NewNames", "MC_NewNames" + suffix, workers=8, label="mc+gen", cases_to=cases,
                 timeout=3000)
    ctx.require_ok(mc, "MC_NewNames")
    ctx.require_actions(mc, ["Init"])
    if mc.ncases < 50000:
        raise vlib.ToolError("generator produced too few cases (%d)" % mc.ncases)
    ctx.exhaustive_flags.append(False)
    # the deviation as a counterexample of the specification's laws: with
    # today's Name::cmp the forward and the reversed order disagree, and the
    # transcribed order is not transitive
    d1 = ctx.tlc("MC_NewNames", "MC_NewNames_dev", workers=4, label="mc-dev-fwd-rev", coverage=False,
                 count=False, expect_violation="LawPairs")
    ctx.require_ok(d1, "MC_NewNames_dev (expected counterexample for D_fwd_cmp_byte_suffix)")
    d2 = ctx.tlc("MC_NewNames", "MC_NewNames_dev2", workers=4, label="mc-dev-transitive", coverage=False,
                 count=False, expect_violation="LawFwdImplTransitive")
    ctx.require_ok(d2, "MC_NewNames_dev2 (expected: transcribed Name::cmp is not transitive)")
    head = os.path.join(ctx.work, "head.ndjson")
    _head(cases, head)
    rc, out, err, _ = ctx.run_bin("replay_newname", ["--selftest-perturb"], stdin_path=head)
    ctx.selftest("perturbed expectation is reported by replay_newname", "FAIL " in out)
    ctx.replay_cases("replay_newname", cases, label="newname")
    # the LabelBuf machine: exhaustive over the 64 lengths, every transition replayed
    lraw = os.path.join(ctx.work, "lbuf-raw.ndjson")
    lb = ctx.tlc("MC_NewLabelBuf", "MC_NewLabelBuf", workers=4, label="mc+gen-labelbuf", cases_to=lraw)
    ctx.require_ok(lb, "MC_NewLabelBuf")
    ctx.require_actions(lb, ACTIONS_LBUF)
    ctx.exhaustive_flags.append(True)
    lcases = os.path.join(ctx.work, "lbuf.ndjson")
    with open(lraw) as f, open(lcases, "w") as g:
        g.writelines(sorted(set(f.readlines())))
    ctx.replay_cases("replay_newname", lcases, label="labelbuf")
    # 3. I->S
    n_traces = 5 if thorough else 2
    n_events = 3000 if thorough else 1500
    devline = json.dumps({"ev": "devs", "open": sorted(ctx.open_devs)})
    for i in range(n_traces):
        raw = os.path.join(ctx.work, "raw-%d.ndjson" % i)
        rc, out, err, _ = ctx.run_bin("record_newname", [raw, str(ctx.seed * 100 + i), str(n_events)])
        if rc != 0:
            raise vlib.ToolError("record_newname failed: " + err[-800:])
        lines = open(raw).read().splitlines()
        tr = os.path.join(ctx.work, "trace-%d.ndjson" % i)
        open(tr, "w").write("\n".join([devline] + lines) + "\n")
        ok, res, rej = ctx.validate_trace("Trace_NewNames", "Trace_NewNames", tr, label="trace-%d" % i,
                                          timeout=1500)
        ctx.traces += 1
        ctx.evaluations += len(lines)
        if not ok:
            ctx.violation("recorded observations are not what NewNames.tla / NewLabelBuf.tla give",
                          {"event": rej.get("event") if isinstance(rej, dict) else rej, "trace": rej})
        for e in map(json.loads, lines):
            # deviations witnessed in recorded runs
            if e["ev"] == "pair" and e["cmp"] != e["rcmp"]:
                ctx.known("D_fwd_cmp_byte_suffix", e)
                break
        if i == 0:
            bad = os.path.join(ctx.work, "trace-bad.ndjson")
            done = False
            for j, l in enumerate(lines):
                e = json.loads(l)
                if e.get("ev") == "pair" and e.get("rcmp") in (-1, 1) and j > 10:
                    e["rcmp"] = -e["rcmp"]
                    lines[j] = json.dumps(e)
                    done = True
                    break
            open(bad, "w").write("\n".join([devline] + lines) + "\n")
            ok2, _, _ = ctx.validate_trace("Trace_NewNames", "Trace_NewNames", bad, label="trace-selftest")
            ctx.selftest("corrupted trace is rejected by Trace_NewNames", done and not ok2)
            bad2 = os.path.join(ctx.work, "trace-bad2.ndjson")
            lines2 = open(raw).read().splitlines()
            done = False
            for j, l in enumerate(lines2):
                e = json.loads(l)
                if e.get("ev") == "lbuf" and e.get("res") == "err" and j > 10:
                    e["s"] = e["s"][:-1] if e["s"] else [1]
                    lines2[j] = json.dumps(e)
                    done = True
                    break
            open(bad2, "w").write("\n".join([devline] + lines2) + "\n")
            ok3, _, _ = ctx.validate_trace("Trace_NewNames", "Trace_NewNames", bad2, label="trace-selftest-lbuf")
            ctx.selftest("a LabelBuf changed by a refused call is rejected by Trace_NewNames", done and not ok3)
    ctx.assume("errors are compared by accept/reject, not by error value")
    ctx.assume("hash coherence (a == b => hash a = hash b) is checked under std's DefaultHasher")
    ctx.assume("a payload too large for its size prefix may be refused by an error or by a panic")
    ctx.assume("32-bit Serial values are reached through the exact embedding x*2^26 of the 6-bit model (dense 32-bit operands: C17)")


def replay(ctx, case):
    """bin/check X10 --replay <file>"""
    c = case.get("case", case)
    if "in" in c:
        ctx.build("replay_newname")
        path = os.path.join(ctx.work, "replay.ndjson")
        vlib.write_ndjson(path, [{"in": c["in"], "exp": c["exp"], "dev": c.get("dev", {})}])
        ctx.replay_cases("replay_newname", path, label="replay")
    elif "event" in c:
        path = os.path.join(ctx.work, "replay-trace.ndjson")
        vlib.write_ndjson(path, [{"ev": "devs", "open": sorted(ctx.open_devs)}, c["event"]])
        ok, res, rej = ctx.validate_trace("Trace_NewNames", "Trace_NewNames", path, label="replay-trace")
        if not ok:
            ctx.violation("recorded event is not what the specification gives", rej)
    else:
        raise vlib.ToolError("unrecognised replay file")
