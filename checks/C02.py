"""C02 — message builder: built messages parse back to what was pushed (spec/MsgBuilder.tla)."""
import json
import os

import vlib

META = {
    "category": "model_checking",
    "text": "TLC explores MsgBuilder.tla (push question/record/OPT, section conversions forward and backward, rewind, push limit, finish; the Static/Tree/Hash compressors transcribed individually; real offsets with filler records that put names on both sides of 0x3FFF, 0xBFFF and 0xFFFF) exhaustively over call sequences of bounded length on every compressor x target kind and decides ParseBack, CountsMatch, FailedPushIsNoop, PointersBackwardAndIntended, ShimMatches, TableWithinBuffer. Every explored behaviour (plus deeper random ones) is replayed call by call into the real MessageBuilder on Vec/BytesMut/Array<512>/StreamTarget inside no/Static/Tree/Hash compressor, through every public entry point of each call (11 route variants per behaviour: Record / reference / the tuple forms / push_ref / the RecordSectionBuilder trait, Question forms, conversion methods vs From impls, limit through Deref / as_builder_mut / AsMut, opt() with raw options vs clone_from, finish / into_target / into_message / Message::from), comparing result, length, counts and length prefix after every call and re-reading the final octets with an independent reader and with the library's Message; recorded random runs (<= 200 calls, 30 record types, generated names) are validated by TLC against the specification.",
    "note": "Trusted: TLC, the RFC 1035 reader in MsgBuilderWire.tla and its Rust twin in harness/src/builder.rs, the executor. The predicted lengths on compressing targets rely on the transcription of each compressor's strategy (which occurrence is remembered, case sensitivity of TreeCompressor, 24 entries of StaticCompressor); the octets themselves are only validated there, and compared exactly on targets without compressor. Push errors are compared as ok/error, not by kind; a push that reaches the limit exactly is left open. CountOverflow (65535 pushes) is not reachable below 65536 octets and not exercised. TLC -coverage is unusable on this module (cost model explodes on the nested recursive operators); action coverage is counted from the generated behaviours instead.",
    "technique": "TLA+ spec (MsgBuilder.tla, MsgBuilderWire.tla) + TLC exhaustive and simulation; spec->impl behaviour replay; impl->spec trace validation",
    "design_ref": "DESIGN.md §4 C02",
}

DEV = "D_ptr_limit_c000"
DEV_RC = "D_opt_rcode_sticks"
PUSHES = {"q": "PushQuestion", "opt": "PushOpt", "optrc": "PushOptRcode", "A": "PushRecord",
          "NS": "PushRecord", "MX": "PushRecord", "DN": "PushRecord", "TXT": "PushRecord",
          "UNK": "PushRecord"}
OTHERS = {"goto": "GotoSection", "rewind": "Rewind", "limit": "SetLimit", "clear": "SetLimit",
          "finish": "Finish", "hdr": "SetHeader", "start": "StartReply"}
LAST_PTR = 0x3FFF      # the last offset a compression pointer can express


def _split(line):
    """'{"in":X,"exp":Y}' -> (X-part as key, Y)"""
    i = line.index(',"exp":')
    return line[:i], line[i + 7:-1]


def _count_actions(ctx, path, counts):
    with open(path) as f:
        for line in f:
            o = json.loads(line)
            for call, st in zip(o["in"]["calls"], o["exp"]["steps"]):
                a = PUSHES.get(call["op"]) or OTHERS.get(call["op"])
                ok, tot, err = counts.get(a, (0, 0, 0))
                counts[a] = (ok + (st[0] != "err"), tot + 1, err + (st[0] == "err"))


def _merge_dev(base, devfile, dev, out):
    """write the behaviours of `base` to `out`; where the run of the
    specification with the deviation switched on (devfile) expects something
    else, the case carries that as dev[<name>].  Returns (written, differing)."""
    devexp = {}
    with open(devfile) as f:
        for line in f:
            k, e = _split(line.rstrip("\n"))
            devexp[k] = e
    n = n_dev = 0
    with open(base) as f:
        for line in f:
            k, e = _split(line.rstrip("\n"))
            if k not in devexp:
                continue        # a push at the limit exactly in the deviating run
            if devexp[k] != e:
                n_dev += 1
                out.write('%s,"exp":%s,"dev":{"%s":%s}}\n' % (k, e, dev, devexp[k]))
            else:
                out.write(line)
            n += 1
    return n, n_dev


def _edge_witnesses(path):
    """behaviours in which octets are cut back to exactly LAST_PTR and a push
    succeeds right after: (by a failed push, by a rewind / backward conversion)"""
    a = b = 0
    with open(path) as f:
        for line in f:
            o = json.loads(line)
            st = o["exp"]["steps"]
            calls = o["in"]["calls"]
            for i in range(2, len(st) - 1):
                if st[i][1] == LAST_PTR and st[i + 1][0] == "ok":
                    if st[i][0] == "err":
                        a += 1
                    elif calls[i]["op"] in ("rewind", "goto") and st[i - 1][1] > LAST_PTR:
                        b += 1
    return a, b


def _head(src, dst, n):
    with open(src) as f, open(dst, "w") as g:
        for i, line in enumerate(f):
            if i >= n:
                break
            g.write(line)


def run(ctx):
    _run(ctx, ctx.tier == "thorough")


def _run(ctx, thorough):
    ctx.build("replay_builder", "record_builder")
    w = ctx.work

    # ---- 1. TLC decides the property on the specification; the same runs emit
    #         every maximal behaviour as an S->I case
    sfx = "_thorough" if thorough else ""
    c_small = os.path.join(w, "cases-small.ndjson")
    c_big = os.path.join(w, "cases-big.ndjson")
    mc1 = ctx.tlc("MC_MsgBuilder", "MC_MsgBuilder_small" + sfx, workers=8, label="mc-small", coverage=False,
                  cases_to=c_small, timeout=3000)
    ctx.require_ok(mc1, "MC_MsgBuilder small")
    mc2 = ctx.tlc("MC_MsgBuilder", "MC_MsgBuilder_big" + sfx, workers=8, label="mc-big", coverage=False,
                  cases_to=c_big, timeout=3000)
    ctx.require_ok(mc2, "MC_MsgBuilder big")
    ctx.exhaustive_flags.append(True)
    # vacuity: a push fails on a compressing target and a later push compresses again
    vac = ctx.tlc("MC_MsgBuilder", "MC_MsgBuilder_vac", workers=4, label="mc-vacuity",
                  coverage=False, expect_violation="NoPointerAfterFailure", count=False)
    ctx.require_ok(vac, "vacuity guard (NoPointerAfterFailure must be refuted)")
    # the deviation, as documentation: with it the specification loses ParseBack
    devrun = ctx.tlc("MC_MsgBuilder", "MC_MsgBuilder_dev", workers=4, label="mc-deviation",
                     coverage=False, expect_violation="ParseBack", count=False)
    ctx.require_ok(devrun, "deviation D_ptr_limit_c000 must break ParseBack in the model")

    # ---- 2. deeper behaviours by simulation (small scenario, 9 calls)
    c_sim = os.path.join(w, "cases-sim.ndjson")
    sim = ctx.tlc("MC_MsgBuilder", "Gen_MsgBuilder_sim", workers=4, label="gen-sim", coverage=False,
                  simulate=(1500 if thorough else 120), depth=12, cases_to=c_sim, count=False)
    ctx.require_ok(sim, "Gen_MsgBuilder simulation")

    # ---- 2b. offsets around 0x3FFF / 0x4000: after answer() and one filler
    #          record every sequence of section changes, rewinds, a push limit
    #          and pushes of records whose names share suffixes
    c_edge = os.path.join(w, "cases-edge.ndjson")
    mc3 = ctx.tlc("MC_MsgBuilder", "MC_MsgBuilder_edge" + sfx, workers=8, label="mc-edge", coverage=False,
                  cases_to=c_edge, timeout=3000)
    ctx.require_ok(mc3, "MC_MsgBuilder edge")
    by_push, by_rewind = _edge_witnesses(c_edge)
    if by_push == 0 or by_rewind == 0:
        raise vlib.ToolError("vacuity: no behaviour cuts back to offset 0x3FFF and pushes again "
                             "(%d by a failed push, %d by a rewind)" % (by_push, by_rewind))

    # ---- 2c. the header, start_answer / start_error / request_axfr; OPT
    #          records that set an extended RCODE
    c_reply = os.path.join(w, "cases-reply.ndjson")
    mc4 = ctx.tlc("MC_MsgBuilder", "MC_MsgBuilder_reply" + sfx, workers=8, label="mc-reply", coverage=False,
                  cases_to=c_reply, timeout=3000)
    ctx.require_ok(mc4, "MC_MsgBuilder reply")
    c_optrc = os.path.join(w, "cases-optrc.ndjson")
    mc5 = ctx.tlc("MC_MsgBuilder", "MC_MsgBuilder_optrc" + sfx, workers=8, label="mc-optrc", coverage=False,
                  cases_to=c_optrc, timeout=3000)
    ctx.require_ok(mc5, "MC_MsgBuilder optrc")
    devrun2 = ctx.tlc("MC_MsgBuilder", "MC_MsgBuilder_dev_optrc", workers=4, label="mc-deviation-optrc",
                      coverage=False, expect_violation="HeaderKept", count=False)
    ctx.require_ok(devrun2, "deviation D_opt_rcode_sticks must break HeaderKept in the model")

    # ---- 3. what today's code does where a deviation applies: the same
    #         behaviours with the deviation switched on; merged into the cases
    c_bigdev = os.path.join(w, "cases-big-dev.ndjson")
    gdev = ctx.tlc("MC_MsgBuilder", "Gen_MsgBuilder_bigdev" + sfx, workers=8, label="gen-big-dev", coverage=False,
                   cases_to=c_bigdev, count=False, timeout=3000)
    ctx.require_ok(gdev, "Gen_MsgBuilder big with deviation")
    c_optrcdev = os.path.join(w, "cases-optrc-dev.ndjson")
    gdev2 = ctx.tlc("MC_MsgBuilder", "Gen_MsgBuilder_optrcdev" + sfx, workers=8, label="gen-optrc-dev",
                    coverage=False, cases_to=c_optrcdev, count=False, timeout=3000)
    ctx.require_ok(gdev2, "Gen_MsgBuilder optrc with deviation")
    c_all = os.path.join(w, "cases-all.ndjson")
    n_all = 0
    with open(c_all, "w") as out:
        for src in (c_small, c_sim, c_edge, c_reply):
            with open(src) as f:
                for line in f:
                    out.write(line)
                    n_all += 1
        n, n_dev = _merge_dev(c_big, c_bigdev, DEV, out)
        n_all += n
        n, n_dev_rc = _merge_dev(c_optrc, c_optrcdev, DEV_RC, out)
        n_all += n
    if n_all < 5000:
        raise vlib.ToolError("generator produced too few behaviours (%d)" % n_all)
    if n_dev == 0 or n_dev_rc == 0:
        raise vlib.ToolError("no behaviour distinguishes a deviation (%d, %d)" % (n_dev, n_dev_rc))
    # action coverage, counted from the behaviours TLC generated
    counts = {}
    for src in (c_small, c_big, c_sim, c_edge, c_reply, c_optrc):
        _count_actions(ctx, src, counts)
    for a in sorted(set(PUSHES.values()) | set(OTHERS.values())):
        ok, tot, err = counts.get(a, (0, 0, 0))
        if tot == 0 or (a.startswith("Push") and (ok == 0 or err == 0)):
            raise vlib.ToolError("vacuity: action %s not taken with every result (%d ok, %d err)"
                                 % (a, ok, err))
        ctx.coverage_actions[a] = (ok, tot)
    ctx.stage("behaviours", {"small": mc1.ncases, "big": mc2.ncases, "simulated": sim.ncases,
                             "edge": mc3.ncases, "reply": mc4.ncases, "optrc": mc5.ncases,
                             "edge_cut_to_0x3FFF_by_failed_push": by_push,
                             "edge_cut_to_0x3FFF_by_rewind": by_rewind,
                             "differ_under_" + DEV: n_dev, "differ_under_" + DEV_RC: n_dev_rc})

    # ---- 4. S->I replay
    head = os.path.join(w, "head.ndjson")
    _head(c_all, head, 40)
    rc, out, err, _ = ctx.run_bin("replay_builder", ["--selftest-perturb"], stdin_path=head)
    ctx.selftest("perturbed expectation is reported by replay_builder", "FAIL " in out)
    ctx.replay_cases("replay_builder", c_all, label="builder")

    # ---- 5. I->S: recorded runs validated by TLC
    plan = [("small", 3 if thorough else 2, 5000 if thorough else 2000),
            ("large", 4 if thorough else 1, 4000 if thorough else 1500),
            ("edge", 3 if thorough else 1, 4000 if thorough else 1500)]
    devs_open = [d for d in (DEV, DEV_RC) if d in ctx.open_devs]
    dev_cfg = {(DEV,): "Trace_MsgBuilder_dev", (DEV_RC,): "Trace_MsgBuilder_dev_optrc",
               (DEV, DEV_RC): "Trace_MsgBuilder_dev_all"}.get(tuple(devs_open))
    first = True
    for mode, n, events in plan:
        for i in range(n):
            tr = os.path.join(w, "trace-%s-%d.ndjson" % (mode, i))
            rc, out, err, _ = ctx.run_bin(
                "record_builder", [tr, str(ctx.seed * 1000 + i + {"small": 0, "large": 500, "edge": 700}[mode]),
                                   str(events), mode])
            if rc != 0:
                raise vlib.ToolError("record_builder failed: " + err[-500:])
            ok, res, rej = ctx.validate_trace("Trace_MsgBuilder", "Trace_MsgBuilder", tr,
                                              label="trace-%s-%d" % (mode, i), timeout=2400)
            ctx.traces += 1
            used_cfg = "Trace_MsgBuilder"
            if not ok and dev_cfg:
                # today's code: the run must then be a behaviour of the
                # specification with the open deviations switched on
                ok2, res2, rej2 = ctx.validate_trace("Trace_MsgBuilder", dev_cfg, tr,
                                                     label="trace-%s-%d-dev" % (mode, i), timeout=2400)
                if ok2:
                    ctx.known(_dev_of(tr, rej, devs_open), rej)
                    ok = True
                    used_cfg = dev_cfg
                else:
                    rej = rej2
            if not ok:
                ctx.violation("recorded builder run is not a behaviour of MsgBuilder.tla",
                              _window(tr, rej))
            if first:
                first = False
                bad = os.path.join(w, "trace-bad.ndjson")
                lines = open(tr).read().splitlines()
                done = False
                for j, l in enumerate(lines):
                    o = json.loads(l)
                    if o["ev"] == "push" and o["res"] == "ok" and j > 10:
                        o["len"] += 1
                        o["shim"] += 1
                        lines[j] = json.dumps(o)
                        done = True
                        break
                open(bad, "w").write("\n".join(lines) + "\n")
                ok3, _, _ = ctx.validate_trace("Trace_MsgBuilder", used_cfg, bad,
                                               label="trace-selftest")
                ctx.selftest("corrupted trace is rejected by Trace_MsgBuilder", done and not ok3)
    ctx.assume("names: a.ex. / A.EX. / b.a.ex. / ex. / root / one 255-octet name in the model; generated names (shared suffixes, case variants, odd octets, 63-octet labels, a 255-octet name) in recorded runs")
    ctx.assume("filler record data is 0x80 octets (TXT strings of 128 x 0x80 or opaque data), an undefined label type, so that a pointer into filler reads as an error in model and code alike")
    ctx.assume("lengths on compressing targets are predicted by the transcription of each compressor; push errors compared as ok/error; a push reaching the limit exactly is not decided")
    ctx.assume("CountOverflow not exercised (needs 65535 pushes)")


def _dev_of(trace_path, rej, devs_open):
    """the deviation a rejected event witnesses: a failed OPT push that set an
    RCODE is D_opt_rcode_sticks, anything else the pointer limit"""
    ev = (rej or {}).get("event") or {}
    if DEV_RC in devs_open and ev.get("ev") == "push" and "rc" in ev and ev.get("res") == "err":
        return DEV_RC
    return devs_open[0]


def _window(trace_path, rej):
    """the recorded run that contains the rejected event, for replay"""
    obj = {"rejection": rej, "trace": []}
    try:
        lines = open(trace_path).read().splitlines()
        at = (rej or {}).get("matched", 0)
        start = at
        while start > 0 and json.loads(lines[start])["ev"] != "new":
            start -= 1
        end = at
        while end + 1 < len(lines) and json.loads(lines[end + 1])["ev"] != "new":
            end += 1
        obj["trace"] = [json.loads(x) for x in lines[start:end + 1]]
    except Exception as e:  # noqa: BLE001
        obj["window_error"] = str(e)
    return obj


def replay(ctx, doc):
    """bin/check C02 --replay <file>: re-run one failing behaviour / recorded run"""
    case = doc if ("in" in doc or "trace" in doc) else (doc.get("case") or {})
    ctx.build("replay_builder", "record_builder")
    if "in" in case:
        p = os.path.join(ctx.work, "one.ndjson")
        one = {"in": case["in"], "exp": case["exp"]}
        if "dev" in case:
            one["dev"] = case["dev"]
        vlib.write_ndjson(p, [one])
        ctx.replay_cases("replay_builder", p, label="replay")
    elif case.get("trace"):
        p = os.path.join(ctx.work, "one-trace.ndjson")
        vlib.write_ndjson(p, case["trace"])
        ok, res, rej = ctx.validate_trace("Trace_MsgBuilder", "Trace_MsgBuilder", p, label="replay")
        devs_open = [d for d in (DEV, DEV_RC) if d in ctx.open_devs]
        dev_cfg = {(DEV,): "Trace_MsgBuilder_dev", (DEV_RC,): "Trace_MsgBuilder_dev_optrc",
                   (DEV, DEV_RC): "Trace_MsgBuilder_dev_all"}.get(tuple(devs_open))
        if not ok and dev_cfg:
            ok, res, rej = ctx.validate_trace("Trace_MsgBuilder", dev_cfg, p, label="replay-dev")
        if not ok:
            ctx.violation("recorded builder run is not a behaviour of MsgBuilder.tla",
                          {"rejection": rej, "trace": case["trace"]})
    else:
        raise vlib.ToolError("replay file has neither a behaviour nor a trace")
    print("replay: %s" % ("VIOLATION reproduced" if ctx.violations else "no disagreement"))


def explain(ctx, dev):
    if dev == DEV_RC:
        res = ctx.tlc("MC_MsgBuilder", "MC_MsgBuilder_dev_optrc", workers=4, label="explain",
                      coverage=False, expect_violation="HeaderKept", count=False)
        print(open(res.log).read())
        return
    if dev != DEV:
        raise vlib.ToolError("unknown deviation " + dev)
    res = ctx.tlc("MC_MsgBuilder", "MC_MsgBuilder_dev", workers=4, label="explain",
                  coverage=False, expect_violation="ParseBack", count=False)
    print(open(res.log).read())
