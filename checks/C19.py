"""C19 — the new-API codec (src/new) and the established codec agree on the
wire format; the new name compressor only emits pointers that resolve to the
intended name (spec/Wire.tla as the referee)."""
import json
import os
import vlib

META = {
    "category": "model_checking",
    "text": "Wire.tla is the referee: its CodecView reads a name, a question and a record at every offset of an enumerated message and the whole message in the new API's flattened view; TLC checks that the new codec's stricter pointer rule only ever rejects more and that the flattened view is consistent with the sectioned one. Every enumerated message (~50k quick) is read by base::Message/ParsedName/Question/ParsedRecord+AllRecordData and by new::base NameBuf/RevNameBuf/Question/Record<RecordData>/MessageParser and compared three-way (old vs spec, new vs spec, old vs new). Random build scripts run on both builders (old: TreeCompressor, new: NameCompressor through both the reversed-name and the forward-name path), every fourth crossing the 16384-octet pointer limit with filler records; each output is read by both codecs and, up to 220 octets, re-parsed by TLC against the pushed items.",
    "note": "Trusted: TLC, the transcription in Wire.tla, the harness. RDATA types beyond NS/CNAME/PTR/MX/SOA/OPT/A/AAAA/private-use are 'undecided' for the referee and not compared item by item; UnparsedName, CharStr and the derive macros of other record types are not exercised. Names are compared case-insensitively after building (a compressor may point to an equal name in another case). Outputs beyond 220 octets are judged by the two readers only. The established builder is not driven across 16384 (its compressors' limit is C02's finding D_ptr_limit_c000). Build scripts also fill small buffers until pushes fail and truncate()/rewind in the middle, comparing counts after every call. For RDATA the referee does not know but both codecs do, accept/reject is compared between the codecs. Open known findings: D_new_ptr_rule, D_new_builder_truncate_counts, and four accept/reject disagreements on RDATA (empty TXT, compressed names in SRV/DNAME/RRSIG/NSEC, non-canonical type bitmaps, short ZONEMD digest).",
    "technique": "TLA+ spec (Wire.tla) + TLC exhaustive over enumerated messages; spec->impl differential case replay on two codecs; impl->spec trace validation of build scripts",
    "design_ref": "DESIGN.md §4 C19",
}


def _head(src, dst, n):
    with open(src) as f, open(dst, "w") as g:
        for i, line in enumerate(f):
            if i >= n:
                break
            g.write(line)


def _vacuity(path):
    seen = set()
    with open(path) as f:
        for i, line in enumerate(f):
            e = json.loads(line)["exp"]["old"]
            seen.add("end:" + e["msg"]["end"])
            for x in e["names"]:
                if x["ok"] and sum(len(l) + 1 for l in x["item"][0]) + 1 == 255:
                    seen.add("name255")
            for x in e["edns"]:
                if x["ok"] and x["v"][1] != x["v"][2]:
                    seen.add("edns:ext!=version")
            for k in ("names", "qs", "rs"):
                for x in e[k]:
                    seen.add("%s:%s" % (k, "und" if x["und"] else ("ok" if x["ok"] else "err")))
            for it in e["msg"]["items"]:
                seen.add("tag:%d" % it[0])
    need = {"end:done", "end:err", "end:und", "names:ok", "names:err", "qs:ok", "qs:err",
            "rs:ok", "rs:err", "rs:und", "name255", "edns:ext!=version", "tag:0", "tag:1", "tag:2", "tag:3", "tag:4"}
    if need - seen:
        raise vlib.ToolError("vacuity: codec cases never reach %s" % sorted(need - seen))


def run(ctx):
    thorough = ctx.tier == "thorough"
    sfx = "_thorough" if thorough else ""
    ctx.build("replay_wire", "record_codec")

    # 1. laws of the referee
    mc = ctx.tlc("MC_Wire", "MC_Codec" + sfx, workers=8, label="mc-codec", coverage=False)
    ctx.require_ok(mc, "MC_Codec")
    ctx.exhaustive_flags.append(True)
    ctx.coverage_actions["MC_Wire:Phase1,Phase2,NWStep"] = (mc.distinct, mc.generated)

    # 2. S->I: every enumerated message read by both codecs
    cases = os.path.join(ctx.work, "cases-codec.ndjson")
    gen = ctx.tlc("MC_Wire", "Gen_Codec" + sfx, workers=8, label="gen-codec", coverage=False,
                  cases_to=cases, count=False)
    ctx.require_ok(gen, "Gen_Codec")
    if gen.ncases < 10000:
        raise vlib.ToolError("generator produced too few cases (%d)" % gen.ncases)
    _vacuity(cases)
    head = os.path.join(ctx.work, "head.ndjson")
    _head(cases, head, 40)
    rc, out, err, _ = ctx.run_bin("replay_wire", ["codec", "--selftest-perturb"], stdin_path=head)
    ctx.selftest("perturbed expectation is reported by replay_wire codec", "FAIL " in out)
    ctx.replay_cases("replay_wire", cases, args=["codec"], label="codec-3way")

    # 3. I->S: build scripts on both builders, outputs read by both codecs,
    #    small outputs re-parsed by TLC
    env = {d: "1" for d in ctx.open_devs}
    n_traces = 4 if thorough else 2
    n_scripts = 600 if thorough else 240
    for i in range(n_traces):
        tr = os.path.join(ctx.work, "build-%d.ndjson" % i)
        rc, out, err, _ = ctx.run_bin("record_codec", [tr, str(ctx.seed * 100 + i), str(n_scripts)])
        if rc != 0:
            raise vlib.ToolError("record_codec failed: " + (out + err)[-500:])
        kinds = {}
        sweep = set()
        edns_built = False
        for l in open(tr):
            o = json.loads(l)
            kinds[(o["ev"], o.get("side"))] = kinds.get((o["ev"], o.get("side")), 0) + 1
            if o.get("script") == "sweep" and o.get("side") == "new":
                sweep.add((o["forward"], o["suffix_at"]))
            if o["ev"] == "built" and o["items"] and o["items"][-1][0] == 4 and \
               o["items"][-1][1][3] // 256 != o["items"][-1][1][3] % 256:
                edns_built = True
        for fw in (False, True):
            for at in (16383, 16384, 16385):
                if (fw, at) not in sweep:
                    raise vlib.ToolError("vacuity: no sweep script puts a suffix at %d (forward=%s)" % (at, fw))
        if not edns_built:
            raise vlib.ToolError("vacuity: no built message carries an EDNS record with ext_rcode != version")
        for need in (("built", "old"), ("built", "new"), ("bigbuilt", "old"), ("bigbuilt", "new"),
                     ("fill", "old"), ("trunc", "old")):
            if not kinds.get(need):
                raise vlib.ToolError("vacuity: build trace has no %s/%s event" % need)
        if not (kinds.get(("fill", "new")) or kinds.get(("fillpanic", "new"))) or \
           not (kinds.get(("trunc", "new")) or kinds.get(("truncpanic", "new"))):
            raise vlib.ToolError("vacuity: build trace lacks fill/trunc scripts on the new builder")
        ok, res, rej = ctx.validate_trace("Trace_Codec", "Trace_Codec", tr, label="build-%d" % i, env=env)
        ctx.traces += 1
        if not ok:
            ctx.violation("a built message is not read back as pushed by referee / old / new codec", rej)
        for w in res.tagged.get("WITNESSED", []):
            for d in w.get("devs", []):
                ctx.known(d, {"trace": os.path.basename(tr)})
        if i == 0:
            bad = os.path.join(ctx.work, "build-bad.ndjson")
            lines = open(tr).read().splitlines()
            for j, l in enumerate(lines):
                o = json.loads(l)
                if o["ev"] == "built" and o["side"] == "old":
                    o["items"][0][1][1] ^= 1      # the question type that was pushed
                    lines[j] = json.dumps(o)
                    break
            open(bad, "w").write("\n".join(lines) + "\n")
            ok2, _, _ = ctx.validate_trace("Trace_Codec", "Trace_Codec", bad, label="build-selftest", env=env)
            ctx.selftest("corrupted build trace is rejected by Trace_Codec", not ok2)

    ctx.assume("the referee's pointer rule is RFC 1035 4.1.4 read as 'strictly before the pointer'; the new codec's stricter rule is reported as D_new_ptr_rule, not treated as equally right")
    ctx.assume("RDATA types unknown to Wire.tla are undecided for the referee: item-by-item comparison stops there")
    ctx.assume("built names are compared case-insensitively")
    ctx.assume("outputs beyond 220 octets (all that cross 16384) are judged by the two readers, not re-parsed by TLC")
    ctx.assume("the established builder is not driven across 16384 here (C02 D_ptr_limit_c000)")
