"""C19 — the new-API codec (src/new) and the established codec agree on the
wire format; the new name compressor only emits pointers that resolve to the
intended name (spec/Wire.tla as the referee)."""
import json
import os
import vlib

META = {
    "category": "model_checking",
    "text": "Wire.tla is the referee: its CodecView reads a name, a question and a record at every offset of an enumerated message and the whole message in the new API's flattened view; its PlainView reads stretches of the message as byte strings of their own (a name, a skipped name, a question, a record, split off and exact) the way the routes without decompression do. TLC checks that the new codec's stricter pointer rule only ever rejects more, that the flattened view is consistent with the sectioned one, and that a plain name is exactly a name the message route reads without meeting a pointer. Every enumerated message (~57k quick) is read by base::Message/ParsedName/Question/ParsedRecord+AllRecordData, Name::parse/from_octets, ParsedName::skip and by new::base NameBuf/RevNameBuf/Question/Record<RecordData>/MessageParser through split_message_bytes and through ParseBytes/SplitBytes of &Name, NameBuf, RevNameBuf, &UnparsedName, Question and Record, and compared three-way (old vs spec, new vs spec, old vs new). The referee knows the RDATA of NS/CNAME/PTR/MX/SOA/RP (names decompressed), SRV/DNAME/NSEC/RRSIG (names the new codec never decompresses), TXT/HINFO (character strings), OPT, A, AAAA. Family P puts names of 253..257 octets (17 label partitions) and character strings of 255 octets in every such place - bare, question, owner, each RDATA slot, completed by a pointer into a long question name - on every route. Random build scripts run on both builders (old: TreeCompressor, new: NameCompressor through both the reversed-name and the forward-name path), every fourth crossing the 16384-octet pointer limit with filler records; each output is read by both codecs and, up to 220 octets, re-parsed by TLC against the pushed items; recorded reads of random limit-shape messages (random partitions and octets, every place x 253..257) by every route are validated by TLC against the referee. Size limits: BuildLimit.tla states the limit semantics of both builders (octets of the whole message, header included, as in MsgBuilder.tla; hard limit = capacity / buffer narrowed by limit_to, soft limit = set_push_limit; item lengths between ideal and no compression); scripts are run under every abstract limit from 12 to beyond their full length through every limiting entry point (established: set_push_limit before / between pushes / replacing a laxer one / across builder(), target capacity; new: buffer size, limit_to before / between pushes / narrowing / after a stricter one / across truncate()), every push attempted, and TLC judges every call of every run, re-reads every distinct output and requires runs with the same needs and effective limits to admit the same prefix and emit the same octets.",
    "note": "Trusted: TLC, the transcription in Wire.tla, the harness. Where the referee gives no verdict on RDATA (types it does not know, a pointer inside SRV/DNAME/NSEC/RRSIG names in a message, a non-canonical type bitmap, an empty TXT) the case input says so and the item is not compared with the spec; for types both codecs know, accept/reject is still compared between the codecs. The content of character strings is not compared (accept/reject and lengths of the RDATA only); UnparsedName is compared as 'a name skipped'; the derive macros of other record types and Box<Name>/parse_bytes_in are not exercised. Names are compared case-insensitively after building (a compressor may point to an equal name in another case). Outputs beyond 220 octets are judged by the two readers only. The established builder is not driven across 16384 (its compressors' limit is C02's finding D_ptr_limit_c000). Build scripts also fill small buffers until pushes fail and truncate()/rewind in the middle, comparing counts after every call. In the limit sweeps the length a refused push would have needed is measured on a fresh builder of the same side given the admitted items and then this one; it is binding only until the first refusal of a run (afterwards the new compressor may know fewer names, so only a refusal of an item that fits uncompressed is an error there); set_push_limit(p) refusing a message of exactly p octets is left open as in MsgBuilder.tla (its parameter for the abstract limit m is m + 1); limit scripts use lower-case names; StreamTarget's 65535-octet limit is not swept here (C02). The builders are not asked to write SRV/DNAME/NSEC/RRSIG/RP/TXT/HINFO records (reading only). Open known findings: D_new_ptr_rule and four accept/reject disagreements on RDATA (empty TXT, compressed names in SRV/DNAME/RRSIG/NSEC, non-canonical type bitmaps, short ZONEMD digest).",
    "technique": "TLA+ spec (Wire.tla) + TLC exhaustive over enumerated messages; spec->impl differential case replay on two codecs; impl->spec trace validation of build scripts",
    "design_ref": "DESIGN.md §4 C19",
}


def _head(src, dst, n):
    with open(src) as f, open(dst, "w") as g:
        for i, line in enumerate(f):
            if i >= n:
                break
            g.write(line)


def _vacuity(path):
    seen = set()
    with open(path) as f:
        for i, line in enumerate(f):
            e = json.loads(line)["exp"]["old"]
            seen.add("end:" + e["msg"]["end"])
            for x in e["names"]:
                if x["ok"] and sum(len(l) + 1 for l in x["item"][0]) + 1 == 255:
                    seen.add("name255")
            for x in e["edns"]:
                if x["ok"] and x["v"][1] != x["v"][2]:
                    seen.add("edns:ext!=version")
            for k in ("names", "qs", "rs"):
                for x in e[k]:
                    seen.add("%s:%s" % (k, "und" if x["und"] else ("ok" if x["ok"] else "err")))
            for it in e["msg"]["items"]:
                seen.add("tag:%d" % it[0])
    need = {"end:done", "end:err", "end:und", "names:ok", "names:err", "qs:ok", "qs:err",
            "rs:ok", "rs:err", "rs:und", "name255", "edns:ext!=version", "tag:0", "tag:1", "tag:2", "tag:3", "tag:4"}
    if need - seen:
        raise vlib.ToolError("vacuity: codec cases never reach %s" % sorted(need - seen))


def _wlen(name):
    return sum(len(l) + 1 for l in name) + 1


def _vacuity_limits(path):
    """family P: the referee accepts 255 octets and rejects 256 on every
    route, in every place a name can stand"""
    seen = set()
    with open(path) as f:
        for line in f:
            c = json.loads(line)
            e = c["exp"]
            for p in e["plain"]:
                n = p["n"]
                if n["ok"] and _wlen(n["item"][0]) == 255:
                    seen.add("plain:name255" + (":exact" if n["exact"] else ":split"))
                if p["q"]["ok"] and _wlen(p["q"]["item"][0]) == 255:
                    seen.add("plain:question255")
                if p["sk"]["ok"]:
                    seen.add("plain:skip")
                for k in ("rn", "ro"):
                    r = p[k]
                    seen.add("%s:%s" % (k, "und" if r["und"] else ("ok" if r["ok"] else "err")))
                    if r["ok"]:
                        if _wlen(r["item"][0]) == 255:
                            seen.add("%s:owner255" % k)
                        for x in r["item"][5]:
                            if _wlen(x) == 255:
                                seen.add("%s:rdata255:type%d" % (k, r["item"][1]))
            for r in e["old"]["rs"]:
                if r["ok"]:
                    for x in r["item"][5]:
                        if _wlen(x) == 255:
                            seen.add("msg:rdata255:type%d" % r["item"][1])
                    if r["item"][1] in (13, 16):
                        seen.add("msg:strings:type%d" % r["item"][1])
            seen.add("msgend:" + e["old"]["msg"]["end"])
    need = {"plain:name255:exact", "plain:name255:split", "plain:question255", "plain:skip",
            "rn:ok", "rn:err", "rn:und", "ro:ok", "ro:err", "ro:und", "rn:owner255", "ro:owner255",
            "msg:strings:type13", "msg:strings:type16", "msgend:done", "msgend:err", "msgend:und"}
    for t in (2, 5, 12, 15, 6, 17, 33, 39, 46, 47):
        need |= {"rn:rdata255:type%d" % t, "ro:rdata255:type%d" % t, "msg:rdata255:type%d" % t}
    if need - seen:
        raise vlib.ToolError("vacuity: limit-shape cases never reach %s" % sorted(need - seen))


_LIM_EPS = [("old", "push_limit", False), ("old", "push_limit", True), ("old", "capacity", False),
            ("old", "push_limit_rewound", False), ("new", "buffer", False), ("new", "limit_to", False),
            ("new", "limit_to", True), ("new", "limit_to_rewound", False)]


def _limit_need():
    need = {"limit_to:refused", "limit_to:after-stricter", "limit_to:after-laxer", "push_limit:after-laxer"}
    for side, ep, mid in _LIM_EPS:
        k = "%s:%s%s" % (side, ep, ":mid" if mid else "")
        # a push that ends exactly at the limit is admitted; pushes that would
        # end 1 .. 12 octets beyond it (the length of a header) are refused
        need |= {k + ":at-limit", k + ":beyond+1", k + ":beyond+12", k + ":full"}
    return need


def _limit_vacuity(o, seen):
    m = o["limit"]
    for r in o["runs"]:
        if r.get("panic"):
            continue
        k = "%s:%s%s" % (r["side"], r["ep"], ":mid" if r["at"] > 0 else "")
        nlim = [st for st in r["steps"] if st["op"] == "limit"]
        if len(nlim) == 2 and r["ep"] in ("limit_to", "push_limit"):
            seen.add("%s:after-%s" % (r["ep"], "stricter" if nlim[0]["p"] < nlim[1]["p"] else "laxer"))
            continue
        if any(not st["ok"] for st in nlim):
            seen.add("limit_to:refused")
            continue
        # judged by the measured needs alone (not by what the builder answered),
        # up to the first push that does not fit
        fits = True
        for st in r["steps"]:
            if st["op"] != "push":
                continue
            if fits and st["need"] == m:
                seen.add(k + ":at-limit")
            if fits and st["need"] == m + 1:
                seen.add(k + ":beyond+1")
            if fits and st["need"] == m + 12:
                seen.add(k + ":beyond+12")
            if st["need"] > m:
                fits = False
        if fits:
            seen.add(k + ":full")


def run(ctx):
    thorough = ctx.tier == "thorough"
    sfx = "_thorough" if thorough else ""
    ctx.build("replay_wire", "record_codec")

    # 1. laws of the referee
    mc = ctx.tlc("MC_Wire", "MC_Codec" + sfx, workers=8, label="mc-codec", coverage=False)
    ctx.require_ok(mc, "MC_Codec")
    ctx.exhaustive_flags.append(True)
    ctx.coverage_actions["MC_Wire:Phase1,Phase2,NWStep"] = (mc.distinct, mc.generated)

    # 1b. the size-limit semantics of both builders (BuildLimit.tla): the calls
    #     a builder can log, accepted by the operator that judges recorded runs
    mcl = ctx.tlc("MC_BuildLimit", "MC_BuildLimit" + sfx, workers=4, label="mc-buildlimit")
    ctx.require_ok(mcl, "MC_BuildLimit")
    ctx.require_actions(mcl, ["Push", "Limit", "Trunc"])
    ctx.exhaustive_flags.append(True)

    # 2. S->I: every enumerated message read by both codecs
    cases = os.path.join(ctx.work, "cases-codec.ndjson")
    gen = ctx.tlc("MC_Wire", "Gen_Codec" + sfx, workers=8, label="gen-codec", coverage=False,
                  cases_to=cases, count=False)
    ctx.require_ok(gen, "Gen_Codec")
    if gen.ncases < 10000:
        raise vlib.ToolError("generator produced too few cases (%d)" % gen.ncases)
    _vacuity(cases)
    head = os.path.join(ctx.work, "head.ndjson")
    _head(cases, head, 40)
    rc, out, err, _ = ctx.run_bin("replay_wire", ["codec", "--selftest-perturb"], stdin_path=head)
    ctx.selftest("perturbed expectation is reported by replay_wire codec", "FAIL " in out)
    ctx.replay_cases("replay_wire", cases, args=["codec"], label="codec-3way")

    # 2b. family P: names at the 255-octet limit (253..257, several label
    #     partitions) and character strings at theirs on every route that does
    #     not decompress (byte strings: name / question / record, split and
    #     exact) and inside the RDATA of every type that carries a name, in
    #     whole messages; the referee's laws for the plain routes are checked
    #     in the same TLC run that emits the cases
    lcases = os.path.join(ctx.work, "cases-limits.ndjson")
    lim = ctx.tlc("MC_WirePlain", "Gen_WirePlain" + sfx, workers=8, label="gen-limits", coverage=False,
                  cases_to=lcases, count=False)
    ctx.require_ok(lim, "Gen_WirePlain")
    ctx.exhaustive_flags.append(True)
    ctx.coverage_actions["MC_WirePlain:Phase1,Phase2"] = (lim.distinct, lim.generated)
    if lim.ncases < (300 if thorough else 250):
        raise vlib.ToolError("limit-shape generator produced too few cases (%d)" % lim.ncases)
    _vacuity_limits(lcases)
    ctx.replay_cases("replay_wire", lcases, args=["codec"], label="codec-limits")

    # 3. I->S: build scripts on both builders, outputs read by both codecs,
    #    small outputs re-parsed by TLC
    env = {d: "1" for d in ctx.open_devs}
    n_traces = 4 if thorough else 2
    n_scripts = 600 if thorough else 240
    for i in range(n_traces):
        tr = os.path.join(ctx.work, "build-%d.ndjson" % i)
        rc, out, err, _ = ctx.run_bin("record_codec", [tr, str(ctx.seed * 100 + i), str(n_scripts)])
        if rc != 0:
            raise vlib.ToolError("record_codec failed: " + (out + err)[-500:])
        kinds = {}
        lim_seen = set()
        sweep = set()
        edns_built = False
        places = set()
        for l in open(tr):
            o = json.loads(l)
            if o["ev"] == "plain":
                places.add((o["slot"], o["namelen"]))
            kinds[(o["ev"], o.get("side"))] = kinds.get((o["ev"], o.get("side")), 0) + 1
            if o["ev"] == "limit":
                _limit_vacuity(o, lim_seen)
            if o.get("script") == "sweep" and o.get("side") == "new":
                sweep.add((o["forward"], o["suffix_at"]))
            if o["ev"] == "built" and o["items"] and o["items"][-1][0] == 4 and \
               o["items"][-1][1][3] // 256 != o["items"][-1][1][3] % 256:
                edns_built = True
        for fw in (False, True):
            for at in (16383, 16384, 16385):
                if (fw, at) not in sweep:
                    raise vlib.ToolError("vacuity: no sweep script puts a suffix at %d (forward=%s)" % (at, fw))
        if not edns_built:
            raise vlib.ToolError("vacuity: no built message carries an EDNS record with ext_rcode != version")
        for slot in ("qn", "own", "rd2", "rd5", "rd12", "rd15", "rd6", "rd17", "rd33", "rd39", "rd46", "rd47"):
            for n in (254, 255, 256):
                if (slot, n) not in places:
                    raise vlib.ToolError("vacuity: no recorded name of %d octets in place %s" % (n, slot))
        if not any(s.startswith("ptr") for s, _ in places) or not any(s.startswith("str") for s, _ in places):
            raise vlib.ToolError("vacuity: no recorded pointer-completed name / character strings at the limit")
        for need in (("built", "old"), ("built", "new"), ("bigbuilt", "old"), ("bigbuilt", "new"),
                     ("fill", "old"), ("trunc", "old")):
            if not kinds.get(need):
                raise vlib.ToolError("vacuity: build trace has no %s/%s event" % need)
        if not (kinds.get(("fill", "new")) or kinds.get(("fillpanic", "new"))) or \
           not (kinds.get(("trunc", "new")) or kinds.get(("truncpanic", "new"))):
            raise vlib.ToolError("vacuity: build trace lacks fill/trunc scripts on the new builder")
        ok, res, rej = ctx.validate_trace("Trace_Codec", "Trace_Codec", tr, label="build-%d" % i, env=env)
        ctx.traces += 1
        if not ok:
            rev = (rej or {}).get("event", {}).get("ev")
            what = ("a reading route of one codec differs from the referee's view of a limit-shape message"
                    if rev == "plain"
                    else "a size-limiting entry point of one builder admits or refuses a push against the limit semantics of BuildLimit.tla, or the two builders differ under the same limit"
                    if rev == "limit"
                    else "a built message is not read back as pushed by referee / old / new codec")
            ctx.violation(what, rej)
        miss = _limit_need() - lim_seen
        if miss:
            raise vlib.ToolError("vacuity: limit sweeps never reach %s" % sorted(miss))
        for w in res.tagged.get("WITNESSED", []):
            for d in w.get("devs", []):
                ctx.known(d, {"trace": os.path.basename(tr)})
        if i == 0:
            bad = os.path.join(ctx.work, "build-bad.ndjson")
            lines = open(tr).read().splitlines()
            for j, l in enumerate(lines):
                o = json.loads(l)
                if o["ev"] == "built" and o["side"] == "old":
                    o["items"][0][1][1] ^= 1      # the question type that was pushed
                    lines[j] = json.dumps(o)
                    break
            open(bad, "w").write("\n".join(lines) + "\n")
            ok2, _, _ = ctx.validate_trace("Trace_Codec", "Trace_Codec", bad, label="build-selftest", env=env)
            ctx.selftest("corrupted build trace is rejected by Trace_Codec", not ok2)
            # ... a limit that is taken 12 octets larger than given (a push
            #     admitted beyond it) on a limit_to run
            bad = os.path.join(ctx.work, "limit-bad.ndjson")
            lims = []
            done = False
            for l in lines:
                o = json.loads(l)
                if o["ev"] != "limit":
                    continue
                lims.append(o)
                for r in o["runs"]:
                    if r["side"] == "new" and r["ep"] == "limit_to" and r["at"] == 0 and r["steps"] and \
                       r["steps"][0]["op"] == "limit" and r["steps"][0]["p"] == r["p"] and \
                       any(st["op"] == "push" and st["ok"] and r["p"] - 12 < st["len"] for st in r["steps"]):
                        r["steps"][0]["p"] -= 12
                        done = True
                        break
                if done:
                    break
            open(bad, "w").write("\n".join(json.dumps(o) for o in lims) + "\n")
            ok4, _, rej4 = ctx.validate_trace("Trace_Codec", "Trace_Codec", bad, label="limit-selftest", env=env)
            ctx.selftest("a limit_to run that admits a push within 12 octets beyond its limit is rejected by Trace_Codec",
                         done and (not ok4) and rej4 is not None and rej4.get("matched") == len(lims) - 1)
            # ... and a reading-route verdict that differs from the referee's
            bad = os.path.join(ctx.work, "plain-bad.ndjson")
            plain = []
            for l in lines:
                o = json.loads(l)
                if o["ev"] != "plain":
                    continue
                plain.append(o)
                hit = [p for p in o["plain"] if p["n"]["ok"] is True]
                if hit and len(plain) >= 3:
                    hit[0]["n"]["exact"] = not hit[0]["n"]["exact"]
                    break
            open(bad, "w").write("\n".join(json.dumps(o) for o in plain) + "\n")
            ok3, _, rej3 = ctx.validate_trace("Trace_Codec", "Trace_Codec", bad, label="plain-selftest", env=env)
            ctx.selftest("a recorded reading-route verdict that differs from the referee's is rejected by Trace_Codec",
                         (not ok3) and rej3 is not None and rej3.get("matched") == len(plain) - 1)

    ctx.assume("the referee's pointer rule is RFC 1035 4.1.4 read as 'strictly before the pointer'; the new codec's stricter rule is reported as D_new_ptr_rule, not treated as equally right")
    ctx.assume("RDATA types unknown to Wire.tla, a pointer inside an SRV/DNAME/NSEC/RRSIG name in a message (RFC 3597 4 lets a receiver decompress), a non-canonical type bitmap and an empty TXT are undecided for the referee: item-by-item comparison stops there")
    ctx.assume("a byte string without a message around it cannot contain a compression pointer: the plain routes of both codecs must reject one")
    ctx.assume("built names are compared case-insensitively")
    ctx.assume("outputs beyond 220 octets (all that cross 16384) are judged by the two readers, not re-parsed by TLC")
    ctx.assume("the established builder is not driven across 16384 here (C02 D_ptr_limit_c000)")
