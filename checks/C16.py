"""C16 — servers answer each request once, framed, within the size limit
(spec/Server.tla)."""
import json
import os
import subprocess
import vlib

META = {
    "category": "model_checking",
    "text": "Server.tla transcribes the EDNS/mandatory middleware size discipline, what the Mandatory(Edns(Cookies)) stack decides before the service sees a request (every public constructor and switch of the three middleware services x transport x opcode / question count / OPT count / EDNS version / keepalive / COOKIE form x server-cookie timestamps all around the RFC 1982 circle on 2 x 16-bit limbs x hash), how a response comes to be (builder route x last builder operations x additional-section layout x octets type x service_fn x EDNS switch, with the stream length prefix), the stream connection loop with its per-request tasks, bounded result queue, idle/write timers and flush, the server's accept loop (connection limit, accept_connections_at_max, reconfigure) and the datagram server. TLC checks UdpSize/TcIffDropped/StillParses/StreamFramed over the enumerated size space, Answered/TimeLaw/FarNeverValid/DeniedGuard over 5 504 request x configuration cases, and EachResponseOnce/IdQuestionPreserved/Framed/OthersUnaffected/AcceptServes over every interleaving of pipelined requests, completion orders, slow peers, clock ticks, aborts, commands and shutdown within small bounds. Every enumerated size / route / pre case and thousands of generated behaviours are replayed against the real stack, the real StreamServer/Connection over controllable mock streams and the real DgramServer (paused clock, stepped to quiescence, compared after every step; service kinds include stripped OPT records, rolled-back pushes, hostile COOKIE options and every ServiceError kind), 600 size cases also through DgramServer/StreamServer on loopback sockets under a multi-thread runtime with a pipelined follow-up request; recorded runs under hostile input (mutated requests, COOKIE options of any length / timestamp / hash, answers assembled by varying builder recipes, random fragmentation, vanishing peers) are validated by TLC against the same machine.",
    "note": "Trusted: TLC, the transcription in Server.tla, the mock stream/socket of the harness, tokio's current-thread scheduling (FIFO) which the quiescence order of the spec mirrors. Real sockets and a multi-thread runtime are exercised for single requests with one pipelined follow-up only (loopback); TLS, multi-threaded schedules of pipelines, wall-clock timing and the system clock beyond today's date (cookie timestamps are offsets from Serial::now()) are not; multi-threaded interleavings are explored on the model only. Connection attempts arrive one at a time (two attempts pending in the listener at once overshoot the connection limit by the stale count; observed, not judged). Configured limits below 512 are outside the domain (the datagram server clamps them). ServerMetrics getters, with_pre_connect_hook, await_shutdown / is_shutdown and dgram set_write_timeout are not bound.",
    "technique": "TLA+ spec (Server.tla) + TLC exhaustive; spec->impl case/behaviour replay; impl->spec trace validation",
    "design_ref": "DESIGN.md §4 C16",
}

CONN_ACTIONS = ["AcceptOk", "AcceptFail", "ConnClose", "RecvFrame", "RecvPartial", "RecvRest", "RecvShort", "RecvReply",
                "PeerAbort", "Release", "Credit", "HalfTick", "CloseCmd", "Flush",
                "TakeOne", "IdleTimeout", "Dispatch", "ReadShort", "ReadEof", "WriteOne", "WritePartial",
                "WriteTimeout", "WriteError", "Flushed", "ServiceYield", "Enqueue"]
DGRAM_ACTIONS = ["DRecv", "DRecvShort", "DRecvReply", "DRecvBig", "DRelease", "DSend", "DReconf",
                 "SpuriousReadable", "SendError"]
SIZE_DEVS = ["D_no_edns_uses_server_hint", "D_trunc_opt_over_limit"]
ALL_DEVS = SIZE_DEVS + ["D_queue_full_drop", "D_accept_not_resumed"]


def _gen(ctx, module, cfg, out, label, simulate=None, seed=None):
    res = ctx.tlc(module, cfg, workers=4, label=label, coverage=False, cases_to=out,
                  count=False, simulate=simulate, seed=seed)
    ctx.require_ok(res, cfg)
    return res.ncases


def _uniq(paths, out):
    seen = set()
    n = 0
    with open(out, "w") as g:
        for p in paths:
            with open(p) as f:
                for line in f:
                    if line not in seen:
                        seen.add(line)
                        g.write(line)
                        n += 1
    return n


def _selftest_case(ctx, cases, tag, pick, perturb, name):
    """Binding self-test: the first case `pick` accepts, with its expectation
    changed by `perturb`, must be reported by the executor."""
    with open(cases) as f:
        for line in f:
            o = json.loads(line)
            if pick(o):
                perturb(o)
                o.pop("dev", None)
                bad = os.path.join(ctx.work, "selftest-%s.ndjson" % tag)
                with open(bad, "w") as g:
                    g.write(json.dumps(o) + "\n")
                rc, out, err, _ = ctx.run_bin("replay_server", ["--open-devs", ""], stdin_path=bad)
                ctx.selftest(name, "FAIL " in out)
                return
    raise vlib.ToolError("binding self-test %s: no suitable case generated" % tag)


def run(ctx):
    thorough = ctx.tier == "thorough"
    suf = "_thorough" if thorough else ""
    ctx.build("replay_server", "record_server")

    # ---- 1. TLC decides the property on the specification (Dev = {}) ----
    # (every TLC run of parts 1, 1b, 1c also emits each enumerated evaluation
    # as one implementation case for stage 2)
    size_cases = os.path.join(ctx.work, "size.ndjson")
    mc = ctx.tlc("MC_ServerSize", "MC_ServerSize" + suf, workers=8, label="mc-size", cases_to=size_cases)
    n_size = mc.ncases
    ctx.require_ok(mc, "MC_ServerSize")
    ctx.require_actions(mc, ["Init", "Next"])
    vac = ctx.tlc("MC_ServerSize", "MC_ServerSize_vac", workers=2, label="mc-size-vacuity",
                  expect_violation="SomeTruncated", count=False, coverage=False)
    ctx.require_ok(vac, "truncation occurs in the enumerated space")
    # part 1c: how a response comes to be (builder route x recipe x layout of
    # the additional section x octets type x service route x EDNS switch):
    # the frame is right whatever the last builder operation was
    route_cases = os.path.join(ctx.work, "size-routes.ndjson")
    mc = ctx.tlc("MC_ServerSize", "MC_ServerSizeRoutes" + suf, workers=8, label="mc-size-routes",
                 cases_to=route_cases)
    n_route = mc.ncases
    ctx.require_ok(mc, "MC_ServerSizeRoutes")
    ctx.require_actions(mc, ["Init", "Next"])
    for inv in ["SomeCutLast", "SomeStripped"]:
        vac = ctx.tlc("MC_ServerSize", "MC_ServerSizeRoutes_vac_" + inv, workers=2,
                      label="mc-size-routes-vacuity-" + inv, expect_violation=inv,
                      count=False, coverage=False)
        ctx.require_ok(vac, "stream responses whose last builder operation is a cut occur (%s)" % inv)
    # part 1b: what the stack decides before the service sees a request, for
    # every configuration of the three middleware services x hostile request
    # shape x COOKIE form x timestamp distance around the serial circle
    pre_cases = os.path.join(ctx.work, "pre.ndjson")
    mc = ctx.tlc("MC_ServerPre", "MC_ServerPre" + suf, workers=8, label="mc-pre", cases_to=pre_cases)
    n_pre = mc.ncases
    ctx.require_ok(mc, "MC_ServerPre")
    ctx.require_actions(mc, ["Init", "Next"])
    for inv in ["SomeValid", "SomeBadCookie", "SomeEarly"]:
        vac = ctx.tlc("MC_ServerPre", "MC_ServerPre_vac_" + inv, workers=2,
                      label="mc-pre-vacuity-" + inv, expect_violation=inv,
                      count=False, coverage=False)
        ctx.require_ok(vac, "the enumerated requests reach every verdict (%s)" % inv)
    # quick: pipelines <= 2, queue capacity 1, services single/stream2
    # (both with frames written in two pieces);
    # thorough: pipelines <= 3 (single) and pipelines <= 2 with all service
    # kinds (single, stream2, fail, txn), queue capacity 1 and 2
    for cfg in (["MC_ServerConn_thorough", "MC_ServerConn_kinds_thorough"] if thorough
                else ["MC_ServerConn"]):
        mc = ctx.tlc("MC_ServerConn", cfg, workers=8, label="mc-conn-" + cfg, timeout=3000)
        ctx.require_ok(mc, cfg)
        ctx.require_actions(mc, [a for a in CONN_ACTIONS
                                 if not (a == "WritePartial" and cfg.endswith("kinds_thorough"))])
    mc = ctx.tlc("MC_ServerConn", "MC_ServerConn2" + suf, workers=8, label="mc-conn2",
                 timeout=3000)
    ctx.require_ok(mc, "MC_ServerConn2 (two connections)")
    # accept path: failed setups, the connection limit with
    # accept_connections_at_max true / false, open/close cycles, commands:
    # below the limit a running server takes connections on (AcceptServes)
    mc = ctx.tlc("MC_ServerConn", "MC_ServerAccept", workers=8, label="mc-accept")
    ctx.require_ok(mc, "MC_ServerAccept")
    ctx.require_actions(mc, ["AcceptOk", "AcceptFail", "AcceptRefuse", "AcceptError", "ConnClose", "SCmd"])
    # ServiceFeedback::Reconfigure: the idle timer uses the value in force
    mc = ctx.tlc("MC_ServerConn", "MC_ServerReconf", workers=8, label="mc-reconf")
    ctx.require_ok(mc, "MC_ServerReconf")
    ctx.require_actions(mc, ["IdleTimeout", "ServiceYield", "WriteOne"])
    # feedback-only stream items (XFR style): inside a transaction a full
    # queue waits -- nothing is lost, with or without D_queue_full_drop
    for cfg in (["MC_ServerXfr", "MC_ServerXfr_D_queue_full_drop"] if thorough else ["MC_ServerXfr"]):
        mc = ctx.tlc("MC_ServerConn", cfg, workers=8, label="mc-" + cfg)
        ctx.require_ok(mc, cfg)
        ctx.require_actions(mc, ["ServiceYield", "Enqueue", "WriteOne"])
    mc = ctx.tlc("MC_ServerConn", "MC_ServerDgram", workers=4, label="mc-dgram")
    ctx.require_ok(mc, "MC_ServerDgram")
    ctx.require_actions(mc, DGRAM_ACTIONS)
    ctx.exhaustive_flags.append(True)
    # each open deviation really breaks the property on the model (the
    # deviation is defined by its guard in the spec, nothing else hides there)
    for d in sorted(ctx.open_devs):
        if d in SIZE_DEVS:
            r = ctx.tlc("MC_ServerSize", "MC_ServerSize_" + d, workers=2, label="dev-" + d,
                        expect_violation="UdpSize", count=False, coverage=False)
        elif d == "D_queue_full_drop":
            r = ctx.tlc("MC_ServerConn", "MC_ServerConn_" + d, workers=4, label="dev-" + d,
                        expect_violation="EachResponseOnce", count=False, coverage=False)
        elif d == "D_accept_not_resumed":
            r = ctx.tlc("MC_ServerConn", "MC_ServerAccept_" + d, workers=4, label="dev-" + d,
                        expect_violation="AcceptServes", count=False, coverage=False)
        else:
            continue
        ctx.require_ok(r, "deviation %s breaks the property on the model" % d)

    # ---- 2. S->I: size cases through the real middleware stack ----
    if n_size < 1000:
        raise vlib.ToolError("size generator produced too few cases (%d)" % n_size)
    head = os.path.join(ctx.work, "head.ndjson")
    with open(size_cases) as f, open(head, "w") as g:
        for i, line in enumerate(f):
            if i >= 20:
                break
            g.write(line)
    rc, out, err, _ = ctx.run_bin("replay_server", ["--selftest-perturb"], stdin_path=head)
    ctx.selftest("perturbed expectation is reported by replay_server", "FAIL " in out)
    ctx.replay_cases("replay_server", size_cases, label="size")
    # ... builder routes / recipes / layouts / octets types / service_fn / enable
    if n_route < 10000:
        raise vlib.ToolError("route generator produced too few cases (%d)" % n_route)
    _selftest_case(ctx, route_cases, "routes",
                   lambda o: (not o["in"]["udp"]) and o["in"]["recipe"] == "rewind",
                   lambda o: o["exp"].__setitem__("frame", o["exp"]["frame"] + 15),
                   "stream response announced 15 octets too long is reported by replay_server")
    ctx.replay_cases("replay_server", route_cases, label="size-routes")
    # ... and as deployed: DgramServer / StreamServer on the operating system's
    # loopback sockets under a multi-thread runtime, each case followed by a
    # plain request on the same socket / pipelined on the same connection
    sock_cases = os.path.join(ctx.work, "size-sock.ndjson")
    n = _gen(ctx, "MC_ServerSize", "Gen_ServerSizeSock" + suf, sock_cases, "gen-size-sock")
    if n < 500:
        raise vlib.ToolError("socket case generator produced too few cases (%d)" % n)
    _selftest_case(ctx, sock_cases, "sock",
                   lambda o: (not o["in"]["udp"]) and o["in"]["recipe"] == "rewind",
                   lambda o: o["exp"].__setitem__("then", "misframed"),
                   "a wrong expectation about the follow-up request on a real connection is reported")
    ctx.replay_cases("replay_server", sock_cases, label="size-sock")

    # ---- 2b. S->I: every request shape through every stack configuration ----
    if n_pre < 5000:
        raise vlib.ToolError("pre generator produced too few cases (%d)" % n_pre)
    # the generated requests really go all around the serial circle: server
    # cookies numerically later than the clock yet expired in RFC 1982 terms,
    # on both transports, with a right and a wrong hash
    far = set()
    with open(pre_cases) as f:
        for line in f:
            o = json.loads(line)
            ck = o["in"]["req"]["ck"]
            if ck["form"] == "std" and ck["d"][0] >= 32768 and ck["d"][0] < 49152 and o["in"]["cfg"]["ck_on"] \
                    and o["in"]["req"]["nopt"] == 1:
                far.add((o["in"]["udp"], ck["hash"], o["exp"]["by"]))
    if len(far) < 8:
        raise vlib.ToolError("vacuity: far-away cookie timestamps are not generated on every path: %s" % sorted(far))
    _selftest_case(ctx, pre_cases, "pre-far",
                   lambda o: o["in"]["req"]["ck"]["form"] == "std" and o["in"]["req"]["ck"]["d"] == [32768, 7200]
                   and o["exp"]["rcode"] == 23,
                   lambda o: o["exp"].__setitem__("rcode", 0),
                   "wrong rcode for a far-away server cookie is reported by replay_server")
    _selftest_case(ctx, pre_cases, "pre-by",
                   lambda o: o["in"]["req"]["ck"]["form"] == "std" and o["in"]["req"]["ck"]["hash"] == "ok"
                   and o["in"]["cfg"]["denied"] and o["in"]["udp"] and o["exp"]["by"] == "service",
                   lambda o: o["exp"].__setitem__("by", "inner"),
                   "a valid cookie that does not reach the service is reported by replay_server")
    ctx.replay_cases("replay_server", pre_cases, label="pre")

    # ---- 3. S->I: behaviours of the connection / datagram machines ----
    parts = []
    for cfg in ["Gen_ServerConn_directed", "Gen_ServerConn_directed_q2", "Gen_ServerDgram_directed",
                "Gen_ServerConn_defaults", "Gen_ServerDgram_defaults",
                # accept_connections_at_max = false, StreamServer::reconfigure
                "Gen_ServerConn_directed_noaam"]:
        p = os.path.join(ctx.work, cfg + ".ndjson")
        _gen(ctx, "Gen_ServerConn", cfg, p, "gen-" + cfg)
        parts.append(p)
    sims = [("Gen_ServerConn", 1200 if thorough else 300, 1),
            ("Gen_ServerConn_q2", 600 if thorough else 150, 2),
            ("Gen_ServerDgram", 200 if thorough else 50, 3),
            # service kinds that say what the request / the answer's last
            # builder operations look like (stripped OPT, rolled-back pushes,
            # hostile COOKIE options, ServiceError kinds) on the real servers
            ("Gen_ServerConn_kinds", 400 if thorough else 100, 4),
            # a server that stops accepting at its limit, reconfigured while
            # running (limit raised / lowered, aam switched)
            ("Gen_ServerConn_noaam", 400 if thorough else 80, 5)]
    if not thorough:
        # capacity 2 is covered by the directed scenarios in the quick tier
        sims = [x for x in sims if x[0] != "Gen_ServerConn_q2"]
    for cfg, num, k in sims:
        p = os.path.join(ctx.work, cfg + ".ndjson")
        _gen(ctx, "Gen_ServerConn", cfg, p, "gen-" + cfg, simulate=num, seed=ctx.seed * 10 + k)
        parts.append(p)
    beh = os.path.join(ctx.work, "behaviours.ndjson")
    nb = _uniq(parts, beh)
    if nb < 500:
        raise vlib.ToolError("behaviour generator produced too few cases (%d)" % nb)
    # binding self-test on a behaviour: drop the last written frame from one
    # expectation -> must be reported
    with open(beh) as f:
        for line in f:
            o = json.loads(line)
            if o["in"]["kind"] == "conn" and any(c["w"] for c in o["exp"][-1]["cs"]):
                for c in o["exp"][-1]["cs"]:
                    if c["w"]:
                        c["w"] = c["w"][:-1]
                        break
                o.pop("dev", None)
                bad = os.path.join(ctx.work, "beh-bad.ndjson")
                open(bad, "w").write(json.dumps(o) + "\n")
                rc, out, err, _ = ctx.run_bin("replay_server", [], stdin_path=bad)
                ctx.selftest("behaviour with a missing frame is reported by replay_server",
                             "FAIL " in out)
                break
    ctx.replay_cases("replay_server", beh, label="behaviours")
    # Framed under partial writes: the same behaviours with a transport that
    # accepts 1, 3 or 64 octets per write (what the peer sees at quiescence
    # must not depend on how the transport chops the writes)
    for ch in ([1, 2, 3, 64] if thorough else [1, 64]):
        ctx.replay_cases("replay_server", beh, args=["--chunk", str(ch)],
                         label="behaviours-chunk%d" % ch)

    # ---- 4. I->S: hostile input, validated by TLC ----
    tcfg = "Trace_Server_D_queue_full_drop" if "D_queue_full_drop" in ctx.open_devs else "Trace_Server"
    n_traces = 6 if thorough else 2
    for i in range(n_traces):
        tr = os.path.join(ctx.work, "trace-%d.ndjson" % i)
        rc, out, err, _ = ctx.run_bin("record_server", [tr, str(ctx.seed * 100 + i),
                                                         "3000" if thorough else "1200"])
        if rc != 0:
            raise vlib.ToolError("record_server failed: " + (out + err)[-500:])
        ok, res, rej = ctx.validate_trace("Trace_Server", tcfg, tr, label="trace-%d" % i)
        ctx.traces += 1
        if not ok:
            ctx.violation("recorded server run is not a behaviour of Server.tla", rej)
        else:
            for st in res.tagged.get("TRACE_STATS", []):
                if isinstance(st, dict) and st.get("lost", 0) > 0:
                    ctx.known("D_queue_full_drop", {"trace_seed": ctx.seed * 100 + i,
                                                    "lost_responses": st["lost"]})
        if i == 0:
            bad = os.path.join(ctx.work, "trace-bad.ndjson")
            lines = open(tr).read().splitlines()
            for j, l in enumerate(lines):
                o = json.loads(l)
                if o["ev"] == "chunk" and o["w"]:
                    o["w"][0][0] = (o["w"][0][0] + 1) % 65536
                    lines[j] = json.dumps(o)
                    break
            open(bad, "w").write("\n".join(lines) + "\n")
            ok2, _, _ = ctx.validate_trace("Trace_Server", tcfg, bad, label="trace-selftest")
            ctx.selftest("trace with a wrong response ID is rejected by Trace_Server", not ok2)
            bad2 = os.path.join(ctx.work, "trace-bad2.ndjson")
            lines = open(tr).read().splitlines()
            for j, l in enumerate(lines):
                o = json.loads(l)
                if o["ev"] == "dgram" and o["w"]:
                    o["w"] = []
                    lines[j] = json.dumps(o)
                    break
            open(bad2, "w").write("\n".join(lines) + "\n")
            ok3, _, _ = ctx.validate_trace("Trace_Server", tcfg, bad2, label="trace-selftest2")
            ctx.selftest("trace with an unanswered datagram is rejected by Trace_Server", not ok3)

    ctx.assume("configured UDP limit is >= 512 (DgramServer clamps it to 512..4096); smaller transport hints are outside the checked domain")
    ctx.assume("service responses carry their OPT record in the additional section only; body sizes are chosen so that the executor can build them exactly")
    ctx.assume("the quiescence order of the spec (loop task first, then every runnable request task once, FIFO) mirrors tokio's current-thread scheduler; other schedules are explored on the model only")
    ctx.assume("datagrams shorter than a DNS header are NOT ignored by dgram.rs: the whole zero-filled 1024-octet receive buffer is parsed, so they are answered like any request; the spec describes this behaviour, the property does not forbid it")
    ctx.assume("server-cookie timestamps are offsets from the system clock at the time of the run (Serial::now() cannot be interposed): distances 0 .. 2^32 - 1 are covered, absolute clock values other than today's are not")
    ctx.assume("connection attempts reach the accept loop one at a time (each is followed by a run to quiescence); with accept_connections_at_max = false at most one attempt waits in the listener")
    ctx.assume("loopback socket cases wait up to 30 s for an answer; a slower machine would show as a failed case, never as a pass")
    ctx.assume("exact rcodes of answers to malformed-but-long-enough requests are not compared (only: one well-formed response with the request's ID; FORMERR for QR=1)")


def explain(ctx, dev):
    if dev in SIZE_DEVS:
        r = ctx.tlc("MC_ServerSize", "MC_ServerSize_" + dev, workers=2, label="explain",
                    coverage=False)
    elif dev == "D_accept_not_resumed":
        r = ctx.tlc("MC_ServerConn", "MC_ServerAccept_" + dev, workers=4, label="explain",
                    coverage=False)
    else:
        r = ctx.tlc("MC_ServerConn", "MC_ServerConn_" + dev, workers=4, label="explain",
                    coverage=False)
    print(open(r.log).read()[-6000:])


def replay(ctx, case):
    ctx.build("replay_server")
    c = case.get("case", case)
    if "in" not in c:
        print("replay: not an S->I case (trace windows are re-validated by running the check)")
        return
    p = os.path.join(ctx.work, "one.ndjson")
    open(p, "w").write(json.dumps({k: c[k] for k in ("in", "exp", "dev") if k in c}) + "\n")
    ctx.replay_cases("replay_server", p, label="replay")
    for dev, n in sorted(ctx.known_witnessed.items()):
        print("KNOWN-FINDING: property=%s %s reproduced (observation equals the recorded deviation)" % (ctx.pid, dev))
