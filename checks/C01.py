"""C01 — reading any octet string as a DNS message is total, idempotent and
returns usable values (spec/Wire.tla, spec/MsgReader.tla)."""
import json
import os
import vlib

META = {
    "category": "model_checking",
    "text": "(Round 8: the QUERY methods of parsed record data that take an argument are part of the specification - WireQuery.tla: a type bitmap value is a sequence of windows, RtypeBitmap::contains(t) is t in TypesOf(value) (declaratively and as the octet walk, TLC checks both agree), iter / IntoIterator / is_empty, OwnerHash / Nsec3Salt compared with arguments of other lengths; TLC enumerates first windows 0/1/255 x EVERY length 1..32 x sparse/dense/mixed octets, two and three windows, the empty and seven malformed bitmaps, in NSEC and NSEC3 records, and each case queries all 256 types of every present block - including the 8 types just past a window last octet - and of absent neighbour blocks, through three routes, twice; a panic inside one query is an element of the observation.) (Round 7: the two-message read operations are part of the specification - MsgPair.tla: Message::is_answer both ways, QuestionSection ==, first_question / sole_question compared, RequestMessage / RequestMessageMulti::new + is_answer, MessageBuilder::start_answer / start_error from a hostile message by five targets and the reply held against either message, copy_records from a hostile source into a reply started for the other message, the transfer interpreter fed both - as total functions of a PAIR of octet strings; TLC checks their laws over ~10k enumerated pairs (every prefix, one-field mutants, hostile x hostile) which are replayed by every octets route, and the recorder logs pair events (a message of the run and a partner cut off / mutated / started by the library / unrelated) that Trace_MsgReader judges by PairProj.) (Round 5: the typed views of a record section - limit_to, limit_to_in, into_records over 15 record-data types, their clones, unwrap and next_section - are a view component of the MsgReader cursor machine (actions Limit/Unwrap, cursors opened on any section, invariants ViewIdempotent/ViewFilters/DataErrorGoesOn) and a `typed` component of the projection, walked directly, through a clone and through clone-per-step; records of classes CH/HS/NONE/ANY and RDATA errors inside sections are part of the enumerated messages and the recorder; header bits, records read at an offset, the OPT record and converted/flattened/rebuilt records are observed by every public route.) (Limit-shape names at the 253..257-octet boundary in every section and records of 23 types with hostile inner structure are part of the enumerated messages and of the recorder.) Wire.tla transcribes the wire format (header, questions, records with the RDLENGTH-must-fit rule, RFC 1035 4.1.4 name compression, skip vs parse, the RDATA layouts that embed names, OPT TLVs) and the read-side results derived from it; MsgReader.tla is the section-cursor machine of the read API. TLC checks termination of name parsing (measure), validity of every returned name, skip/parse position agreement, the CNAME bound and fuse/position/idempotence invariants over all call orders. Every enumerated message (header shapes x boundary chunks, ~55k quick) and every call order up to 4-5 calls on 7 hostile/well-formed messages plus 3 mixed-class ones (by two routes: Message<&[u8]> with copied cursors, &Message<[u8]> via AsRef with cloned cursors) is replayed into Message/QuestionSection/RecordSection (full read battery, twice, plus XfrResponseInterpreter and Label::iter_slice under a watchdog); recorded batteries on library-built, mutated and random messages are validated by TLC.",
    "note": "Queries: bitmaps with repeated or descending windows and trailing zero octets (accepted by the reader, forbidden to senders) are not enumerated; no recorder events for queries yet; SvcParams / Opt typed lookups stay with the accessor batteries of round 3-5. Pairs: messages of at most 160 octets in traces; a reply started on a compressing target is compared ignoring letter case; what copy_records copies is compared by counts (read back), not record by record. Trusted: TLC, the transcription in Wire.tla, the harness executor. RDATA of types other than NS/CNAME/PTR/MX/SOA/OPT/A/AAAA/private-use is opaque to the spec: for those only 'value or error, no panic, same twice' is checked on the implementation side. Error classes are not compared. Messages above the cap (160 octets in traces) only get the totality clause. Reads outside the buffer that do not panic and unsafe blocks are not judged. Four open known findings: canonical_name u16 overflow at ANCOUNT=0xFFFF, Label::iter_slice self-pointer hang and pointer-loop unbounded iteration, XFR interpreter unreachable!().",
    "technique": "TLA+ specs (Wire.tla, MsgReader.tla) + TLC exhaustive over enumerated messages and call orders; spec->impl case replay; impl->spec trace validation",
    "design_ref": "DESIGN.md §4 C01",
}

DEVS = ["D_cname_ancount_overflow", "D_slice_iter_selfptr", "D_slice_iter_loop",
        "D_xfr_unreachable_qtype"]


def _head(src, dst, n):
    with open(src) as f, open(dst, "w") as g:
        for i, line in enumerate(f):
            if i >= n:
                break
            g.write(line)


def _vacuity_proj(path):
    """The generated messages must reach every branch of the projection that
    the laws talk about (TLC's -coverage runs out of memory on the recursive
    operators, so the guard is computed from the cases themselves)."""
    seen = set()
    n = 0
    with open(path) as f:
        for line in f:
            n += 1
            c = json.loads(line)
            e = c["exp"]
            if e.get("short"):
                seen.add("short")
                continue
            seen.add("cname:" + e["cname"]["k"])
            seen.add("opt:" + e["opt"]["k"])
            for s in ("an", "ns", "ar"):
                if e[s]["err"]:
                    seen.add("secerr")
                if e[s]["reach"] and e[s]["items"]:
                    seen.add("items:" + s)
                for it in e[s]["items"]:
                    seen.add("rd:%s:%s" % (it[6]["k"], it[6]["ok"]))
            for it in e["q"]["items"]:
                if sum(len(l) + 1 for l in it[0]) + 1 == 255:
                    seen.add("qname255")
            for sec in ("an", "ns", "ar"):
                for it in e[sec]["items"]:
                    if sum(len(l) + 1 for l in it[0]) + 1 == 255:
                        seen.add("owner255:" + sec)
                    if len(c["in"]["m"]) > 256 and it[0][:1] == [[102, 116, 112]] and len(it[0]) >= 3:
                        seen.add("farpointer")
                    if it[1] == 48 and it[5] == 6:
                        seen.add("dnskey:keylen2")
                    if it[1] in (47, 50, 64, 65, 16, 45, 250):
                        seen.add("typed:%d" % it[1])
                    for o in it[6]["opts"]:
                        if o[0] in (8, 10, 11, 15):
                            seen.add("option:%d" % o[0])
            # typed views (Wire.tla TViews order: 1 lim.All 2 limin.All 3 any.All 4 lim.A 5 limin.A ...)
            for x, sec in enumerate(e["typed"]):
                if not sec:
                    continue
                seen.add("typed:sec%d" % (x + 1))
                if len(sec[1]) < len(sec[0]):
                    seen.add("typed:limin-passes-over")
                if len(sec[4]) < len(sec[3]):
                    seen.add("typed:limin.A-passes-over")
                if 0 < len(sec[3]) < len(sec[0]):
                    seen.add("typed:type-filter")
                for w in sec:
                    kinds = [el[0] for el in w]
                    for a, b in zip(kinds, kinds[1:]):
                        if a == "e":
                            seen.add("typed:goes-on-after-data-error")
                    if "o" in kinds:
                        seen.add("typed:undecided")
                    if kinds[-1:] == ["e"] and e[("an", "ns", "ar")[x]]["err"]:
                        seen.add("typed:framing-error")
                if sec[17] != sec[0]:
                    seen.add("typed:zone-differs-from-all")
                if any(el[0] == "r" and el[3] not in (1, 1232) for el in sec[18]):
                    seen.add("typed:class-not-in")
            for ra in e["recat"]:
                if ra[0][0] == 1:
                    seen.add("recat:record")
                if ra[0][0] == 0 and ra[1][0] == 1:
                    seen.add("recat:skip-only")
            if sum(e["hdrx"]) > 0:
                seen.add("hdrx")
            if e["q"]["err"]:
                seen.add("qerr")
            if e["iter"][1] == 2:
                seen.add("itererr")
            for d, v in c["dev"].items():
                if "none" not in v:
                    seen.add("dev:" + d)
    need = {"short", "cname:name", "cname:none", "opt:opt", "opt:none", "secerr", "qerr",
            "items:an", "items:ns", "items:ar", "rd:names:True", "rd:names:False",
            "rd:opt:True", "rd:opt:False", "rd:fixed:True", "rd:fixed:False", "rd:raw:True",
            "rd:opaque:True", "itererr", "qname255", "owner255:an", "owner255:ns", "owner255:ar",
            "farpointer", "dnskey:keylen2", "typed:47", "typed:50", "typed:64", "typed:65", "option:8", "option:10", "option:11", "option:15", "typed:16", "typed:45", "typed:250",
            "typed:sec1", "typed:sec2", "typed:sec3", "typed:limin-passes-over", "typed:limin.A-passes-over",
            "typed:type-filter", "typed:goes-on-after-data-error", "typed:undecided", "typed:framing-error",
            "typed:zone-differs-from-all", "typed:class-not-in", "recat:record", "recat:skip-only", "hdrx",
            "dev:D_cname_ancount_overflow",
            "dev:D_xfr_unreachable_qtype", "dev:D_slice_iter"}
    missing = sorted(need - seen)
    if missing:
        raise vlib.ToolError("vacuity: generated messages never reach %s" % missing)


def _vacuity_orders(path):
    ops, kinds = set(), set()
    with open(path) as f:
        for line in f:
            c = json.loads(line)
            o = c["in"]["ops"]
            ops.update(o)
            ops.add("open:%d" % c["in"]["start"])
            res = c["exp"]["res"]
            kinds.update(r["k"] for r in res)
            view = saved_view = None
            for i, (op, r) in enumerate(zip(o, res)):
                if "." in op:
                    view = op
                elif op in ("unwrap", "nextsec"):
                    view = None
                elif op == "fork":
                    saved_view = view
                elif op == "restore":
                    view = saved_view
                if op == "next" and r["k"] == "err" and i + 1 < len(o) and o[i + 1] == "next" \
                        and res[i + 1]["k"] in ("tr", "err"):
                    kinds.add("goes-on-after-data-error")
                if op == "next" and r["k"] == "tr" and view and view.startswith("limin") \
                        and i >= 2 and o[i - 1] == "restore" and o[i - 2] == "fork":
                    kinds.add("limin-walk-from-copy")
                if op == "next" and r["k"] == "r" and i >= 1 and o[i - 1] == "unwrap":
                    kinds.add("raw-after-unwrap")
    need_ops = {"next", "nextsec", "fork", "restore", "canon", "opt", "first", "unwrap",
                "lim.A", "limin.A", "limin.All", "any.All", "open:0", "open:1", "open:2", "open:3"}
    need_k = {"q", "r", "tr", "err", "none", "dead", "sec", "nosec", "name", "opt", "ok",
              "goes-on-after-data-error", "limin-walk-from-copy", "raw-after-unwrap"}
    if need_ops - ops or need_k - kinds:
        raise vlib.ToolError("vacuity: call orders never take %s / never yield %s"
                             % (sorted(need_ops - ops), sorted(need_k - kinds)))


def _vacuity_pairs(path):
    """The enumerated pairs must reach every outcome of every two-message
    operation, and the regression class 'partner cut off inside its question
    section while header fields still match' in both roles."""
    seen = set()
    with open(path) as f:
        for line in f:
            c = json.loads(line)
            a, b, e = c["in"]["a"], c["in"]["b"], c["exp"]
            if True in e["short"]:
                seen.add("short")
                continue
            for i, v in enumerate(e["ans"]):
                seen.add("ans%d:%s" % (i, v))
            seen.add("qeq:%s" % e["qeq"])
            seen.add("first:%d" % e["first"])
            seen.add("sole:%d" % e["sole"])
            for k in ("req", "reqm"):
                for v in e[k]:
                    seen.add("%s:%d" % (k, v))
            for st in e["start"]:
                seen.add("start.answers:%s" % st["answers"])
                if len(st["items"]) >= 2:
                    seen.add("start:two-questions")
                if st["items"] and st["hdr"][4] == len(st["items"]):
                    seen.add("start:questions-pushed")
            for v in e["cross"]:
                seen.add("cross:%s" % v)
            for v in e["copy"]:
                seen.add("copy:%d" % v[0])
                if v[0] == 1 and sum(v[3:]) >= 3:
                    seen.add("copy:records-in-every-section")
            # one message is the other cut off at or behind the header, its
            # header fields (ID, QDCOUNT) those of a response that answers itself
            for x, y, role in ((a, b, "req"), (b, a, "resp")):
                if 12 <= len(y) < len(x) and x[:len(y)] == y and x[2] >= 128 and x[4:6] != [0, 0]:
                    whole = e["ans"][0] if role == "req" else e["ans"][1]
                    if not whole:
                        seen.add("cut-partner-as-" + role)
                    if len(y) == 12:
                        seen.add("cut-partner-header-only")
            if a != b and e["ans"][0] and e["ans"][1]:
                seen.add("ans-both-ways-different-octets")
    need = {"short", "ans0:True", "ans0:False", "ans1:True", "ans1:False", "qeq:True", "qeq:False",
            "first:-1", "first:0", "first:1", "sole:-1", "sole:0", "sole:1",
            "req:-1", "req:0", "req:1", "reqm:-1", "reqm:0", "reqm:1",
            "start.answers:True", "start.answers:False", "start:two-questions", "start:questions-pushed",
            "cross:True", "cross:False", "copy:0", "copy:1", "copy:records-in-every-section",
            "cut-partner-as-req", "cut-partner-as-resp", "cut-partner-header-only",
            "ans-both-ways-different-octets"}
    missing = sorted(need - seen)
    if missing:
        raise vlib.ToolError("vacuity: enumerated pairs never reach %s" % missing)


def _vacuity_query(path):
    """The enumerated (bitmap value, queried types) must reach every window
    length, several windows, both record types, the malformed bitmaps, and a
    queried block in which the window ends before the block does (the types
    just past the last octet are then among the arguments)."""
    seen = set()
    with open(path) as f:
        for line in f:
            c = json.loads(line)
            e, i = c["exp"], c["in"]
            seen.add("rt:%d" % i["rt"])
            seen.add("parse:" + e["parse"])
            if e["parse"] != "ok":
                continue
            m = i["m"]
            # the bitmap's windows, read off the wire
            rd = m[23:]
            bm = rd[3:] if i["rt"] == 47 else rd[5 + rd[4] + 1 + rd[5 + rd[4]]:]
            k, nw = 0, 0
            while k < len(bm):
                seen.add("winlen:%d" % bm[k + 1])
                if bm[k + 1] < 32 and bm[k] in i["blocks"]:
                    seen.add("queried-past-window-end")
                k += 2 + bm[k + 1]
                nw += 1
            seen.add("windows:%d" % nw)
            if any(b * 256 > t or t > b * 256 + 255 for b in i["blocks"][:1] for t in e["contains"][:1]):
                seen.add("absent-block-first")
            if e["empty"]:
                seen.add("empty")
            if "hasheq" in e:
                seen.add("hasheq:%s" % sorted(set(e["hasheq"])))
    need = {"rt:47", "rt:50", "parse:ok", "parse:err", "windows:0", "windows:1", "windows:2", "windows:3",
            "queried-past-window-end", "empty", "hasheq:[False, True]"} | {"winlen:%d" % n for n in range(1, 33)}
    missing = sorted(need - seen)
    if missing:
        raise vlib.ToolError("vacuity: enumerated query cases never reach %s" % missing)


def run(ctx):
    thorough = ctx.tier == "thorough"
    sfx = "_thorough" if thorough else ""
    ctx.build("replay_wire", "record_wire")

    # 1c/2c. queries with an argument on parsed record data (WireQuery.tla):
    # one TLC run decides the laws (declarative membership = the octet walk,
    # iteration = the members, nothing past a window's end) over every
    # enumerated (type bitmap value x queried type) and emits the cases
    qcases = os.path.join(ctx.work, "cases-query.ndjson")
    mcq = ctx.tlc("MC_WireQuery", "MC_WireQuery" + sfx, workers=4, label="mc-gen-query", coverage=False,
                  cases_to=qcases, count=False)
    ctx.require_ok(mcq, "MC_WireQuery")
    ctx.coverage_actions["MC_WireQuery:Phase1,Phase2"] = (mcq.distinct, mcq.generated)
    if mcq.ncases < 1000:
        raise vlib.ToolError("query generator produced too few cases (%d)" % mcq.ncases)
    _vacuity_query(qcases)
    qhead = os.path.join(ctx.work, "head-query.ndjson")
    _head(qcases, qhead, 40)
    rc, out, err, _ = ctx.run_bin("replay_wire", ["query", "--selftest-perturb"], stdin_path=qhead)
    ctx.selftest("perturbed expectation is reported by replay_wire query", "FAIL " in out)
    ctx.replay_cases("replay_wire", qcases, args=["query"], label="wire-query")

    # 1. the specifications satisfy their laws
    mc = ctx.tlc("MC_Wire", "MC_Wire" + sfx, workers=8, label="mc-wire", coverage=False)
    ctx.require_ok(mc, "MC_Wire")
    mc2 = ctx.tlc("MC_MsgReader", "MC_MsgReader" + sfx, workers=4, label="mc-reader", coverage=False)
    ctx.require_ok(mc2, "MC_MsgReader")
    ctx.exhaustive_flags.append(True)
    ctx.coverage_actions["MC_Wire:Phase1,Phase2,NWStep"] = (mc.distinct, mc.generated)
    ctx.coverage_actions["MC_MsgReader:NextItem,NextSection,Fork,Restore,Limit,Unwrap,CanonName,OptCall,FirstQ"] = (
        mc2.distinct, mc2.generated)

    # 1b/2b. pairs of messages (MsgPair.tla): the laws of the two-message
    # operations over every enumerated pair, and S->I: every pair with its
    # pair projection (one TLC run decides the laws and emits the cases)
    pairs = os.path.join(ctx.work, "cases-pairs.ndjson")
    mcp = ctx.tlc("MC_MsgPair", "MC_MsgPair" + sfx, workers=8, label="mc-gen-pairs", coverage=False,
                  cases_to=pairs, count=False)
    ctx.require_ok(mcp, "MC_MsgPair")
    ctx.coverage_actions["MC_MsgPair:Phase1,Phase2"] = (mcp.distinct, mcp.generated)
    if mcp.ncases < 5000:
        raise vlib.ToolError("pair generator produced too few cases (%d)" % mcp.ncases)
    _vacuity_pairs(pairs)
    phead = os.path.join(ctx.work, "head-pairs.ndjson")
    _head(pairs, phead, 40)
    rc, out, err, _ = ctx.run_bin("replay_wire", ["pair", "--selftest-perturb", "--open-devs",
                                                  ",".join(sorted(ctx.open_devs))], stdin_path=phead)
    ctx.selftest("perturbed expectation is reported by replay_wire pair", "FAIL " in out)
    ctx.replay_cases("replay_wire", pairs, args=["pair"], label="wire-pairs")

    # 2. S->I: every enumerated message with its projection
    cases = os.path.join(ctx.work, "cases-proj.ndjson")
    gen = ctx.tlc("MC_Wire", "Gen_Wire" + sfx, workers=8, label="gen-wire", coverage=False,
                  cases_to=cases, count=False)
    ctx.require_ok(gen, "Gen_Wire")
    if gen.ncases < 10000:
        raise vlib.ToolError("generator produced too few cases (%d)" % gen.ncases)
    _vacuity_proj(cases)
    head = os.path.join(ctx.work, "head.ndjson")
    _head(cases, head, 40)
    rc, out, err, _ = ctx.run_bin("replay_wire", ["proj", "--selftest-perturb", "--open-devs",
                                                  ",".join(sorted(ctx.open_devs))], stdin_path=head)
    ctx.selftest("perturbed expectation is reported by replay_wire proj", "FAIL " in out)
    s = ctx.replay_cases("replay_wire", cases, args=["proj"], label="wire-proj")
    ctx.stages[-1]["slice_hangs_observed"] = s.get("slice_hangs_observed")
    ctx.stages[-1]["slice_predicted_hangs_not_executed"] = s.get("slice_predicted_hangs_not_executed")

    # 3. S->I: call orders
    orders = os.path.join(ctx.work, "cases-orders.ndjson")
    gen2 = ctx.tlc("MC_MsgReader", "Gen_MsgReader" + sfx, workers=4, label="gen-orders",
                   coverage=False, cases_to=orders, count=False)
    ctx.require_ok(gen2, "Gen_MsgReader")
    if gen2.ncases < 1000:
        raise vlib.ToolError("order generator produced too few behaviours (%d)" % gen2.ncases)
    _vacuity_orders(orders)
    _head(orders, head, 20)
    rc, out, err, _ = ctx.run_bin("replay_wire", ["orders", "--selftest-perturb"], stdin_path=head)
    ctx.selftest("perturbed expectation is reported by replay_wire orders", "FAIL " in out)
    ctx.replay_cases("replay_wire", orders, args=["orders"], label="wire-orders")

    # 4. I->S: recorded batteries validated by TLC
    env = {d: "1" for d in ctx.open_devs}
    n_traces = 4 if thorough else 2
    n_msgs = 700 if thorough else 350
    for i in range(n_traces):
        tr = os.path.join(ctx.work, "trace-%d.ndjson" % i)
        rc, out, err, _ = ctx.run_bin("record_wire", [tr, str(ctx.seed * 100 + i), str(n_msgs), "160"])
        if rc != 0:
            raise vlib.ToolError("record_wire failed: " + (out + err)[-500:])
        ok, res, rej = ctx.validate_trace("Trace_MsgReader", "Trace_MsgReader", tr,
                                          label="trace-%d" % i, env=env)
        ctx.traces += 1
        if not ok:
            ctx.violation("recorded read battery is not the projection of Wire.tla", rej)
        for w in res.tagged.get("WITNESSED", []):
            for d in w.get("devs", []):
                ctx.known(d, {"trace": os.path.basename(tr)})
        if i == 0:
            # recorded pairs: enough of them, answering and not, and the
            # corrupted verdict of one is rejected (a short trace of pair
            # events only)
            pev = [json.loads(l) for l in open(tr) if '"ev":"pair"' in l.replace(" ", "")]
            full = [o for o in pev if "ans" in o["proj"]]
            n_cut = sum(1 for o in full for x, y in ((o["a"], o["b"]), (o["b"], o["a"]))
                        if 12 <= len(y) < len(x) and x[:len(y)] == y and x[2] >= 128)
            if len(full) < 50 or not any(True in o["proj"]["ans"] for o in full) or n_cut < 5 \
                    or not any(o["proj"]["copy"][0][0] == 1 for o in full):
                raise vlib.ToolError("vacuity: recorded pair events too few or one-sided (%d full, %d cut partners)"
                                     % (len(full), n_cut))
            ctx.stages[-1]["pair_events"] = len(pev)
            ctx.stages[-1]["pair_events_cut_partner_of_response"] = n_cut
            badp = os.path.join(ctx.work, "trace-bad-pair.ndjson")
            sel = full[:6]
            k = next((j for j, o in enumerate(sel) if not o["proj"]["ans"][0]), 0)
            sel[k]["proj"]["ans"][0] = not sel[k]["proj"]["ans"][0]
            open(badp, "w").write("\n".join(json.dumps(o) for o in sel) + "\n")
            okp, _, _ = ctx.validate_trace("Trace_MsgReader", "Trace_MsgReader", badp,
                                           label="trace-selftest-pair", env=env)
            ctx.selftest("a pair event with a changed is_answer verdict is rejected by Trace_MsgReader", not okp)
            bad = os.path.join(ctx.work, "trace-bad.ndjson")
            lines = open(tr).read().splitlines()
            for j, l in enumerate(lines):
                o = json.loads(l)
                if o["ev"] == "read" and not o["proj"].get("short") and o["proj"]["q"]["items"]:
                    o["proj"]["q"]["items"][0][1] ^= 1     # a question type
                    lines[j] = json.dumps(o)
                    break
            open(bad, "w").write("\n".join(lines) + "\n")
            ok2, _, _ = ctx.validate_trace("Trace_MsgReader", "Trace_MsgReader", bad,
                                           label="trace-selftest", env=env)
            ctx.selftest("corrupted trace is rejected by Trace_MsgReader", not ok2)
            # a class-limited walk that hands out what only the unlimited one may
            lines = open(tr).read().splitlines()
            done = False
            for j, l in enumerate(lines):
                o = json.loads(l)
                if o["ev"] != "read" or o["proj"].get("short"):
                    continue
                for sec in o["proj"]["typed"]:
                    if sec and sec[3] != sec[4]:
                        sec[4] = sec[3]
                        done = True
                        break
                if done:
                    lines[j] = json.dumps(o)
                    break
            if not done:
                raise vlib.ToolError("vacuity: no recorded message has a record of a class other than IN "
                                     "that limit_to_in::<A> passes over")
            open(bad, "w").write("\n".join(lines) + "\n")
            ok3, _, _ = ctx.validate_trace("Trace_MsgReader", "Trace_MsgReader", bad,
                                           label="trace-selftest-typed", env=env)
            ctx.selftest("a limit_to_in walk that yields other classes is rejected by Trace_MsgReader", not ok3)

    ctx.assume("RDATA layouts known to the spec: NS, CNAME, PTR, MX, SOA, OPT, A, AAAA, private-use types; all other types are opaque (value-or-error and repeatability only)")
    ctx.assume("error class is not compared, only accept/reject and where an iterator stops")
    ctx.assume("a name embedded in RDATA is read within the RDATA's limit (as the sub-parser does); RFC 1035 is silent on pointer targets that run past it")
    ctx.assume("Label::iter_slice is executed under a watchdog; once two real hangs have been observed, inputs for which the spec predicts a hang under the open deviation are not executed")
    ctx.assume("messages larger than 160 octets (traces) are checked for totality and repeatability only")
    ctx.assume("a compressing builder target may hand back a question name in the letter case of an earlier name it was compressed into: replies started on StaticCompressor / TreeCompressor are compared with the specification ignoring case")
    ctx.assume("a typed view's element of a type whose layout the spec does not know is 'value or error' (the same outcome in every view that reads it by the same layout); the position of a cursor that has returned an error is not compared (a typed iterator does not tell a framing error from an RDATA error)")
