"""X11 — server-side request routing and the EDNS / mandatory middleware
decision procedures (spec/ServerRouting.tla, spec/ServerEdns.tla)."""
import json
import os

import vlib

DEVS = ["D_error_opt_no_edns", "D_add_opt_not_atomic", "D_router_no_question_panic"]
MACHINE_ACTIONS = ["A_MandatoryPre", "A_EdnsPre", "A_Service", "A_EdnsPost", "A_MandatoryPost"]

META = {
    "category": "model_checking",
    "text": "ServerEdns.tla transcribes MandatoryMiddlewareSvc and EdnsMiddlewareSvc function by function (preprocess verdicts, size negotiation, reserve_space_for_opt, postprocess, truncate) and the util.rs helpers they are made of (mk_error_response, add_edns_options, remove_edns_opt_record) over abstract messages with complete OPT records, as the per-request machine mandatory-pre -> edns-pre -> service -> edns-post -> mandatory-post, next to the RFC rules (RFC 3425, 9619 4, 6891 6.1.1/6.1.3/6.2.3/7, 7828 3.2.1/3.3.2, 1035 4.1.1/4.2.1) as a declarative oracle that yields a SET of admissible outcomes; TLC decides over the whole request x configuration x service grid that the machine's verdict is admissible, the service is called at most once and only then, ID/RD/QR/question/opcode are the request's, an OPT record goes out only to requestors that sent one and exactly one to those that sent a well-formed one, the keepalive option only on stream transports with the session's timeout, the service sees the negotiated size and the reserved octets cover what post-processing adds, UDP responses keep the limit with TC iff content was dropped and untouched otherwise, post-processing is idempotent, and the laws of the helpers (fields copied, options and fixed OPT fields preserved, failure leaves the response as it was). ServerRouting.tla: QnameRouter as a machine (add, call) against the declarative longest label-wise case-insensitive suffix, order independence, exactly one service invoked once, no match -> SERVFAIL + EDE, no panic. S->I: every grid state is a case performed on the real stacks (real MessageBuilder requests with raw OPT records through MandatoryMiddlewareSvc(EdnsMiddlewareSvc(recording service)) on UDP / stream contexts; QnameRouter behind SingleServiceToService with and without EdnsMiddlewareSvc; the helpers directly) comparing what the service saw (hint, reserved octets, call count) and the complete response (header, counts, question octets, every OPT field and option, stream frame). I->S: recorded random requests (full 16-bit ranges biased to the boundaries, random OPT contents, random route sets) validated by Trace_ServerEdns / Trace_ServerRouting with the properties as invariants.",
    "note": "Properties stated by the builder (extension, not in properties.jsonl). Trusted: TLC, the transcription of the RFC sentences in ServerEdns.tla (Rules), the harness executor and its message projection. Additional-section order is not compared (OPT records are projected behind the others). Not covered: ClientTransportToSingleService / BoxClientTransportToSingleService (need a client transport; C15 covers those), ReplyMessage option copying beyond presence of OPT/EDE, requests whose sections do not parse (C16 hostile-input traces), services that emit several OPT records or a malformed one, the tracing/log side effects. The responder's payload size field is 0 in every OPT the middleware makes (the code has a TODO; RFC 6891 reads it as 512): described, not judged.",
    "technique": "TLA+ specs (ServerEdns.tla, ServerRouting.tla) + TLC exhaustive over grids; spec->impl case replay on the real middleware stack, router and helpers; impl->spec trace validation",
    "design_ref": "DESIGN.md §8 (Server: qname_router, single_service adapter; EDNS size negotiation)",
}

EXPLAIN = {
    "D_error_opt_no_edns": ("MC_ServerUtil", "MC_ServerUtil_D_error_opt_no_edns", "Laws"),
    "D_add_opt_not_atomic": ("MC_ServerUtil", "MC_ServerUtil_D_add_opt_not_atomic", "Laws"),
    "D_router_no_question_panic": ("MC_ServerRouting", "MC_ServerRouting_D_router_no_question_panic", "NeverPanics"),
}


def explain(ctx, dev):
    if dev not in EXPLAIN:
        print("unknown deviation", dev)
        return
    mod, cfg, _ = EXPLAIN[dev]
    res = ctx.tlc(mod, cfg, workers=4, label="explain", coverage=False)
    print(open(res.log).read()[-3500:])


def _head(src, dst, n):
    with open(src) as f, open(dst, "w") as g:
        for i, line in enumerate(f):
            if i >= n:
                break
            g.write(line)


def _mc_gen_replay(ctx, module, cfg, label, minimum, actions=None, coverage=True, timeout=2400):
    cases = os.path.join(ctx.work, "cases-%s.ndjson" % label)
    res = ctx.tlc(module, cfg, workers=8, label="mc-" + label, coverage=coverage,
                  cases_to=cases, timeout=timeout)
    ctx.require_ok(res, "%s %s" % (module, cfg))
    if actions:
        ctx.require_actions(res, actions)
    if res.ncases < minimum:
        raise vlib.ToolError("%s produced too few cases (%d < %d)" % (cfg, res.ncases, minimum))
    ctx.exhaustive_flags.append(True)
    return cases, res.ncases


def run(ctx):
    thorough = ctx.tier == "thorough"
    ctx.build("replay_srvmw", "record_srvmw")
    total = 0

    # 1+2. TLC decides the properties over each grid; every final state is a
    # case, replayed on the real code right away
    grids = [
        ("MC_ServerEdns", "MC_ServerEdns_thorough" if thorough else "MC_ServerEdns", "decide",
         80000 if thorough else 30000, MACHINE_ACTIONS),
        ("MC_ServerEdns", "MC_ServerEdns_size_thorough" if thorough else "MC_ServerEdns_size", "size",
         15000 if thorough else 9000, MACHINE_ACTIONS),
        ("MC_ServerUtil", "MC_ServerUtil", "util", 3500, None),
        ("MC_ServerRouting", "MC_ServerRouting_thorough" if thorough else "MC_ServerRouting", "route",
         30000 if thorough else 7000, None),
    ]
    first = True
    for module, cfg, label, minimum, actions in grids:
        cases, n = _mc_gen_replay(ctx, module, cfg, label, minimum, actions,
                                  coverage=(label in ("decide", "size")))
        if first:
            head = os.path.join(ctx.work, "head.ndjson")
            _head(cases, head, 20)
            rc, out, err, _ = ctx.run_bin("replay_srvmw", ["--selftest-perturb"], stdin_path=head)
            ctx.selftest("perturbed expectation is reported by replay_srvmw", "FAIL " in out)
            first = False
        ctx.replay_cases("replay_srvmw", cases, label=label)
        os.remove(cases)
        total += n
    ctx.stage("cases", {"total": total})

    # the named deviations break exactly the property they are filed under
    for dev in DEVS:
        if dev in ctx.open_devs:
            mod, cfg, inv = EXPLAIN[dev]
            d = ctx.tlc(mod, cfg, workers=4, label="mc-" + dev, coverage=False, count=False,
                        expect_violation=inv)
            ctx.require_ok(d, "%s must fail under %s" % (inv, dev))

    # 3. I->S: recorded random runs validated by TLC
    devs = sorted(d for d in DEVS if d in ctx.open_devs)
    n_traces = 4 if thorough else 1
    n_events = 6000 if thorough else 2500
    for kind, module in (("stack", "Trace_ServerEdns"), ("route", "Trace_ServerRouting")):
        cfg_path = os.path.join(ctx.work, module + "_run.cfg")
        cfg = open(os.path.join(vlib.SPEC, module + ".cfg")).read()
        cfg = cfg.replace("Dev = {}", "Dev = {%s}" % ", ".join('"%s"' % d for d in devs))
        open(cfg_path, "w").write(cfg)
        cfg_rel = os.path.relpath(cfg_path, vlib.SPEC)[:-4]
        for i in range(n_traces):
            tr = os.path.join(ctx.work, "trace-%s-%d.ndjson" % (kind, i))
            rc, out, err, _ = ctx.run_bin("record_srvmw", [kind, tr, str(ctx.seed * 100 + i), str(n_events)])
            if rc != 0:
                raise vlib.ToolError("record_srvmw failed: " + err[-500:])
            ok, res, rej = ctx.validate_trace(module, cfg_rel, tr, label="trace-%s-%d" % (kind, i))
            ctx.traces += 1
            if not ok:
                ctx.violation("recorded %s run is not a behaviour of %s (%s)"
                              % (kind, module[6:] + ".tla", res.violated or "no matching action"), rej)
            for rep in res.tagged.get("TRACE_DEVS", []):
                for d in rep.get("devs", []):
                    ctx.known(d, {"trace": "%s-%d" % (kind, i), "seed": ctx.seed * 100 + i})
            if i == 0:
                # binding self-test: one changed observation in the middle
                bad = os.path.join(ctx.work, "trace-bad.ndjson")
                lines = open(tr).read().splitlines()
                for j in range(len(lines) // 2, len(lines)):
                    o = json.loads(lines[j])
                    if kind == "stack" and o["obs"].get("resp", {}).get("err") is False:
                        o["obs"]["resp"]["rd"] = not o["obs"]["resp"]["rd"]
                    elif kind == "route" and o["ev"] == "call" and "ncalls" in o["obs"]:
                        o["obs"]["ncalls"] += 1
                    else:
                        continue
                    lines[j] = json.dumps(o)
                    break
                open(bad, "w").write("\n".join(lines) + "\n")
                ok2, _, _ = ctx.validate_trace(module, cfg_rel, bad, label="trace-selftest-" + kind)
                ctx.selftest("corrupted %s trace is rejected by %s" % (kind, module), not ok2)

    ctx.assume("RFC rules transcribed in ServerEdns!Rules: RFC 3425 3 (IQUERY -> NOTIMP), RFC 9619 4 (QUERY with QDCOUNT > 1 -> FORMERR), RFC 6891 6.1.1 (several / malformed OPT -> FORMERR), 6.1.3 (VERSION > 0 -> BADVERS), RFC 7828 3.2.1 (client keepalive with a timeout -> FORMERR, as the code documents); competing rules admit any of their outcomes")
    ctx.assume("the stack is MandatoryMiddlewareSvc(EdnsMiddlewareSvc(service)), the order middleware/mod.rs documents; the OPT claims are made for the EDNS middleware switched on")
    ctx.assume("a request with a malformed OPT record: presence of an OPT record in the answer is not judged")
    ctx.assume("record order inside the additional section is not compared")
    ctx.assume("a name registered twice: either registration is a correct route (the code takes the later one, and that is what is replayed)")
