"""C10 — zone transfers (spec/Xfr.tla, MC_Xfr.tla, Trace_Xfr.tla)."""
import json
import os
import vlib

META = {
    "category": "model_checking",
    "text": "Xfr.tla transcribes the transfer sender (AXFR/IXFR sequences, any packaging into messages), XfrResponseInterpreter (check_response, process_record, the update iterator), ZoneUpdater::apply on committed+pending content and the commit-time diff capture, next to a declarative reading of a record stream after RFC 5936 2.2 / RFC 1995 4. A record is (owner, type, RDATA, TTL) with one TTL per RRset (RFC 2181 5.2); versions differ in members, in an RRset's TTL alone, or in a TTL together with losing, gaining or replacing members. TLC checks, for every old/new zone pair over a small record universe (condensed and two-step histories, differences worded RFC 1995 style and the way the zone's own difference sets word them), every packaging into up to three messages and every single message fault (drop, duplicate, swap, truncate, header corruption, wrong question, a SOA with the same serial but other RDATA) at every position, that transfers reproduce the sender's zone TTLs included, that every version a reader can see is one the stream completely described, that reported diffs applied to the old content give the new content, and that invalid streams end in an error without panic. Every explored stream is rendered with the real MessageBuilder and replayed through the real interpreter + updater on a real in-memory zone (updates, errors, diffs and walk() content with TTLs compared after every message); recorded runs of the real XfrMiddlewareSvc sender over a zone the primary edits through ZoneUpdater and through WritableZoneNode::update_rrset/remove_rrset (AXFR and IXFR from every serial, from an up-to-date and a newer client, multi-message) are validated by TLC against the model and fed back through the real receiver. The client side of a transfer over the stream transport is part of the model: check_stream() and its XFRState machine (net::client::stream, multi-response requests) are transcribed (one action per record class), TLC checks on every sender stream in every packaging that the request is handed exactly the messages of the transfer, in order, and then the end - where the declarative reading of the stream (EndsAt on Denotes) and the interpreter see it - and that a stream cut short ends in an error; every generated stream (honest, cut, dropped, duplicated, swapped, truncated, corrupted SOA) is received through a real stream::Connection over an in-memory stream, and so are the real sender's recorded streams.",
    "note": "Trusted: TLC, the transcription in Xfr.tla, the harness projections. Named deviations (interpreter panic on a non-XFR question type, duplicate RRs kept, a TTL change lost by the commit diff: repaired; commit diff not the net change, IXFR SOA chain unchecked: open); their cases are classified KNOWN only when the real code behaves exactly as the deviant model, and a recorded event is accepted when the ideal model explains it or the model with open deviations does (the smallest set needed is reported), so a tree in which an open deviation has been repaired passes. The stream client compares SOA serials only (no owner, no RDATA) and RequestMessageMulti::is_answer accepts a first AXFR response without question: transcribed as built, the end-of-transfer claim is made for the sender's streams and their prefixes; header faults and wrong questions are not replayed into the client; timeouts of the client transport are C15's. Record order inside transfers is ascending in generated cases (hash order in recorded ones); the SOA's own TTL is fixed; where RFC 1995 is silent (a deleted RR whose TTL differs from the stored one) the model follows ZoneUpdater: the RRset takes the TTL of the RR mentioned last; TSIG, the client transports and the sender's batcher internals are outside the model; an IXFR answer whose first message holds only the SOA is by design read as the RFC 1995 retry signal and such packagings are excluded.",
    "technique": "TLA+ spec (Xfr.tla) + TLC exhaustive over histories x packagings x single faults; spec->impl behaviour replay; impl->spec trace validation of the real sender and receiver",
    "design_ref": "DESIGN.md §4 C10",
}

ACTIONS_FAULT = ["Init", "NoFault", "FaultDrop", "FaultDup", "FaultSwap", "FaultTruncate",
                 "FaultCorruptHeader", "FaultWrongQuestion", "DeliverNext", "Close"]
ACTIONS_FID = ["Init", "NoFault", "DeliverNext", "Close"]


def _dev_env(ctx):
    # open deviations are passed to the generator as environment variables
    # (MC_Xfr!EnvDev); model checking itself always runs with Dev = {}
    return {d: "1" for d in ctx.open_devs}


def run(ctx):
    thorough = ctx.tier == "thorough"
    sfx = "_thorough" if thorough else ""
    ctx.build("replay_xfr", "record_xfr", "replay_xfrclient")

    # 1. the specification satisfies the property (ideal design, Dev = {})
    # part "ttl": TTLs as zone content (quick: single-message packagings incl.
    # two-step histories; thorough: packagings, faults and, as "ttl2", the
    # two-step histories in two messages)
    parts = ["fid", "fault", "ixfr2", "ttl"] + (["ttl2"] if thorough else [])
    for part in parts:
        # no -coverage: TLC's coverage bookkeeping runs out of memory on the
        # recursive operators of this spec; the vacuity guard is done below
        # from the search depth and the generated cases
        mc = ctx.tlc("MC_Xfr", "MC_Xfr_%s%s" % (part, sfx), workers=8, label="mc-" + part,
                     timeout=3000, coverage=False)
        ctx.require_ok(mc, "MC_Xfr_" + part)
        if (mc.diameter or 0) < 4:
            raise vlib.ToolError("vacuity: no behaviour reached DeliverNext/Close in " + part)
    # the stream client's end-of-transfer detection (check_stream / XFRState),
    # stepped record by record over every scenario, packaging and record-level fault
    # (no -coverage, see above; vacuity: the search depth - a behaviour that
    # steps through >= 2 messages record by record - and, below, the outcomes
    # and record classes of the generated cases)
    mcc = ctx.tlc("MC_XfrClient", "MC_XfrClient" + sfx, workers=8, label="mc-client", timeout=3000,
                  coverage=False)
    ctx.require_ok(mcc, "MC_XfrClient")
    if (mcc.diameter or 0) < 12:
        raise vlib.ToolError("vacuity: the XFRState machine was not stepped through a multi-message stream")
    ctx.exhaustive_flags.append(True)
    # ... and ClientEndAgrees can fail: a machine that carries an intermediate
    # version's serial never sees the end of a two-step incremental transfer
    cm = ctx.tlc("MC_XfrClient", "MC_XfrClient_mut", workers=4, label="mc-client-mut", count=False,
                 coverage=False, expect_violation="ClientEndAgrees")
    ctx.require_ok(cm, "MC_XfrClient_mut (mutated XFRState machine must violate ClientEndAgrees)")
    # ... and does not hold vacuously: with the deviations switched on TLC
    # must find a counterexample (documentation of the findings)
    dv = ctx.tlc("MC_Xfr", "MC_Xfr_dev", workers=8, label="mc-dev", count=False, coverage=False,
                 expect_violation="FaultRejectedOrHarmless")
    ctx.require_ok(dv, "MC_Xfr_dev (deviant model must violate the property)")
    # the diff capture as built loses a change of an RRset's TTL: an IXFR
    # worded from the zone's own difference sets does not reproduce the zone
    dt = ctx.tlc("MC_Xfr", "MC_Xfr_devttl", workers=4, label="mc-devttl", count=False, coverage=False,
                 expect_violation="IxfrFidelity")
    ctx.require_ok(dt, "MC_Xfr_devttl (deviant diff capture must violate IXFR fidelity)")

    # 2. S->I: every explored stream is replayed into the real interpreter + updater
    first = True
    total = 0
    for part in ["fault", "ixfr2", "fid", "ttl"] + (["ttl2"] if thorough else []):
        cases = os.path.join(ctx.work, "cases-%s.ndjson" % part)
        gen = ctx.tlc("MC_Xfr", "Gen_Xfr_%s%s" % (part, sfx), workers=8, label="gen-" + part,
                      coverage=False, cases_to=cases, count=False, env=_dev_env(ctx), timeout=3000)
        ctx.require_ok(gen, "Gen_Xfr_" + part)
        if gen.ncases < 1000:
            raise vlib.ToolError("generator %s produced too few cases" % part)
        total += gen.ncases
        if first:
            first = False
            head = os.path.join(ctx.work, "head.ndjson")
            with open(cases) as f, open(head, "w") as g:
                for i, line in enumerate(f):
                    if i >= 20:
                        break
                    g.write(line)
            rc, out, err, _ = ctx.run_bin("replay_xfr", ["--selftest-perturb"], stdin_path=head)
            ctx.selftest("perturbed expectation is reported by replay_xfr", "FAIL " in out)
        ctx.replay_cases("replay_xfr", cases, label="xfr-" + part)
        # vacuity guard: which fault actions / transfer kinds were taken
        with open(cases) as f:
            for line in f:
                c = json.loads(line)["in"]
                keys = ["fault:" + c["fault"][0], "kind:" + c["kind"]]
                if c["fault"][0] == "none":
                    # TTL changes by class, transfer kind and wording of the differences
                    wording = c["kind"][:4] + ("-" + c["style"] if c["kind"].startswith("ixfr") else "")
                    keys += ["%s:%s" % (k, wording) for k in c["cls"]]
                for key in keys:
                    d, g = ctx.coverage_actions.get(key, (0, 0))
                    ctx.coverage_actions[key] = (d + 1, g + 1)

    need = ["fault:" + f for f in ("none", "drop", "dup", "swap", "trunc", "hdr", "wrongq", "csoa")] + \
           ["kind:" + k for k in ("axfr", "ixfr1", "ixfr2", "fallback", "uptodate")] + \
           ["%s:%s" % (k, w) for k in ("ttl_only", "ttl_shrink", "ttl_grow", "ttl_replace")
            for w in ("axfr", "ixfr-rfc", "ixfr-stamped") if (k, w) != ("ttl_only", "ixfr-stamped")]
    missing = [n for n in need if ctx.coverage_actions.get(n, (0, 0))[1] == 0]
    if missing:
        raise vlib.ToolError("vacuity: never generated: %s" % missing)

    # 2b. S->I: every explored stream is received through a real stream::Connection
    ccases = os.path.join(ctx.work, "cases-client.ndjson")
    gen = ctx.tlc("MC_XfrClient", "Gen_XfrClient" + sfx, workers=8, label="gen-client",
                  coverage=False, cases_to=ccases, count=False, timeout=3000)
    ctx.require_ok(gen, "Gen_XfrClient")
    if gen.ncases < 1000:
        raise vlib.ToolError("generator client produced too few cases")
    chead = os.path.join(ctx.work, "head-client.ndjson")
    seen = set()
    with open(ccases) as f, open(chead, "w") as g:
        for i, line in enumerate(f):
            if i < 20:
                g.write(line)
            c = json.loads(line)
            ci = c["in"]
            seen.add("fault:" + ci["fault"][0])
            seen.add("kind:" + ci["kind"] + ("" if ci["fault"][0] == "none" else "/faulted"))
            seen.add("nmsgs:%d" % len(ci["msgs"]))
            seen.update("out:" + o[0] for o in c["exp"]["outs"])
            if ci["fault"][0] == "none" and ci["kind"].startswith("ixfr"):
                nsoa = sum(1 for m in ci["msgs"] for r in m["an"] if r % 1000 >= 100)
                seen.add("diffseqs:%d" % ((nsoa - 2) // 2))
            if ci["honest"] and ci["fault"][0] == "drop":
                seen.add("premature")
    rc, out, err, _ = ctx.run_bin("replay_xfrclient", ["--selftest-perturb"], stdin_path=chead)
    ctx.selftest("perturbed expectation is reported by replay_xfrclient", "FAIL " in out)
    ctx.replay_cases("replay_xfrclient", ccases, label="xfr-client")
    needc = ["fault:" + f for f in ("none", "drop", "dup", "swap", "trunc", "csoa")] + \
            ["kind:" + k for k in ("axfr", "ixfr1", "ixfr2", "fallback", "uptodate")] + \
            ["nmsgs:1", "nmsgs:2", "nmsgs:3", "out:ok", "out:wrong", "out:eof", "out:closed",
             "diffseqs:1", "diffseqs:2", "premature"]
    missing = [n for n in needc if n not in seen]
    if missing:
        raise vlib.ToolError("vacuity (client cases): never generated: %s" % missing)
    for n in needc:
        ctx.coverage_actions["client-" + n] = (1, 1)

    # 3. I->S: the real sender (XfrMiddlewareSvc) and receiver, validated by TLC
    n_traces = 6 if thorough else 2
    rounds = "8" if thorough else "4"
    for i in range(n_traces):
        tr = os.path.join(ctx.work, "trace-%d.ndjson" % i)
        rc, out, err, _ = ctx.run_bin("record_xfr", [tr, str(ctx.seed * 100 + i), rounds])
        if rc != 0:
            raise vlib.ToolError("record_xfr failed: " + (out + err)[-800:])
        evs = vlib.read_ndjson(tr)
        if any(e["ev"] == "xfer_failed" for e in evs) or not any(e["ev"] == "xfer" for e in evs):
            raise vlib.ToolError("record_xfr could not drive the sender: " + str(
                [e for e in evs if e["ev"] == "xfer_failed"][:2]))
        ok, res, rej = ctx.validate_trace("Trace_Xfr", "Trace_Xfr", tr, label="trace-%d" % i,
                                          env=_dev_env(ctx))
        ctx.traces += 1
        if not ok:
            ctx.violation("recorded sender/receiver run is not explained by Xfr.tla", rej)
        # events that only the model with open deviations explains (DESIGN 2.6)
        for k in res.tagged.get("TRACE_KNOWN", []):
            ctx.known(k["dev"], k)
        # vacuity guard: the real stream client saw multi-step incremental
        # transfers (>= 2 difference sequences) in several messages, a lone SOA,
        # and a stream whose closing SOA is not the zone's
        def nseq(e):
            return (sum(1 for m in e["msgs"] for r in m["an"] if r % 1000 >= 100) - 2) // 2
        cl = [e for e in evs if e["ev"] in ("xfer", "xfer_utd", "xfer_bad")]
        if any("client" not in e for e in cl) or \
                not any(e["ev"] == "xfer" and e["req"] == 251 and nseq(e) >= 2 and len(e["msgs"]) >= 2 for e in cl) or \
                not any(e["ev"] == "xfer_utd" for e in cl) or not any(e["ev"] == "xfer_bad" for e in cl):
            raise vlib.ToolError("recorder: no multi-step IXFR / lone SOA / corrupted stream went through the stream client")
        if not any(e["ev"] == "xfer_bad" for e in evs):
            raise vlib.ToolError("no corrupted-closing-SOA stream was recorded")
        # vacuity guard: the primary's own edits changed TTLs in every way, the
        # changes were transferred incrementally, up-to-date clients were served
        seen = set(c for e in evs if e["ev"] == "commit" and e["mode"] == "direct" for c in e["classes"])
        if seen != {"ttl_only", "ttl_shrink", "ttl_grow", "ttl_replace"} or \
                not any(e["ev"] == "commit" and e["mode"] == "updater" for e in evs) or \
                not any(e["ev"] == "xfer_utd" for e in evs) or \
                not any(e["ev"] == "xfer" and e["req"] == 251 and e["from"] >= 1 and
                        any(m["an"][j] >= 1000 for m in e["msgs"] for j in range(len(m["an"]))) for e in evs):
            raise vlib.ToolError("recorder: TTL change classes %s / session modes / up-to-date answer missing" % sorted(seen))
        if ok and i == 0:
            # (Trace_Xfr requires size + reserved <= 65535 of every message, so
            # a transfer that should have been split and was not is a rejected
            # trace = VIOLATION above; this guard only covers a recorder that
            # never asked for a small budget)
            multi = sum(1 for e in evs if e["ev"] == "xfer" and len(e["msgs"]) > 1)
            small = sum(1 for e in evs if e["ev"] == "xfer" and e["total"] + e["reserved"] > 65535)
            if multi == 0 or small == 0 or not any(e["ev"] == "xfer_udp" for e in evs):
                raise vlib.ToolError("recorder produced no multi-message / UDP transfer")
            # binding self-tests: a corrupted trace must be rejected
            for what in ("drop-record", "final-content", "final-ttl", "client-no-end", "client-early-end"):
                bad = os.path.join(ctx.work, "trace-bad-%s.ndjson" % what)
                evs2 = json.loads(json.dumps(evs))
                for e in evs2:
                    if e["ev"] == "xfer" and len(e["msgs"][0]["an"]) > 3:
                        if what == "drop-record":
                            del e["msgs"][0]["an"][2]
                            e["msgs"][0]["anc"] -= 1
                        elif what == "final-content":
                            e["rfinal"]["recs"] = e["rfinal"]["recs"][1:]
                        elif what == "client-no-end":
                            # the response stream only ended when the peer closed
                            n = len(e["msgs"])
                            e["client"]["outs"] = e["client"]["outs"][:-1] + [["closed", n]]
                        elif what == "client-early-end":
                            if len(e["msgs"]) < 2:
                                continue
                            e["client"]["outs"] = [["ok", 1], ["eof", 1]]
                        else:
                            # the receiver ends with one RRset under another TTL
                            r = e["rfinal"]["recs"]
                            r[0] = r[0] + 1000 if r[0] < 1000 else r[0] - 1000
                            for j in range(1, len(r)):
                                if (r[j] % 1000 - 1) // 2 == (r[0] % 1000 - 1) // 2:
                                    r[j] = r[j] % 1000 + 1000 * (r[0] // 1000)
                            r.sort()
                        break
                vlib.write_ndjson(bad, evs2)
                ok2, _, _ = ctx.validate_trace("Trace_Xfr", "Trace_Xfr", bad,
                                               label="trace-selftest-" + what, env=_dev_env(ctx))
                ctx.selftest("corrupted trace (%s) is rejected by Trace_Xfr" % what, not ok2)

    ctx.assume("record universe: 4 owner names (apex, child, name below the child, name below an empty non-terminal) x {A, TXT} x 2 values; one TTL per RRset out of 2 (generated) / 3 (recorded) values, the SOA's TTL fixed; SOA identified by serial + RDATA variant")
    ctx.assume("RRs of a transfer are named by owner, type and RDATA; an RRset's TTL is the one carried by the RRs of it the transfer mentioned last (what ZoneUpdater does and the zone's own difference sets rely on); RFC 1995 is silent on a deleted RR whose TTL differs from the stored one")
    ctx.assume("the 'stamped' wording of a difference sequence (InMemoryZoneDiff as built: only RDATA that leaves or arrives, what leaves stamped with the new TTL) is generated only for histories without a TTL-only change, which it cannot express")
    ctx.assume("generated transfers list records in ascending order; recorded transfers use the real sender's (hash) order")
    ctx.assume("an IXFR answer whose first message holds only the SOA is the RFC 1995 retry/up-to-date signal; such packagings are excluded from the fidelity claim")
    ctx.assume("the caller's duty (Message::is_answer on the first message) is part of the modelled receiver; error values are compared as accept/reject")
    ctx.assume("stream client: the peer's messages carry the ID of the request; what get_response() hands out is observed after every message with the transport run to quiescence on a paused clock (a transport still busy after the step budget is the observation 'hang'), then the peer closes; response timeouts are outside this check (C15)")
    ctx.assume("single faults only; a faulted stream that is itself a well-formed transfer of other content is judged against what that stream denotes")
    ctx.assume("'S S' answering an IXFR query is admitted both as empty AXFR-style transfer and as incremental answer without difference sequences")
