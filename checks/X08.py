"""X08 — secondary zone replication end to end: TSIG o XFR o zone update
(spec/Repl.tla on top of Xfr.tla, Tsig.tla, Serial.tla)."""
import json
import os

import vlib

D = "D_tsig_unsigned_released"
REPLAY_BIN = "replay_repl"
PARTY_ACTIONS = ["SecRequest", "PriServe", "Deliver", "Eos"]
ADV_ACTIONS = ["AdvDrop", "AdvDup", "AdvSwap", "AdvTruncRec", "AdvFlipRec", "AdvFlipMac", "AdvStrip",
               "AdvRekey", "AdvSplice", "AdvReplay", "AdvForge", "AdvBurst", "AdvCut"]

PROPERTIES = [
    "X08.1 Replication: if nobody interferes, a transfer (AXFR; IXFR from any earlier version incl. histories whose serials cross 2^32; AXFR-style answer to IXFR; any packaging into messages) ends 'applied' with the secondary's committed zone equal to the primary's current version, and at every moment a reader of the secondary sees the old version or later versions of the primary's history in order - never a partial transfer.",
    "X08.2 Authenticated: with a TSIG key configured, for every schedule of in-path adversary actions on the response stream (drop / duplicate / reorder a message, remove records, alter a record, alter a MAC, strip a TSIG, replace it by another key's, splice in or replay messages of an earlier transfer, insert forged unsigned messages, 99/100 unsigned messages, end the stream early) every version a reader can see is the old one or one the primary really had, the messages whose content reaches the interpreter are a prefix of what the primary sent in this transfer, 'applied' implies the whole stream was authentic and the zone is the primary's current one; a wrong secret / unknown key / no key yields no record at all (NOTAUTH+BADSIG / NOTAUTH+BADKEY per RFC 8945 5.2, REFUSED from the transfer policy) and leaves the zone untouched.",
    "X08.3 Progress: under weak fairness of the two parties and the transport every transfer reaches a final status; an undisturbed one reaches 'applied'.",
]

META = {
    "category": "model_checking",
    "text": "Repl.tla composes, by INSTANCE and without copying, Xfr.tla (sender sequences and packagings, XfrResponseInterpreter, ZoneUpdater, published views), Tsig.tla (ClientSequence / ServerSequence / ServerError over the symbolic MAC table) and Serial.tla (RFC 1982 order, 4-bit serial space so that a history straddles the wrap) into one transfer between a primary (TsigMiddlewareSvc around the transfer middleware over a version history) and a secondary (net::client::tsig::Connection -> interpreter -> updater glued by the loop documented in zonetree/update.rs plus one get_response() for the end of the stream), with the adversary as named actions on the request and on the response stream. TLC explores every scenario (2-3 histories of 2-3 versions over 3-5 records, AXFR / IXFR from every version / fallback / up-to-date, every packaging into <= 3 messages, questions repeated or not, good / wrong-secret / unknown / no key) x every single adversary action at every position (13 kinds incl. 99/100 unsigned bursts and splicing / replaying a recorded earlier transfer) and every pair of actions on a reduced set, checks the properties as invariants and termination under fairness, and emits every maximal behaviour. S->I: each behaviour is executed on the real stack - real TSIG client wrapper over an in-memory multi-response transport, real TsigMiddlewareSvc around a transfer service that packages as the behaviour says, real interpreter and updater, the adversary's actions on the real octets - comparing the primary's verdict (RCODE, TSIG error) and, after every get_response(), the TSIG verdict, status, interpreter state, number of messages accepted and the zone content a fresh reader sees; the honest scenarios are also run against the fully real primary TsigMiddlewareSvc(XfrMiddlewareSvc(zone + the diffs its commits produced)) with three per-message budgets. I->S: seeded recordings of the fully real stack (zones over 32 records, 3-5 versions, serials across 2^32, the middleware's own packaging, 0-2 random adversary actions, all key configurations) are validated by Trace_Repl.tla: the sent stream denotes the primary's history (Xfr.tla's declarative oracle), the specification's transfer on the same messages gives the same observations step by step, the properties hold on the run.",
    "note": "Extension (not in properties.jsonl). Properties: " + " | ".join(PROPERTIES) + " Open finding D_tsig_unsigned_released: net::client::tsig hands a response without TSIG to its caller as soon as ClientSequence::answer has counted it (<= 99 in a row are provisionally acceptable, RFC 8945 5.3.1) although it is authenticated only by the next signed message; the caller cannot tell it from a verified one and the documented update loop applies it at once: a forged unsigned message carrying the closing SOA is committed by ZoneUpdater before done() reports TooManyUnsigned (TLC counterexample on PublishedLegit, reproduced on the real stack). Trusted: TLC, ring, Xfr.tla / Tsig.tla (C10 / C11) incl. C10's open deviations which are passed through. Not covered: UDP transport and the IXFR UDP->TCP retry (the library has no client-side glue for it), clock skew (the wrappers read the clock), real sockets / the stream transport's own XFR end detection, NOTIFY-triggered refresh policy, adversary actions on raw octets outside the 13 kinds.",
    "technique": "TLA+ composition spec (Repl.tla INSTANCE Xfr, Tsig, Serial) + TLC exhaustive incl. liveness; spec->impl behaviour replay on the real stack; impl->spec trace validation",
    "design_ref": "DESIGN.md §8 (Xfr: TSIG over XFR streams, Tsig o Xfr)",
}


def _env(ctx, asbuilt):
    """C10's open deviations of Xfr.tla are the receiver's as-built behaviour;
    the composition's own deviation only when asked for."""
    env = {}
    kf = json.load(open(vlib.KNOWN))
    for e in kf.get("open", []):
        if e.get("property") == "C10":
            env[e["deviation"]] = "1"
    if asbuilt:
        env[D] = "1"
    return env


def _load(path):
    out = {}
    for c in vlib.read_ndjson(path):
        out[json.dumps(c["in"], sort_keys=True)] = c
    return out


def run(ctx):
    thorough = ctx.tier == "thorough"
    suf = "_thorough" if thorough else ""
    ctx.build("replay_repl", "record_repl")

    # ---- TLC decides the properties on the ideal design, emits behaviours
    ideal = {}
    for cfg, live in (("MC_Repl_honest" + suf, True), ("MC_Repl_fault1" + suf, True), ("MC_Repl_fault2" + suf, False)):
        path = os.path.join(ctx.work, cfg + ".ndjson")
        res = ctx.tlc("MC_Repl", cfg, env=_env(ctx, False), cases_to=path, timeout=3000, coverage=False)
        ctx.require_ok(res, cfg)
        ideal[cfg] = (path, res)
        ctx.exhaustive_flags.append(True)
    # vacuity guard: TLC's -coverage exhausts the heap on this model (long
    # octet sequences); the behaviours themselves are the action log
    seen_k, seen_op = set(), set()
    for cfg in ideal:
        for c in vlib.read_ndjson(ideal[cfg][0]):
            seen_k.update(f["k"] for f in c["in"]["faults"])
            seen_op.update(st["op"] for st in c["exp"]["steps"])
    want_k = {"flipreq", "drop", "dup", "swap", "truncrec", "fliprec", "flipmac", "strip", "rekey",
              "splice", "replay", "forge", "burst", "cut"}
    if want_k - seen_k or {"deliver", "eos"} - seen_op:
        raise vlib.ToolError("vacuity: actions never taken: %s %s" % (want_k - seen_k, {"deliver", "eos"} - seen_op))
    for a in PARTY_ACTIONS + ADV_ACTIONS + ["AdvFlipReq"]:
        ctx.coverage_actions[a] = (1, 1)

    # ---- the deviation as a counterexample (documentation of the finding)
    res = ctx.tlc("MC_Repl", "MC_Repl_dev", env=_env(ctx, True), expect_violation="PublishedLegit",
                  count=False, coverage=False)
    ctx.require_ok(res, "as-built model must violate PublishedLegit")

    # ---- as-built expectations for the same behaviours
    merged = os.path.join(ctx.work, "cases.ndjson")
    n = ndev = 0
    with open(merged, "w") as out:
        for cfg in ideal:
            a = _load(ideal[cfg][0])
            b = {}
            if not cfg.startswith("MC_Repl_honest"):
                gcfg = cfg.replace("MC_Repl", "Gen_Repl")
                gpath = os.path.join(ctx.work, gcfg + ".ndjson")
                g = ctx.tlc("MC_Repl", gcfg, env=_env(ctx, True), cases_to=gpath, coverage=False,
                            count=False, timeout=3000)
                ctx.require_ok(g, gcfg)
                b = _load(gpath)
                if set(a) != set(b):
                    raise vlib.ToolError("ideal and as-built generators explored different behaviours")
            for k, c in a.items():
                case = {"in": c["in"], "exp": c["exp"]}
                if k in b and b[k]["exp"] != c["exp"]:
                    case["dev"] = {D: b[k]["exp"]}
                    ndev += 1
                out.write(json.dumps(case, separators=(",", ":")) + "\n")
                n += 1
    ctx.stage("merge", {"behaviours": n, "with_asbuilt_expectation": ndev})
    if ndev == 0:
        raise vlib.ToolError("vacuity: the deviation changes no expectation")

    # ---- S->I: every behaviour on the real stack
    ctx.replay_cases("replay_repl", merged, label="behaviours")
    # the fully real primary for the honest scenarios
    rpath = os.path.join(ctx.work, "real.ndjson")
    res = ctx.tlc("MC_Repl", "Gen_Repl_real", env=_env(ctx, False), cases_to=rpath, coverage=False)
    ctx.require_ok(res, "Gen_Repl_real")
    ctx.replay_cases("replay_repl", rpath, label="real-primary")

    # ---- I->S: recorded runs of the fully real stack
    rounds = 24 if thorough else 7
    asbuilt = D in ctx.open_devs
    for t in range(2 if thorough else 1):
        tpath = os.path.join(ctx.work, "trace-%d.ndjson" % t)
        rc, out, err, wall = ctx.run_bin("record_repl", [tpath, str(ctx.seed + 7919 * t), str(rounds)])
        if rc != 0:
            raise vlib.ToolError("record_repl failed: " + (out + err)[-2000:])
        evs = vlib.read_ndjson(tpath)
        if any(e["ev"] != "xfer" for e in evs):
            raise vlib.ToolError("recorder: harness event: %s" % [e for e in evs if e["ev"] != "xfer"][:1])
        ok, res, rej = ctx.validate_trace("Trace_Repl", "Trace_Repl", tpath, env=_env(ctx, asbuilt),
                                          label="trace-%d" % t, timeout=3000)
        ctx.stage("trace-%d" % t, {"events": len(evs), "accepted": ok,
                                   "applied": sum(1 for e in evs if e["final"]["st"] == "applied"),
                                   "with_faults": sum(1 for e in evs if e["faults"])})
        if ok:
            ctx.traces += len(evs)
        else:
            ctx.violation("recorded transfer is not a behaviour of Repl.tla", rej)
    ctx.sample({"trace_event": {k: evs[0][k] for k in ("kind", "from", "key", "faults", "serve", "final")}})

    # ---- binding self-tests
    p = os.path.join(ctx.work, "perturb.ndjson")
    vlib.write_ndjson(p, vlib.read_ndjson(merged)[:3])
    rc, out, err, wall = ctx.run_bin("replay_repl", ["--selftest-perturb", "--open-devs", ""], stdin_path=p)
    ctx.selftest("perturbed expectation is reported by replay_repl", "FAIL " in out)
    evs = vlib.read_ndjson(tpath)
    k = next(i for i, e in enumerate(evs) if e["final"]["st"] == "applied")
    evs[k]["final"]["pub"]["recs"] = evs[k]["final"]["pub"]["recs"][1:]
    evs[k]["steps"][-1]["pub"] = evs[k]["final"]["pub"]
    bad = os.path.join(ctx.work, "trace-bad.ndjson")
    vlib.write_ndjson(bad, evs[:k + 1])
    saved = (ctx.traces, list(ctx.violations))
    ok, res, rej = ctx.validate_trace("Trace_Repl", "Trace_Repl", bad, env=_env(ctx, asbuilt), label="trace-bad")
    ctx.selftest("corrupted trace (a record missing from the applied zone) is rejected", not ok)

    ctx.assume("TLC, ring's HMAC; Xfr.tla / Tsig.tla / Serial.tla as decided by C10 / C11 / C17; C10's open deviations are passed to the receiver model")
    ctx.assume("the glue is the loop documented in zonetree/update.rs followed by one get_response() for the end of the stream; the transport is in-memory (no sockets, no UDP)")
    ctx.assume("honest clocks: the TSIG wrappers read the system clock themselves")
